"""C22 backward matching and decoupling inversions are true inverses.

Three families, each judged by something that does not share the code path:

* ``build_ome(.., BACKWARD_EXPANDED)``  vs the multiplicative inverse of the matrix-valued series
  1 + sum_k a^k A_k computed by the generic series algebra (ordered products), as an exact polynomial identity in
  a, plus the measured scaling exponent of  A_exp^-1 A - 1  and  A A_exp^-1 - 1  under a -> lambda a (no reference).
* ``build_ome(.., BACKWARD_EXACT)`` times the forward operator = 1 to rounding x condition number.
* ``couplings.invert_matching_coeffs`` (coupling and MSbar-mass decoupling tables): series composition
  f_down(f_up(a, L), L) = a + O(a^5) identically in L (L symbolic, polynomial coefficients), for the code's tables
  (POLE / MSBAR, nf 3-5) and random tables with c10 = 0 (the documented precondition); for the mass tables the
  identity the caller ``msbar_masses.evolve`` relies on: both directions multiply by 1 + sum c[n,l] a^n L^l with the
  *same* coupling a = a^(nf+1), so down x up = 1 + O(a^4) (multiplicative; coincides with the compositional
  inverse because the mass tables have no O(a) term).
"""

import math

from hypothesis import strategies as st

from vf.core import CaseResult, exc_bucket
from vf.strategies import floats

ID = "C22"
LEVEL = "exploration"
TECHNIQUE = (
    "generic series inverse / reversion (ordered matrix products, symbolic L) vs the hand-expanded inverses; "
    "scaling exponent of inverse x forward - 1; exact inverse vs matrix product"
)
RULE = (
    "Generated: build_ome on random complex 2x2 / 3x3 matching towers A_1..A_n (|A_k| ~ 3*6^(k-1), generic "
    "non-commuting / commuting / diagonal, from a Hypothesis-drawn seed), matching order n = 0..3, a_s in "
    "[0.002, 0.05] for the scaling and exact-inverse parts and log-uniform in [1e-3, 1] for the polynomial identity; "
    "random decoupling tables c[n,l] (n = 1..3, l <= n, c10 = 0; mass-style tables with no O(a) term) and numeric "
    "round trips a -> up -> down at coupling order 2..4 with L in [-1.5, 1.5].  Enumerated: the code's coupling "
    "tables (POLE, MSBAR) and MSbar-mass tables for nf = 3..5 with symbolic L.  Non-trivial = matching order >= 2 "
    "with relative commutator norm of A_1, A_2 > 0.1 (build_ome) / any table case; distinct by the full case."
)
ASSUMPTIONS = [
    "build_ome is called as quad_ker_ome does: A of shape (n, d, d) for matching order n >= 1 (order 0 never reaches "
    "build_ome in the callers; it is exercised with a one-element A and must give the identity)",
    "expanded inverse: exact polynomial identity in a_s, tolerance 1e-10 x sum of term magnitudes; scaling exponent of "
    "the residual >= n + 0.75 from the two smallest lambda in {1,1/2,1/4,1/8} whose residual is >= 100 x 1e-15",
    "exact inverse: |A_exact^-1 A - 1| <= 1e-12 x cond_2(A)",
    "numeric round trip a -> up -> down (the loop of Couplings.a / msbar_masses.evolve at coupling order 2-4): the "
    "relative defect must stay below the majorant of its own order >= a^order terms (tables and L replaced by moduli) "
    "at a_s x {1,1/2,1/4,1/8,1/32,1/128}; an exponent fit is not used there because the real scalar defect changes "
    "sign as a function of L and a (observed local exponents 2.7-3.5 on the unchanged tree at such zeros)",
    "decoupling tables follow couplings.Couplings.a: a_new = a (1 + sum_{n=1}^{order-1} sum_{l<=n} c[n,l] a^n L^l) "
    "with the same L in both directions; invert_matching_coeffs is only claimed for c10 = 0 (its docstring)",
    "mass decoupling follows msbar_masses.evolve: both directions use a_s of the upper patch, so the inverse is "
    "multiplicative in the same variable",
    "tolerance for table identities 1e-10 x sum of magnitudes of the contributing products",
]
LEVEL_TEXT = (
    "Exploration: the hand-expanded inverse of the matching operator and of the decoupling relations is compared "
    "with a generically derived series inverse on random non-commuting inputs and on the code's own tables with "
    "symbolic L; the order of the residual is also measured directly.  Any wrong coefficient or swapped product is "
    "caught on the first case of that order, but arbitrary inputs are sampled, not proven."
)
TOL = 1e-10


def budget(tier):
    if tier == "quick":
        return dict(max_examples=2000, shards=8, wall_s=60, shrink_s=30, enum_shards=4)
    return dict(max_examples=30000, shards=16, wall_s=600, shrink_s=120, enum_shards=4)


# ------------------------------------------------------------------------------------------------ generation


@st.composite
def _case(draw):
    kind = draw(st.sampled_from(
        ["ome-expanded", "ome-expanded", "ome-expanded", "ome-exact", "ome-exact", "table-random", "table-random",
         "table-roundtrip"]
    ))
    case = {"kind": kind, "seed": draw(st.integers(0, 2**31 - 1))}
    if kind.startswith("ome"):
        case["n"] = draw(st.sampled_from([0, 1, 2, 2, 3, 3, 3]))
        case["dim"] = draw(st.sampled_from([2, 3]))
        case["structure"] = draw(st.sampled_from(["generic", "generic", "generic", "commuting", "diagonal"]))
        case["a_s"] = draw(floats(math.log(0.002), math.log(0.05)).map(math.exp))
        if kind == "ome-expanded":
            case["a_poly"] = draw(floats(math.log(1e-3), 0.0).map(math.exp))
    elif kind == "table-random":
        case["style"] = draw(st.sampled_from(["coupling", "coupling", "mass"]))
    else:
        case["family"] = draw(st.sampled_from(["POLE", "MSBAR", "mass"]))
        case["nf"] = draw(st.integers(3, 5))
        case["order"] = draw(st.integers(2, 4))
        case["L"] = draw(floats(-1.5, 1.5))
        case["a_s"] = draw(floats(math.log(0.005), math.log(0.05)).map(math.exp))
    return case


def strategy(tier):
    return _case()


def enumerate_cases(tier):
    out = []
    for nf in (3, 4, 5):
        for fam in ("POLE", "MSBAR", "mass"):
            out.append({"kind": "table-code", "family": fam, "nf": nf})
    return out


def build_A(case):
    """Matching tower [A_1, A_2, A_3] (always three, the caller slices) as complex numpy matrices."""
    import numpy as np

    rng = np.random.default_rng(case["seed"])
    d = case["dim"]
    q, _ = np.linalg.qr(rng.normal(size=(d, d)) + 1j * rng.normal(size=(d, d)))
    out = []
    for k in range(3):
        scale = 3.0 * 6.0**k / math.sqrt(2 * d)
        if case["structure"] == "generic":
            m = rng.normal(size=(d, d)) + 1j * rng.normal(size=(d, d))
        else:
            m = np.diag(rng.normal(size=d) + 1j * rng.normal(size=d)) * math.sqrt(d)
            if case["structure"] == "commuting":
                m = q @ m @ q.conj().T
        out.append(m * scale)
    return out


def build_table(case):
    import numpy as np

    rng = np.random.default_rng(case["seed"])
    c = np.zeros((4, 4))
    for n in range(1, 4):
        for l in range(n + 1):
            c[n, l] = rng.normal() * 4.0**n
    c[1, 0] = 0.0
    if case["style"] == "mass":
        c[1, :] = 0.0
    return c


# ------------------------------------------------------------------------------------------------ helpers


def _norm2(m):
    import numpy as np

    return float(np.linalg.norm(m, 2))


def _commutator(A):
    d = _norm2(A[0]) * _norm2(A[1])
    return _norm2(A[0] @ A[1] - A[1] @ A[0]) / d if d > 0 else 0.0


def exponent(residual, lambdas=(1.0, 0.5, 0.25, 0.125), floor=1e-15):
    """Measured order from the two smallest lambdas with residual >= 100*floor; None if fewer than two."""
    vals = [(lam, residual(lam)) for lam in lambdas]
    usable = [(lam, r) for lam, r in vals if r >= 100 * floor]
    if len(usable) < 2:
        return None, vals
    (l1, r1), (l2, r2) = usable[-2], usable[-1]
    return math.log(r1 / r2) / math.log(l1 / l2), vals


def table_series(c, order_max=3):
    """f(a) = a (1 + sum_{n<=order_max} a^n sum_l c[n,l] L^l) as Series(order_max+1) with Poly(L) coefficients."""
    from vf.refs.series import Poly, Series

    coeffs = [Poly([0]), Poly([1])]
    for n in range(1, order_max + 1):
        coeffs.append(Poly([float(c[n, l]) for l in range(n + 1)]))
    return Series(coeffs, order_max + 1)


def factor_series(c, order_max=3):
    """1 + sum_{n<=order_max} a^n sum_l c[n,l] L^l as Series(order_max) with Poly(L) coefficients."""
    from vf.refs.series import Poly, Series

    coeffs = [Poly([1])]
    for n in range(1, order_max + 1):
        coeffs.append(Poly([float(c[n, l]) for l in range(n + 1)]))
    return Series(coeffs, order_max)


def _abs_table(c):
    import numpy as np

    return np.abs(np.asarray(c, dtype=float))


def _poly_coeffs(p, length):
    from vf.refs.series import Poly

    cs = [float(x) for x in Poly.lift(p).c]
    return cs + [0.0] * max(0, length - len(cs))


def _aligned(p, s):
    """Coefficient lists of two polynomials padded to a common length."""
    from vf.refs.series import Poly

    n = max(len(Poly.lift(p).c), len(Poly.lift(s).c))
    return _poly_coeffs(p, n), _poly_coeffs(s, n)


def apply_table(a, c, order, L):
    """The loop of Couplings.a / msbar_masses.evolve: 1 + sum_{n=1}^{order-1} sum_{l<=n} a^n L^l c[n,l]."""
    fact = 1.0
    for n in range(1, order):
        for l in range(n + 1):
            fact += a**n * L**l * c[n, l]
    return fact


def Series_var(N):
    from vf.refs.series import Poly, Series

    return Series([Poly([0]), Poly([1])], N)


def _code_tables(family, nf):
    if family == "mass":
        from eko import msbar_masses

        return msbar_masses.compute_matching_coeffs_up(nf), msbar_masses.compute_matching_coeffs_down(nf)
    from eko import couplings

    return couplings.compute_matching_coeffs_up(family, nf), couplings.compute_matching_coeffs_down(family, nf)


# ------------------------------------------------------------------------------------------------ checks


def check_case(case):
    kind = case["kind"]
    if kind == "ome-expanded":
        return _ome_expanded(case)
    if kind == "ome-exact":
        return _ome_exact(case)
    if kind == "table-random":
        return _table_identity(case, *_random_tables(case), tag=f"random-{case['style']}",
                               mass=case["style"] == "mass")
    if kind == "table-code":
        try:
            up, dn = _code_tables(case["family"], case["nf"])
        except Exception as e:  # noqa: BLE001
            return CaseResult().fail(exc_bucket(f"{ID}/table/call", e), repr(e))
        return _table_identity(case, up, dn, tag=f"code-{case['family']}", mass=case["family"] == "mass")
    if kind == "table-roundtrip":
        return _table_roundtrip(case)
    raise ValueError(kind)


def _call_ome(A, n, a, method):
    import numpy as np

    from eko.evolution_operator.quad_ker import build_ome

    arr = np.array(A[: max(n, 1)], dtype=np.complex128)
    return build_ome(arr, (n, 0), a, method)


def _ome_expanded(case):
    import numpy as np

    from eko.evolution_operator.quad_ker import MatchingMethods as MM
    from vf.refs.series import Mat, Series

    n, d = case["n"], case["dim"]
    A = build_A(case)
    comm = _commutator(A)
    res = CaseResult(classes=["ome-expanded", f"n={n}", f"dim={d}", case["structure"]])
    res.nontrivial = n >= 2 and comm > 0.1
    if comm > 0.1:
        res.classes.append("non-commuting")
    eye = np.eye(d)

    # (i) exact polynomial identity with the generic series inverse
    fwd = Series([Mat(eye)] + [Mat(A[k]) for k in range(n)], n)
    inv = fwd.inverse()
    a = case["a_poly"]
    want = sum((inv.c[k].m * a**k for k in range(n + 1)), np.zeros((d, d), complex))
    absinv = Series([1.0] + [-_norm2(A[k]) for k in range(n)], n).inverse()  # 1/(1 - sum |A_k| a^k): all terms +
    scale = float(sum(abs(absinv.c[k]) * a**k for k in range(n + 1)))
    try:
        got = _call_ome(A, n, a, MM.BACKWARD_EXPANDED)
        fw = _call_ome(A, n, a, MM.FORWARD)
    except Exception as e:  # noqa: BLE001
        return res.fail(exc_bucket(f"{ID}/ome/call", e), repr(e))
    dlt = float(np.max(np.abs(got - want)))
    if dlt > TOL * scale:
        res.fail(
            f"{ID}/ome-expanded/series-inverse/n={n}",
            f"build_ome(EXPANDED) n={n} dim={d} a_s={a}: differs from the order-{n} series inverse of 1+sum a^k A_k by "
            f"{dlt:.3e} (scale {scale:.3e})",
        )
    fwant = eye + sum((A[k] * a ** (k + 1) for k in range(n)), np.zeros((d, d), complex))
    if float(np.max(np.abs(fw - fwant))) > TOL * (1 + sum(_norm2(A[k]) * a ** (k + 1) for k in range(n))):
        res.fail(f"{ID}/ome-forward/n={n}", f"build_ome(FORWARD) n={n} a_s={a} is not 1 + sum a^k A_k")

    # (ii) measured order of the residual, both sides
    a0 = case["a_s"]
    for side in ("left", "right"):

        def residual(lam, side=side):
            x = _call_ome(A, n, lam * a0, MM.BACKWARD_EXPANDED)
            f = _call_ome(A, n, lam * a0, MM.FORWARD)
            p = x @ f if side == "left" else f @ x
            return float(np.max(np.abs(p - eye)))

        try:
            expo, vals = exponent(residual)
        except Exception as e:  # noqa: BLE001
            return res.fail(exc_bucket(f"{ID}/ome/call", e), repr(e))
        if n == 0:
            if any(r != 0.0 for _, r in vals):
                res.fail(f"{ID}/ome-expanded/order0", f"matching order 0 must give the identity, residuals {vals}")
            continue
        if expo is None:
            res.classes.append("scaling-below-noise")
            continue
        if expo < n + 0.75:
            res.fail(
                f"{ID}/ome-expanded/scaling/{side}/n={n}",
                f"|inverse x forward - 1| ({side}) scales like a^{expo:.2f} < a^{n + 1} at a_s={a0}: {vals}",
            )
    return res


def _ome_exact(case):
    import numpy as np

    from eko.evolution_operator.quad_ker import MatchingMethods as MM

    n, d, a = case["n"], case["dim"], case["a_s"]
    A = build_A(case)
    comm = _commutator(A)
    res = CaseResult(classes=["ome-exact", f"n={n}", f"dim={d}", case["structure"]])
    res.nontrivial = n >= 2 and comm > 0.1
    try:
        inv = _call_ome(A, n, a, MM.BACKWARD_EXACT)
        fw = _call_ome(A, n, a, MM.FORWARD)
    except Exception as e:  # noqa: BLE001
        return res.fail(exc_bucket(f"{ID}/ome/call", e), repr(e))
    cond = float(np.linalg.cond(fw))
    eye = np.eye(d)
    for side, p in (("left", inv @ fw), ("right", fw @ inv)):
        dlt = float(np.max(np.abs(p - eye)))
        if dlt > 1e-12 * cond:
            res.fail(
                f"{ID}/ome-exact/{side}/n={n}",
                f"exact inverse x forward - 1 ({side}) = {dlt:.3e} > 1e-12 x cond {cond:.2f} (n={n}, a_s={a})",
            )
    return res


def _random_tables(case):
    from eko.couplings import invert_matching_coeffs

    up = build_table(case)
    return up, invert_matching_coeffs(up.copy())


def _table_identity(case, up, dn, tag, mass):
    import numpy as np

    res = CaseResult(classes=[f"table/{tag}"], nontrivial=True, key=case)
    up = np.asarray(up, dtype=float)
    dn = np.asarray(dn, dtype=float)
    if mass:
        # multiplicative: (1 + sum d a^n L^l)(1 + sum c a^n L^l) = 1 + O(a^4), same a (msbar_masses.evolve)
        prod = factor_series(dn) * factor_series(up)
        sc = factor_series(_abs_table(dn)) * factor_series(_abs_table(up))
        for k in range(1, 4):
            cs, ss = _aligned(prod.c[k], sc.c[k])
            for l, (x, s) in enumerate(zip(cs, ss)):
                if abs(x) > TOL * max(s, 1e-300) and abs(x) > 0:
                    res.fail(
                        f"{ID}/table/{tag}/product/a^{k}L^{l}",
                        f"down x up has a^{k} L^{l} coefficient {x:.6e} (terms of size {s:.3e}); up={up.tolist()} "
                        f"down={dn.tolist()}",
                    )
        return res
    fu, fd = table_series(up), table_series(dn)
    au, ad_ = table_series(_abs_table(up)), table_series(_abs_table(dn))
    for name, comp, sc in (("down(up(a))", fd.compose(fu), ad_.compose(au)), ("up(down(a))", fu.compose(fd), au.compose(ad_))):
        for k in range(2, 5):
            cs, ss = _aligned(comp.c[k], sc.c[k])
            for l, (x, s) in enumerate(zip(cs, ss)):
                if abs(x) > TOL * max(s, 1e-300) and abs(x) > 0:
                    res.fail(
                        f"{ID}/table/{tag}/{name}/a^{k}L^{l}",
                        f"{name} has a^{k} L^{l} coefficient {x:.6e} instead of 0 (terms of size {s:.3e}); "
                        f"up={up.tolist()} down={dn.tolist()}",
                    )
    # entry-wise diagnosis against the generic compositional inverse
    rev = fu.reversion()
    arev = (2 * Series_var(4) - au).reversion()  # a - sum |c| a^(n+1): every term of the reversion is positive
    for n in range(1, 4):
        cs, ss = _aligned(rev.c[n + 1], arev.c[n + 1])
        for l, x in enumerate(cs):
            have = dn[n, l] if l <= n and l < dn.shape[1] else 0.0
            s = max(abs(ss[l]), abs(x), 1e-300)
            if abs(have - x) > TOL * s and abs(have - x) > 0:
                res.fail(
                    f"{ID}/table/{tag}/entry/{n},{l}",
                    f"downward coefficient [{n},{l}] = {have!r} but the series reversion of the upward relation gives "
                    f"{x!r}",
                )
    return res


def _roundtrip_bound(fam, up, dn, order, L):
    """Majorant of the relative round-trip defect: returns g with |defect(a)| <= g(a) *iff* all coefficients below
    a^order cancel (triangle inequality on the full, finite polynomial; tables and L replaced by moduli)."""
    import numpy as np

    from vf.refs.series import Series

    aup, adn, aL = np.abs(up), np.abs(dn), abs(L)
    p = order - 1  # highest power of a inside the factor
    fu = [1.0] + [sum(aup[n, l] * aL**l for l in range(n + 1)) for n in range(1, p + 1)]
    fd = [1.0] + [sum(adn[n, l] * aL**l for l in range(n + 1)) for n in range(1, p + 1)]
    if fam == "mass":
        N = 2 * p
        prod = Series(fu, N) * Series(fd, N)
        tail = [(k, float(prod.c[k])) for k in range(order, N + 1)]
    else:
        N = (p + 1) ** 2
        gu = Series([0.0] + fu, N)
        gd = Series([0.0] + fd, N)
        comp = gd.compose(gu)
        tail = [(k - 1, float(comp.c[k])) for k in range(order + 1, N + 1)]  # relative: divide by a
    return lambda a: sum(c * a**k for k, c in tail)


def _table_roundtrip(case):
    fam, nf, order, L, a0 = case["family"], case["nf"], case["order"], case["L"], case["a_s"]
    res = CaseResult(classes=[f"roundtrip/{fam}", f"order={order}"], nontrivial=True)
    try:
        up, dn = _code_tables(fam, nf)
    except Exception as e:  # noqa: BLE001
        return res.fail(exc_bucket(f"{ID}/table/call", e), repr(e))
    bound = _roundtrip_bound(fam, up, dn, order, L)
    for lam in (1.0, 0.5, 0.25, 0.125, 1.0 / 32, 1.0 / 128):
        a = lam * a0
        if fam == "mass":
            r = abs(apply_table(a, up, order, L) * apply_table(a, dn, order, L) - 1.0)
        else:
            b = a * apply_table(a, up, order, L)
            back = b * apply_table(b, dn, order, L)
            r = abs(back / a - 1.0)
        lim = bound(a) * (1 + 1e-9) + 1e-14
        if r > lim:
            res.fail(
                f"{ID}/roundtrip/{fam}/order={order}",
                f"relative round-trip defect up->down at coupling order {order} is {r:.3e} at a_s={a}, above the "
                f"majorant {lim:.3e} of all terms of order a^{order} and higher (nf={nf}, L={L}): a lower-order term "
                "does not cancel",
            )
            break
    return res

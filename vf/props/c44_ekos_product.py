"""C44 products of EKOs compose in evolution order, with the solver's error rule (ekobox.utils.ekos_product)."""

import math

import numpy as np

from vf import runner_util as ru
from vf.core import CaseResult, exc_bucket
from vf.refs import b_synth as bs

ID = "C44"
LEVEL = "exploration"
ENGINE = "B"
TECHNIQUE = (
    "Hypothesis-generated pairs of synthetic EKOs (public create/build API, dense random non-commuting operators and "
    "errors) multiplied with ekos_product in place and into a new archive; oracle = plain matrix product later x "
    "earlier and the first-order rule of eko.runner.operators._dotop typed from its docstring"
)
RULE = (
    "First EKO: 1-3 unsorted targets (nf 3-6), second EKO: 1-3 targets, initial point placed on one target of the "
    "first exactly / inside 0.4 x (atol + rtol mu^2) / outside 3 x that window / with a different nf / with two "
    "targets of the first inside the window (the last three must raise ValueError and leave the first EKO alone); "
    "rtol, atol default or drawn; grids of 2-4 points; each operator optionally with an error tensor; first EKO "
    "passed as the freshly built object or re-opened with EKO.edit, second as built or EKO.read; product written to "
    "a new archive, in place, or both (then compared bit for bit); 15% of the cases add a target of the second EKO "
    "that already exists in the first (skipped by design: only 'first EKO untouched' is asserted for it). Oracle for "
    "every new target t: result = E2[t] . E1[m] (later to the left), error = |E2||dE1| + |dE2||E1| when both carry "
    "errors else none; points of the first EKO bitwise unchanged; point set = union. Non-trivial = accepted product "
    "whose operators do not commute (relative commutator > 1e-3) with both errors present on a new target; distinct "
    "by case."
)
ASSUMPTIONS = [
    "tolerance 1e-12 x (|E2|.|E1|) entrywise for values and the same for errors (float64 products of 28-56 terms; "
    "measured worst deviation 4e-16 on the patched tree)",
    "error rule typed from the docstring/body of eko.runner.operators._dotop: |a|.|db| + |da|.|b| with a the later "
    "operator (join reduces the reversed path), None if either error is missing",
    "'exactly equal' targets are skipped by ekos_product by design (DESIGN 5.1); they are generated only to assert "
    "that the first EKO's operator is kept",
    "window placement avoids the edge of np.isclose: inside <= 0.4 x, outside >= 3 x (atol + rtol mu^2)",
]
LEVEL_TEXT = (
    "Generated-input exploration of ekos_product on synthetic EKOs against a plain matrix-product oracle; operators "
    "are continuous random tensors, so the space is sampled, not exhausted."
)

TOL = 1e-12
MODES = ["exact", "exact", "within", "within", "outside", "nf", "ambiguous"]


def budget(tier):
    if tier == "quick":
        return dict(max_examples=152, shards=8, wall_s=80, shrink_s=40)
    return dict(max_examples=2500, shards=16, wall_s=800, shrink_s=200)


# --------------------------------------------------------------------------- generator


def strategy(tier):
    from hypothesis import strategies as st

    @st.composite
    def build(draw):
        n = draw(st.integers(2, 4))
        xgrid = bs.make_xgrid(n, 10 ** draw(st.floats(-3, -0.6)), [draw(st.floats(0.6, 1.6)) for _ in range(n - 1)])
        deg = draw(st.integers(1, min(2, n - 1)))

        def ladder(k, lo):
            mus, mu = [], lo
            for _ in range(k):
                mu *= draw(st.floats(1.1, 3.0))
                mus.append(float(round(mu, 6)))
            return mus

        n1 = draw(st.integers(1, 3))
        pts1 = [[mu, draw(st.integers(3, 6))] for mu in ladder(n1, draw(st.floats(1.0, 5.0)))]
        pts1 = list(draw(st.permutations(pts1)))
        midx = draw(st.integers(0, n1 - 1))
        n2 = draw(st.integers(1, 3))
        pts2 = [[mu, draw(st.integers(3, 6))] for mu in ladder(n2, 60.0)]
        pts2 = list(draw(st.permutations(pts2)))
        overlap = draw(st.sampled_from([False] * 6 + [True]))
        if overlap:
            pts2.insert(draw(st.integers(0, len(pts2))), list(pts1[draw(st.integers(0, n1 - 1))]))
        mode = draw(st.sampled_from(MODES))
        tol = None if draw(st.booleans()) else [10 ** draw(st.floats(-9, -3)), 10 ** draw(st.floats(-12, -6))]
        return dict(
            seed=draw(st.integers(0, 2**31 - 1)),
            xgrid=xgrid,
            deg=deg,
            init1=[float(round(draw(st.floats(0.5, 0.99)), 6)), draw(st.integers(3, 6))],
            pts1=pts1,
            midx=midx,
            mode=mode,
            tol=tol,
            u=draw(st.floats(-1.0, 1.0)),
            pts2=pts2,
            err1=[draw(st.integers(0, 3)) > 0 for _ in pts1],
            err2=[draw(st.integers(0, 3)) > 0 for _ in pts2],
            how=draw(st.sampled_from(["both", "both", "inplace", "copy"])),
            open1=draw(st.sampled_from(["built", "edit"])),
            open2=draw(st.sampled_from(["built", "read"])),
        )

    return build()


def second_init(case):
    """(mu, nf) of the second EKO's initial point and, for 'ambiguous', the extra target added to the first EKO."""
    rtol, atol = case["tol"] if case["tol"] is not None else (1e-6, 1e-10)
    mu_m, nf_m = case["pts1"][case["midx"]]
    mu2 = mu_m**2
    window = atol + rtol * mu2
    u = case["u"]
    sign = 1.0 if u >= 0 else -1.0
    extra = None
    mode = case["mode"]
    if mode == "exact":
        return [mu_m, nf_m], None
    if mode == "within":
        return [math.sqrt(mu2 + 0.4 * u * window), nf_m], None
    if mode == "outside":
        return [math.sqrt(mu2 + sign * (3.0 + 40.0 * abs(u)) * window), nf_m], None
    if mode == "nf":
        return [mu_m, 3 + (nf_m - 3 + 1 + int(abs(u) * 2.999)) % 4], None
    # ambiguous: a second target of the first EKO inside the window too
    extra = [math.sqrt(mu2 + 0.3 * sign * window), nf_m]
    return [math.sqrt(mu2 + 0.1 * u * window), nf_m], extra


# --------------------------------------------------------------------------- check


def _cmp(got, want, scale):
    dev = np.abs(np.asarray(got, dtype=float) - want)
    lim = TOL * scale + 1e-300
    ok = bool(np.all(np.isfinite(got)) and np.all(dev <= lim))
    return ok, float(np.max(dev / (scale + 1e-300)))


def check_case(case):
    from eko.io.struct import EKO
    from ekobox import utils

    res = CaseResult()
    xgrid, deg = case["xgrid"], case["deg"]
    n = len(xgrid)
    mode, how = case["mode"], case["how"]
    init2, extra = second_init(case)
    pts1 = [list(p) for p in case["pts1"]]
    err1 = list(case["err1"])
    if extra is not None:
        pts1.append(extra)
        err1.append(True)
    pts2 = [list(p) for p in case["pts2"]]
    rng = np.random.default_rng(case["seed"])
    t1 = {bs.ep_of(p): (bs.random_operator(rng, n), bs.random_error(rng, n) if e else None)
          for p, e in zip(pts1, err1)}
    t2 = {bs.ep_of(p): (bs.random_operator(rng, n), bs.random_error(rng, n) if e else None)
          for p, e in zip(pts2, case["err2"])}
    if len(t1) != len(pts1) or len(t2) != len(pts2):
        return CaseResult(discarded="duplicate evolution point after squaring")
    m_ep = bs.ep_of(case["pts1"][case["midx"]])
    new_eps = [ep for ep in t2 if ep not in t1]
    overlap_eps = [ep for ep in t2 if ep in t1]
    kwargs = {} if case["tol"] is None else dict(rtol=case["tol"][0], atol=case["tol"][1])
    expect_error = mode in ("outside", "nf", "ambiguous")

    res.classes = [
        f"match={mode}", f"how={how}", f"targets1={len(case['pts1'])}", f"targets2={len(case['pts2'])}", f"n={n}",
        f"tol={'default' if case['tol'] is None else 'explicit'}", f"open1={case['open1']}", f"open2={case['open2']}",
        f"overlap={len(overlap_eps)}", f"err-match={t1[m_ep][1] is not None}",
        f"err2={sum(1 for ep in new_eps if t2[ep][1] is not None)}/{len(new_eps)}",
    ]
    e1, de1 = t1[m_ep]
    commutes = True
    both_err = False
    for ep in new_eps:
        e2, de2 = t2[ep]
        a, b = bs.as_matrix(e2) @ bs.as_matrix(e1), bs.as_matrix(e1) @ bs.as_matrix(e2)
        if np.linalg.norm(a - b) > 1e-3 * np.linalg.norm(a):
            commutes = False
        if de1 is not None and de2 is not None:
            both_err = True
    res.nontrivial = bool(not expect_error and new_eps and not commutes and both_err)

    theory, op1 = ru.cards(bs.card_case(xgrid, deg, case["init1"], pts1))
    _, op2 = ru.cards(bs.card_case(xgrid, deg, init2, pts2))
    d = bs.fresh_dir("vf-c44-")
    ini = fin = None
    try:
        p1, p2, pres = d / "ini.tar", d / "fin.tar", d / "res.tar"
        ini = bs.build_eko(p1, theory, op1, t1)
        if case["open1"] == "edit":
            ini.close()
            ini = EKO.edit(p1)
        fin = bs.build_eko(p2, theory, op2, t2)
        if case["open2"] == "read":
            fin.close()
            fin = EKO.read(p2)

        def snapshot(eko):
            out = {}
            for ep in list(eko):
                o = eko[ep]
                out[(float(ep[0]), int(ep[1]))] = (np.array(o.operator), None if o.error is None else np.array(o.error))
                del eko[ep]
            return out

        results = {}
        for step in (["copy", "inplace"] if how == "both" else [how]):
            try:
                if step == "copy":
                    utils.ekos_product(ini, fin, path=pres, **kwargs)
                else:
                    utils.ekos_product(ini, fin, **kwargs)
                raised = None
            except ValueError as e:
                raised = e
            except Exception as e:  # noqa: BLE001
                res.fail(exc_bucket(f"{ID}/call/{step}/match={mode}", e), repr(e))
                return res
            if expect_error:
                if raised is None:
                    res.fail(f"{ID}/mismatch-accepted/{mode}",
                             f"{step}: second EKO starting at {bs.ep_of(init2)} accepted although the first EKO has "
                             f"targets {sorted(t1)} (rtol, atol = {case['tol'] or 'default'})")
                try:
                    now = snapshot(ini)
                except Exception as e:  # noqa: BLE001 - the archive left behind cannot be read
                    res.fail(exc_bucket(f"{ID}/read-result/{step}", e), repr(e))
                    return res
                if set(now) != set(t1):
                    res.fail(f"{ID}/refused-but-modified", f"{step}: first EKO now holds {sorted(now)}")
                if pres.exists() and raised is not None:
                    res.fail(f"{ID}/refused-but-written", f"{step}: {pres.name} written although the product was refused")
                continue
            if raised is not None:
                res.fail(f"{ID}/match-refused/{mode}",
                         f"{step}: second EKO starting at {bs.ep_of(init2)} refused ({raised}); first EKO has "
                         f"{sorted(t1)}, matched target {m_ep}, rtol, atol = {case['tol'] or 'default'}")
                return res
            if step == "copy":
                if not pres.exists():
                    res.fail(f"{ID}/copy/not-written", "no archive at the requested path")
                    return res
                try:
                    results["copy"] = bs.read_all(pres)
                    after = snapshot(ini)
                except Exception as e:  # noqa: BLE001 - the archive left behind cannot be read
                    res.fail(exc_bucket(f"{ID}/read-result/{step}", e), repr(e))
                    return res
                if set(after) != set(t1):
                    res.fail(f"{ID}/copy/modified-input", f"first EKO holds {sorted(after)} after a product with path=")
            else:
                try:
                    results["inplace"] = snapshot(ini)
                except Exception as e:  # noqa: BLE001 - the archive left behind cannot be read
                    res.fail(exc_bucket(f"{ID}/read-result/{step}", e), repr(e))
                    return res
        if expect_error:
            return res

        # ---------------- judge every result
        for step, got in results.items():
            want_keys = set(t1) | set(t2)
            if set(got) != want_keys:
                res.fail(f"{ID}/{step}/keys", f"points {sorted(got)} instead of {sorted(want_keys)}")
            for ep, (o, e) in t1.items():
                if ep not in got:
                    continue
                g_o, g_e = got[ep]
                same = np.array_equal(g_o, o) and ((g_e is None) == (e is None)) and (e is None or np.array_equal(g_e, e))
                if not same:
                    res.fail(f"{ID}/first-eko-changed" + ("/overlap" if ep in overlap_eps else ""),
                             f"{step}: operator of the first EKO at {ep} changed")
            for ep in new_eps:
                if ep not in got:
                    continue
                e2, de2 = t2[ep]
                g_o, g_e = got[ep]
                m2, m1 = bs.as_matrix(e2), bs.as_matrix(e1)
                scale = bs.as_tensor(np.abs(m2) @ np.abs(m1), n)
                scale_rev = bs.as_tensor(np.abs(m1) @ np.abs(m2), n)
                ok, dev = _cmp(g_o, bs.as_tensor(m2 @ m1, n), scale)
                if not ok:
                    rev_ok, _ = _cmp(g_o, bs.as_tensor(m1 @ m2, n), scale_rev)
                    if rev_ok:
                        res.fail(f"{ID}/order",
                                 f"{step}: operator at {ep} equals E1.E2 (first EKO applied after the second) instead "
                                 f"of E2.E1; deviation from E2.E1 {dev:.3e} of the scale")
                    else:
                        res.fail(f"{ID}/value/other", f"{step}: operator at {ep} deviates from E2.E1 by {dev:.3e} of the scale")
                want_err = de1 is not None and de2 is not None
                if (g_e is not None) != want_err:
                    res.fail(f"{ID}/error/presence",
                             f"{step}: error at {ep} is {'present' if g_e is not None else 'missing'}; first has "
                             f"error: {de1 is not None}, second has error: {de2 is not None}")
                    continue
                if not want_err:
                    continue
                d1, d2 = bs.as_matrix(de1), bs.as_matrix(de2)
                a1, a2 = np.abs(m1), np.abs(m2)
                cands = {
                    "ok": (a2 @ np.abs(d1) + np.abs(d2) @ a1),
                    "reversed": (a1 @ np.abs(d2) + np.abs(d1) @ a2),
                    "signed": (m2 @ d1 + d2 @ m1),
                    "reversed+signed": (m1 @ d2 + d1 @ m2),
                }
                sc = {"ok": cands["ok"], "signed": cands["ok"], "reversed": cands["reversed"],
                      "reversed+signed": cands["reversed"]}
                verdict, devs = None, {}
                for name, ref in cands.items():
                    okc, devs[name] = _cmp(g_e, bs.as_tensor(ref, n), bs.as_tensor(sc[name], n))
                    if okc and verdict is None:
                        verdict = name
                if verdict == "ok":
                    continue
                msg = (f"{step}: error at {ep} does not follow |E2||dE1| + |dE2||E1| (deviation {devs['ok']:.3e} of the "
                       f"scale); ")
                if verdict is None:
                    res.fail(f"{ID}/error/other", msg + f"no simple variant matches {devs}")
                    continue
                if "reversed" in verdict:
                    res.fail(f"{ID}/order", msg + "it is built in the order E1.E2")
                if "signed" in verdict:
                    res.fail(f"{ID}/error/signed", msg + "it is the signed sum E.dE' + dE.E' without absolute values")
        if "copy" in results and "inplace" in results:
            a, b = results["copy"], results["inplace"]
            if set(a) != set(b):
                res.fail(f"{ID}/copy-vs-inplace/keys", f"{sorted(a)} vs {sorted(b)}")
            else:
                for ep in a:
                    if not np.array_equal(a[ep][0], b[ep][0]) or (a[ep][1] is None) != (b[ep][1] is None) or (
                            a[ep][1] is not None and not np.array_equal(a[ep][1], b[ep][1])):
                        res.fail(f"{ID}/copy-vs-inplace/value", f"results differ at {ep}")
        return res
    finally:
        bs.safe_close(ini)
        bs.safe_close(fin)
        bs.remove_dir(d)

"""C10 kernels are the identity at equal couplings and compose where they are exact."""

import math

from hypothesis import strategies as st

from vf import strategies as vs
from vf.core import CaseResult, exc_bucket
from vf.refs import k1_matrices as km

ID = "C10"
LEVEL = "exploration"
TECHNIQUE = (
    "Hypothesis-generated gamma towers and coupling triples through the public dispatchers; oracle = the group law "
    "E(a2<-a1)E(a1<-a0) = E(a2<-a0), E(a<-a) = 1, and the measured convergence order of the iterated singlet"
)
RULE = (
    "kinds: 'id-ns' (non_singlet.dispatcher, all 8 methods, orders 1-4), 'id-s' (singlet.dispatcher, all 8 methods), "
    "'id-qed' (non_singlet_qed / singlet_qed 4x4 / valence_qed 2x2 dispatchers with constant as_list, 1-4 steps, "
    "mu2_to == mu2_from) at a1 == a0; 'comp-ns' (NS exact x3, expanded x3, ordered-truncated; orders 1-4; optional round "
    "trip a2 = a0), 'comp-s-lo' (LO singlet, gamma0 = V diag(l) V^-1 with |l1-l2| >= 0.5, cond(V) <= 10), 'comp-s-iter' "
    "(singlet iterate-exact, orders 2-4, composition defect D(n) at n = 32, 64 steps). nf in 3..6; complex gamma_k in "
    "the disc |gamma_k| <= 10^(k+1) (2x2: every entry); couplings log-uniform in [0.002,0.05]; coupling triples of a "
    "composition: 'generic' (3/10: pairwise |ln ratio| >= 0.05 by construction, any order, a1 may lie outside "
    "[a0,a2]), 'near01'/'near12'/'near02' (2/10 each: the named pair nearly coincident but different, a_j = a_i(1 +- "
    "delta), delta = 10^-(k+u), k uniform in 3..9, u in [0,1]), 'round-trip' (1/10, a2 == a0; not for the iterated singlet). "
    "Non-trivial = order >= 2 (identity and NS composition kinds) / three pairwise different couplings (singlet "
    "kinds); distinct by the full case."
)
ASSUMPTIONS = [
    "identity: |E - 1| <= 1e-12 (entrywise max for matrices): the closed forms vanish up to the rounding of z/z and of "
    "the truncated-series cancellation",
    "NS and LO-singlet composition: |E21 E10 - E20| <= 1e-10 * max(|E21||E10|, |E20|) (2-norms for matrices, times "
    "cond(V) of the constructed gamma0 for the LO singlet)",
    "iterated singlet: D(n) = ||E_n(a2<-a1)E_n(a1<-a0) - E_n(a2<-a0)|| / (||E21|| ||E10||); required D(64) <= D(32)/3 "
    "(midpoint rule: asymptotically 1/4) whenever D(64) > 1e-11, and D(32) <= 0.5*(Lmax/32)^2 * Lsum * M*(1+M) with "
    "M = max_a ||a gamma(a)/beta(a)||_2 on the path, L = |ln| lengths (constant 0.5 calibrated once on the unchanged "
    "tree: observed maximum 0.12 of the bound, observed D(32)/D(64) in [3.99, 4.01])",
    "iterate towers whose gamma(a) has a relative eigenvalue gap < 1e-3 somewhere on the path are discarded (the 2x2 "
    "closed-form exponential divides by the gap; outside the stated domain of C23)",
    "nearly coincident couplings use the same tolerances: a kernel over a step of relative size delta is 1 + O(delta) "
    "with rounding error eps*|gamma|/beta0 in the exponent, so the group law holds to ~1e-15 on the unchanged tree",
    "QED kernels: equal couplings imply equal scales, so the pure-QED factor is evaluated at mu2_to == mu2_from",
]
LEVEL_TEXT = (
    "Exploration: group-law identities need no reference value; they are evaluated on thousands of generated towers, "
    "coupling triples in every ordering, all methods and orders; random sampling, not a proof."
)

ALL_METHODS = [
    "ITERATE_EXACT",
    "ITERATE_EXPANDED",
    "PERTURBATIVE_EXACT",
    "PERTURBATIVE_EXPANDED",
    "TRUNCATED",
    "ORDERED_TRUNCATED",
    "DECOMPOSE_EXACT",
    "DECOMPOSE_EXPANDED",
]
COMPOSING_NS = [
    "ITERATE_EXACT",
    "DECOMPOSE_EXACT",
    "PERTURBATIVE_EXACT",
    "ITERATE_EXPANDED",
    "DECOMPOSE_EXPANDED",
    "PERTURBATIVE_EXPANDED",
    "ORDERED_TRUNCATED",
]
LO, HI, MINLOG = 0.002, 0.05, 0.05
TOL_ID = 1e-12
TOL_COMP = 1e-10
N_ITER = (32, 64)
ITER_BOUND_C = 0.5
ITER_FLOOR = 1e-11


def budget(tier):
    if tier == "quick":
        return dict(max_examples=1500, shards=8, wall_s=80, shrink_s=30)
    return dict(max_examples=20000, shards=16, wall_s=800, shrink_s=120)


# ----------------------------------------------------------------------------- generation


@st.composite
def _third(draw, a0, a1):
    """a2 in [LO,HI] with |ln(a2/a0)|, |ln(a2/a1)| >= MINLOG, by construction (maps u onto the allowed set)."""
    lo, hi = math.log(LO), math.log(HI)
    holes = sorted((max(lo, math.log(a) - MINLOG), min(hi, math.log(a) + MINLOG)) for a in (a0, a1))
    allowed = []
    cur = lo
    for h0, h1 in holes:
        if h0 > cur:
            allowed.append((cur, h0))
        cur = max(cur, h1)
    if hi > cur:
        allowed.append((cur, hi))
    total = sum(b - a for a, b in allowed)
    u = draw(vs.floats(0.0, 1.0)) * total
    for a, b in allowed:
        if u <= b - a:
            return math.exp(min(max(a + u, a), b))
        u -= b - a
    return math.exp(allowed[-1][1])


def _nearby(draw, a):
    """a (1 +- delta), delta = 10^-(k+u), k uniform in 3..9, u in [0,1]; reflected at the border of [LO, HI]."""
    delta = 10.0 ** (-draw(st.integers(3, 9)) - draw(vs.floats(0.0, 1.0)))
    b = a * (1 + delta) if draw(st.booleans()) else a * (1 - delta)
    if not LO <= b <= HI:
        b = a * a / b
    return b


def _triple(draw, allow_round_trip):
    """(a0, a1, a2): generic (pairwise |ln ratio| >= MINLOG), round trip a2 == a0, or two nearly coincident members."""
    a0, a1 = draw(vs.coupling_pair(LO, HI, MINLOG))
    shape = draw(st.sampled_from(["generic"] * 3 + ["near01", "near12", "near02"] * 2 + (["round-trip"] if allow_round_trip else [])))
    if shape == "round-trip":
        return [a0, a1, a0], shape
    if shape == "near01":
        a1 = _nearby(draw, a0)
    a2 = draw(_third(a0, a1))
    if shape == "near12":
        a2 = _nearby(draw, a1)
    elif shape == "near02":
        a2 = _nearby(draw, a0)
    return [a0, a1, a2], shape


def _tower_ns(draw, n):
    return [draw(vs.complex_disc(10.0 ** (k + 1))) for k in range(n)]


def _mat(draw, dim, rmax):
    return [[draw(vs.complex_disc(rmax)) for _ in range(dim)] for _ in range(dim)]


def _tower_s(draw, n, dim=2):
    return [_mat(draw, dim, 10.0 ** (k + 1)) for k in range(n)]


@st.composite
def _case(draw):
    kind = draw(
        st.sampled_from(
            ["id-ns"] * 2 + ["id-s"] + ["id-qed"] * 2 + ["comp-ns"] * 5 + ["comp-s-lo"] + ["comp-s-iter"] * 2
        )
    )
    nf = draw(st.integers(3, 6))
    case = {"kind": kind, "nf": nf}
    if kind == "id-ns":
        n = case["n"] = draw(st.integers(1, 4))
        case["method"] = draw(st.sampled_from(ALL_METHODS))
        case["gamma"] = _tower_ns(draw, n)
        case["a"] = draw(vs.log_floats(LO, HI))
    elif kind == "id-s":
        n = case["n"] = draw(st.integers(1, 4))
        case["method"] = draw(st.sampled_from(ALL_METHODS))
        case["gamma"] = _tower_s(draw, n)
        case["a"] = draw(vs.log_floats(LO, HI))
        case["iters"] = draw(st.integers(1, 20))
        case["max_order"] = draw(st.integers(max(2, n), 12))
    elif kind == "id-qed":
        n = case["n"] = draw(st.integers(1, 4))
        m = case["m"] = draw(st.integers(1, 2))
        case["sector"] = draw(st.sampled_from(["ns", "singlet", "valence"]))
        dim = {"ns": 1, "singlet": 4, "valence": 2}[case["sector"]]
        g = []
        for i in range(n + 1):
            row = []
            for j in range(m + 1):
                r = 0.0 if i == j == 0 else 10.0 ** (i + j)
                row.append(draw(vs.complex_disc(r)) if dim == 1 else _mat(draw, dim, r))
            g.append(row)
        case["gamma"] = g
        case["a"] = draw(vs.log_floats(LO, HI))
        case["aem"] = draw(vs.log_floats(1e-4, 5e-3))
        case["steps"] = draw(st.integers(1, 4))
        case["mu2"] = draw(vs.log_floats(1.0, 1e4))
    else:
        if kind == "comp-ns":
            n = case["n"] = draw(st.integers(1, 4))
            case["method"] = draw(st.sampled_from(COMPOSING_NS + ["ORDERED_TRUNCATED"] * 2))
            case["gamma"] = _tower_ns(draw, n)
            case["a"], case["shape"] = _triple(draw, True)
        elif kind == "comp-s-lo":
            case["n"] = 1
            case["method"] = draw(st.sampled_from(ALL_METHODS))
            case["mat"] = draw(km.spectral_case(2, kappa_max=10.0, norm_max=30.0, min_sep=0.5, max_cells=12))
            case["a"], case["shape"] = _triple(draw, True)
        else:
            n = case["n"] = draw(st.integers(2, 4))
            case["gamma"] = _tower_s(draw, n)
            case["a"], case["shape"] = _triple(draw, False)
    return case


def strategy(tier):
    return _case()


# ----------------------------------------------------------------------------- oracle helpers


def _cplx_tower(g):
    import numpy as np

    return np.array([vs.c(z) for z in g], dtype=np.complex128)


def _cplx_mats(g):
    import numpy as np

    return np.array([[[vs.c(z) for z in row] for row in mat] for mat in g], dtype=np.complex128)


def _max_dev_from_identity(e, dim):
    import numpy as np

    e = np.asarray(e, dtype=np.complex128)
    if dim == 1:
        return float(abs(complex(e) - 1.0)), bool(np.isfinite(e).all())
    return float(np.max(np.abs(e - np.eye(dim)))), bool(np.isfinite(e).all())


def check_case(case):
    import numpy as np

    from eko.kernels import EvoMethods
    from eko.kernels import non_singlet as ns
    from eko.kernels import non_singlet_qed as qns
    from eko.kernels import singlet as s
    from eko.kernels import singlet_qed as qs
    from eko.kernels import valence_qed as qv

    kind, nf, n = case["kind"], case["nf"], case["n"]
    res = CaseResult()
    res.classes = [kind, f"n={n}", f"nf={nf}"]

    # ------------------------------------------------------------------ identity at equal couplings
    if kind.startswith("id-"):
        a = float(case["a"])
        res.nontrivial = n >= 2
        try:
            if kind == "id-ns":
                res.classes.append(case["method"])
                e = ns.dispatcher((n, 0), EvoMethods[case["method"]], _cplx_tower(case["gamma"]), a, a, nf)
                dim, tag = 1, f"ns/{case['method']}"
            elif kind == "id-s":
                res.classes.append(case["method"])
                e = s.dispatcher(
                    (n, 0), EvoMethods[case["method"]], _cplx_mats(case["gamma"]), a, a, nf, case["iters"], (case["max_order"], 0)
                )
                dim, tag = 2, f"singlet/{case['method']}"
            else:
                m, steps, aem, sector = case["m"], case["steps"], float(case["aem"]), case["sector"]
                res.classes.append("qed-" + sector)
                as_list = np.full(steps + 1, a)
                a_half = np.array([[a, aem]] * steps)
                if sector == "ns":
                    g = np.array([[vs.c(z) for z in row] for row in case["gamma"]], dtype=np.complex128)
                    mu2 = float(case["mu2"])
                    e = qns.dispatcher((n, m), EvoMethods.ITERATE_EXACT, g, as_list, a_half[:, 1], False, nf, steps, mu2, mu2)
                    dim = 1
                else:
                    g = np.array(
                        [[[[vs.c(z) for z in r] for r in mat] for mat in row] for row in case["gamma"]], dtype=np.complex128
                    )
                    disp = qs.dispatcher if sector == "singlet" else qv.dispatcher
                    e = disp((n, m), EvoMethods.ITERATE_EXACT, g, as_list, a_half, nf, steps, (2, 0))
                    dim = 4 if sector == "singlet" else 2
                tag = f"qed-{sector}"
        except Exception as ex:  # noqa: BLE001
            return res.fail(exc_bucket(f"{ID}/call/{kind}", ex), f"{ex!r} for case {case}")
        if np.shape(e) != (() if dim == 1 else (dim, dim)):
            return res.fail(f"{ID}/identity/{tag}/shape", f"shape {np.shape(e)} instead of {dim}x{dim}")
        dev, finite = _max_dev_from_identity(e, dim)
        if not finite or dev > TOL_ID:
            res.fail(
                f"{ID}/identity/{tag}/n={n}",
                f"kernel at a1 == a0 == {a!r} (order {n}, nf {nf}) deviates from the identity by {dev:.3e}: {np.asarray(e).tolist()}",
            )
        return res

    a0, a1, a2 = (float(x) for x in case["a"])
    round_trip = a2 == a0
    res.classes.append("round-trip" if round_trip else ("a1-between" if (a0 < a1 < a2 or a0 > a1 > a2) else "a1-outside"))
    res.classes.append("triple:" + case.get("shape", "generic"))
    if case.get("shape", "").startswith("near"):
        i, j = int(case["shape"][4]), int(case["shape"][5])
        rel = abs(case["a"][j] - case["a"][i]) / case["a"][i]
        res.classes.append(f"near-step:1e{math.floor(math.log10(rel))}" if rel > 0 else "near-step:0")

    # ------------------------------------------------------------------ NS composition
    if kind == "comp-ns":
        res.nontrivial = n >= 2
        res.classes.append(case["method"])
        g = _cplx_tower(case["gamma"])
        meth = EvoMethods[case["method"]]
        try:
            e10 = complex(ns.dispatcher((n, 0), meth, g, a1, a0, nf))
            e21 = complex(ns.dispatcher((n, 0), meth, g, a2, a1, nf))
            e20 = complex(ns.dispatcher((n, 0), meth, g, a2, a0, nf))
        except Exception as ex:  # noqa: BLE001
            return res.fail(exc_bucket(f"{ID}/call/comp-ns", ex), f"{ex!r} for case {case}")
        scale = max(abs(e21) * abs(e10), abs(e20))
        d = abs(e21 * e10 - e20)
        if not math.isfinite(d) or d > TOL_COMP * scale:
            res.fail(
                f"{ID}/compose/ns/{case['method']}/n={n}",
                f"E({a2!r}<-{a1!r}) E({a1!r}<-{a0!r}) = {e21 * e10!r} but E({a2!r}<-{a0!r}) = {e20!r} "
                f"(|diff| {d:.3e}, scale {scale:.3e}; order {n}, nf {nf}, gamma {g.tolist()})",
            )
        return res

    # ------------------------------------------------------------------ LO singlet composition
    if kind == "comp-s-lo":
        res.nontrivial = True
        res.classes.append(case["method"])
        m, _v, _lam, kappa = km.materialise(case["mat"])
        g = np.array([m])
        meth = EvoMethods[case["method"]]
        try:
            e10 = np.asarray(s.dispatcher((1, 0), meth, g, a1, a0, nf, 3, (3, 0)))
            e21 = np.asarray(s.dispatcher((1, 0), meth, g, a2, a1, nf, 3, (3, 0)))
            e20 = np.asarray(s.dispatcher((1, 0), meth, g, a2, a0, nf, 3, (3, 0)))
        except Exception as ex:  # noqa: BLE001
            return res.fail(exc_bucket(f"{ID}/call/comp-s-lo", ex), f"{ex!r} for case {case}")
        nrm = lambda x: float(np.linalg.norm(x, 2))  # noqa: E731
        scale = kappa * max(nrm(e21) * nrm(e10), nrm(e20))
        d = nrm(e21 @ e10 - e20)
        if not math.isfinite(d) or d > TOL_COMP * scale:
            res.fail(
                f"{ID}/compose/singlet-lo",
                f"LO singlet: ||E21 E10 - E20|| = {d:.3e} > {TOL_COMP * scale:.3e} for a = {[a0, a1, a2]}, nf {nf}, "
                f"gamma0 = {m.tolist()}",
            )
        return res

    # ------------------------------------------------------------------ iterated singlet: composition up to discretisation
    res.nontrivial = True
    g = _cplx_mats(case["gamma"])
    from vf.refs import k1_kernel_ref as kr

    betas = [float(b) for b in kr.beta_list(nf, n)]

    def a_gamma_over_beta(a):
        return sum(g[k] * a ** (k + 1) for k in range(n)) / sum(betas[k] * a ** (k + 1) for k in range(n))

    # domain guard + size of the generator of the flow on the path
    amin, amax = min(a0, a1, a2), max(a0, a1, a2)
    mnorm, gap = 0.0, math.inf
    for t in np.linspace(math.log(amin), math.log(amax), 41):
        x = a_gamma_over_beta(math.exp(t))
        ev = np.linalg.eigvals(x)
        nx = float(np.linalg.norm(x, 2))
        mnorm = max(mnorm, nx)
        gap = min(gap, abs(ev[0] - ev[1]) / max(nx, 1e-300))
    if gap < 1e-3:
        return CaseResult(discarded="iterate: near-degenerate gamma(a) on the path")
    lens = [abs(math.log(a1 / a0)), abs(math.log(a2 / a1)), abs(math.log(a2 / a0))]
    nrm = lambda x: float(np.linalg.norm(x, 2))  # noqa: E731
    defects = []
    try:
        for it in N_ITER:
            e10 = np.asarray(s.dispatcher((n, 0), EvoMethods.ITERATE_EXACT, g, a1, a0, nf, it, (2, 0)))
            e21 = np.asarray(s.dispatcher((n, 0), EvoMethods.ITERATE_EXACT, g, a2, a1, nf, it, (2, 0)))
            e20 = np.asarray(s.dispatcher((n, 0), EvoMethods.ITERATE_EXACT, g, a2, a0, nf, it, (2, 0)))
            defects.append(nrm(e21 @ e10 - e20) / (nrm(e21) * nrm(e10)))
    except Exception as ex:  # noqa: BLE001
        return res.fail(exc_bucket(f"{ID}/call/comp-s-iter", ex), f"{ex!r} for case {case}")
    d1, d2 = defects
    info = f"a = {[a0, a1, a2]}, order {n}, nf {nf}, M = {mnorm:.3g}, D({N_ITER[0]}) = {d1:.3e}, D({N_ITER[1]}) = {d2:.3e}, gamma = {g.tolist()}"
    if not (math.isfinite(d1) and math.isfinite(d2)):
        return res.fail(f"{ID}/compose/iterate/nonfinite/n={n}", info)
    bound = ITER_BOUND_C * (max(lens) / N_ITER[0]) ** 2 * sum(lens[:2]) * mnorm * (1 + mnorm)
    res.classes.append("iter-above-floor" if d2 > ITER_FLOOR else "iter-at-floor")
    if d1 > bound + ITER_FLOOR:
        res.fail(f"{ID}/compose/iterate/bound/n={n}", f"composition defect above the discretisation bound {bound:.3e}: {info}")
    if d2 > ITER_FLOOR and d2 > d1 / 3.0:
        res.fail(f"{ID}/compose/iterate/rate/n={n}", f"defect does not shrink by >= 3 when the iterations double: {info}")
    return res

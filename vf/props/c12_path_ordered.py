"""C12 iterated / perturbative singlet kernels (QCD and QCDxQED) converge to the path-ordered solution."""

import math

from hypothesis import strategies as st

from vf.core import CaseResult, exc_bucket

ID = "C12"
LEVEL = "exploration"
TECHNIQUE = (
    "independent reference: DOP853 (rtol 1e-13) on the defining complex matrix ODE dE/da = gamma(a)/beta(a) E with "
    "literature beta coefficients; convergence order of the iterated kernels measured by doubling the iterations, "
    "truncation order of the perturbative kernels measured by a scaling exponent"
)
RULE = (
    "Hypothesis draws one of five kinds. short: order 2..4, a0 in [0.002,0.05], a1 = a0(1 +- eps) with eps "
    "log-uniform in [1e-10, 1e-3], generic 2x2 tower, iterate-exact (1..40 iterations) or perturbative-exact (1..20 "
    "iterations, max_order 12): ||E - E_ref|| / ||E_ref - 1|| <= 0.05 with E_ref - 1 from the ODE for D = E - 1 "
    "(a vanishingly short but non-zero distance must still be evolved). iterate: order n 2..4, nf 3..6, couplings in [0.002,0.05] either order, "
    "generic complex non-commuting 2x2 tower |gamma_k| <~ 10^k, iterations N0 in 10..50; errors of "
    "singlet.dispatcher(iterate-exact) against the ODE solution at N0, 2N0, 4N0, 8N0 (<= 400) must shrink with "
    "observed order >= 1.7 per doubling and stay below 2 x the leading mid-point-rule error estimate (sum over steps "
    "of da^3 (||F''||/24 + ||F'|| ||F||/6), F = gamma/beta). "
    "perturbative: same towers, iterations 1..20, ev_op_max_order m in n..7: the error of perturbative-exact must "
    "vanish like a^m (scaling exponent >= m-0.25), must not be larger at m+3 (couplings <= 0.035) and must be <= "
    "1e-7 max(1,a_max/0.03)^12 at (m=12, 20 iterations). qed-singlet (4x4) / qed-valence (2x2): orders (1..4, 1..2), "
    "random complex gamma[i][j] of size 10^(i+j-1) from a drawn seed, a_em in [1e-4, 3e-3] fixed or running by up "
    "to 30 % along the path, coupling lists built as Operator.compute_aem_list does (geometric mu^2 steps, "
    "couplings at the arithmetic mu^2 mid-point); errors of the dispatchers against the ODE solution with the "
    "continuous a_em(a_s) at N0, 2N0, 4N0 (step in ln mu^2 <= 0.5) must shrink with order >= 1.7 and stay below "
    "2 x the same estimate (plus the first-order term for the off-centre evaluation point). Non-trivial = ||[g0,g1]|| > 0.1 ||g0|| ||g1|| (QED: of the two lowest "
    "non-zero coefficients) and |ln(a1/a0)| >= 0.3 (short: a1 != a0 instead); distinct by the full case."
)
ASSUMPTIONS = [
    "reference ODE as in DGLAP.rst (gamma = -M[P], beta_k > 0; sign fixed by the LO closed form, reproduced to 4e-16); "
    "QED: gamma = sum gamma[i][j] a_s^i a_em^j, beta = sum_i beta_{i-1} a_s^{i+1} + beta^(2,1) a_s^2 a_em, beta "
    "coefficients from the literature tables of c20_coefficients; reference noise 1e-13 (2x2) / 1e-12 (4x4)",
    "QED reference uses the continuous a_em(a_s) that generated the supplied lists (limit of 'frozen per step' for "
    "infinitely many steps; both differ from the kernel by O(1/N^2)); this replaces the piecewise-frozen reference of "
    "DESIGN, which would need one ODE solve per step",
    "midpoint rule is second order: observed order >= 1.7 demanded once the step is in the asymptotic regime "
    "(QCD: h = L/N0 <= 0.32 by construction; QED: N0 raised so that the step in ln mu^2 is <= 0.5); measured "
    ">= 1.98 on the unchanged tree",
    "absolute bounds: 2 x the leading local-error sum of the exponential mid-point rule, computed from the reference "
    "generator by central differences (measured error / estimate 0.30 .. 0.69 on corner-biased inputs of the unchanged "
    "tree, QCD and QED); DESIGN's flat 1e-6 at 400 iterations is exceeded by correct code for L = ln 25 (measured "
    "2.9e-6), hence a bound that follows the step size",
    "perturbative: the U series is truncated at a^(m-1), so the error is O(a^m) (documented meaning of "
    "ev_op_max_order); the flat 1e-8 of DESIGN at (12, 20) only holds for a_max <= 0.03 (measured 1.4e-5 at 0.05), "
    "hence the a^12 scaling; single-step monotonicity in m is violated by correct code (up to x2.7 at a = 0.05)",
    "short distances: reference D = E - 1 from dD/ds = M (1 + D) in s = ln(a/a0) up to log1p((a1-a0)/a0), DOP853 "
    "rtol 1e-13 / atol 1e-30, i.e. accurate relative to D; tolerance 0.05 relative to ||D|| = 20 x the largest value "
    "measured on the unchanged tree over eps in [1e-10, 1e-3] (2.3e-3, perturbative-exact truncation at a = 0.05; "
    "3e-4 iterate-exact, rounding of an O(eps) difference); returning the identity gives 1",
    "scaling exponents use the decision rule of C08 (vf/refs/k2_scaling.py; noise floor 1e-13, slack 0.25, trend "
    "confirmation)",
    "towers with relative eigenvalue gap of gamma_0 < 1e-2 are outside the domain of the closed 2x2 exponential "
    "and discarded (counted)",
]
LEVEL_TEXT = (
    "Exploration by generated inputs against an independent adaptive ODE reference: convergence orders and truncation "
    "orders are measured, not assumed. Finite sample of towers, couplings and step counts."
)

# small integers are favoured by Hypothesis: the kind listed first is drawn most often
KINDS = ["perturbative", "short", "iterate", "qed-singlet", "qed-valence", "perturbative", "short"]
TOL_SHORT = 0.05
SAFETY = 2.0  # measured error / leading-order estimate: 0.30 .. 0.69 (QCD and QED) on the unchanged tree
ORDER_MIN = 1.7


def budget(tier):
    if tier == "quick":
        return dict(max_examples=960, shards=16, wall_s=70, shrink_s=30)
    return dict(max_examples=12000, shards=16, wall_s=700, shrink_s=120)


def strategy(tier):
    from vf import strategies as S
    from vf.refs import k2_gen as G

    @st.composite
    def build(draw):
        kind = KINDS[draw(st.integers(0, 10**6)) % len(KINDS)]
        if kind == "short":
            # very short but non-zero evolution distance: a1 = a0 (1 +- eps), eps log-uniform over 1e-10 .. 1e-3
            n = draw(st.integers(2, 4))
            a0 = draw(S.log_floats(0.002, 0.05))
            eps = draw(S.log_floats(1e-10, 1e-3))
            a1 = a0 * (1.0 + eps) if draw(st.booleans()) else a0 * (1.0 - eps)
            case = {"kind": kind, "nf": draw(st.integers(3, 6)), "a": [a0, a1], "eps": eps, "order": n}
            case["tower"] = draw(G.generic_tower(n))
            case["method"] = draw(st.sampled_from(["iterate-exact", "perturbative-exact"]))
            case["its"] = draw(st.integers(1, 40 if case["method"] == "iterate-exact" else 20))
            return case
        case = {"kind": kind, "nf": draw(st.integers(3, 6)), "a": draw(G.couplings(0.3))}
        if kind in ("iterate", "perturbative"):
            n = draw(st.integers(2, 4))
            case["order"] = n
            case["tower"] = draw(G.generic_tower(n))
            if kind == "iterate":
                case["its0"] = draw(st.integers(10, 50))
            else:
                case["its"] = draw(st.integers(1, 20))
                case["max_order"] = draw(st.integers(n, 7))
        else:
            case["order"] = [draw(st.integers(1, 4)), draw(st.integers(1, 2))]
            case["dim"] = 4 if kind == "qed-singlet" else 2
            case["aem0"] = draw(S.log_floats(1e-4, 3e-3))
            case["kappa"] = draw(st.one_of(st.just(0.0), S.floats(-0.3, 0.3)))
            case["seed"] = draw(st.integers(0, 2**31 - 1))
            case["its0"] = draw(st.integers(10, 50))
        return case

    return build()


class _RepoError(Exception):
    pass


def _order_checks(res, errs, counts, tail, floor, what):
    """errs[i] at counts[i] (doubling): observed order and monotone decrease."""
    for i in range(len(errs) - 1):
        e1, e2 = errs[i], errs[i + 1]
        if not (math.isfinite(e1) and math.isfinite(e2)):
            res.fail(f"{ID}/non-finite/{tail}", f"{what}: non-finite error {errs}")
            return
        if e2 < 100 * floor:
            continue
        p = math.log(e1 / e2) / math.log(counts[i + 1] / counts[i]) if e1 > 0 else -math.inf
        if p < ORDER_MIN:
            res.fail(
                f"{ID}/convergence-order/{tail}",
                f"{what}: error {e1:.3e} at {counts[i]} iterations -> {e2:.3e} at {counts[i + 1]}: observed order "
                f"{p:.2f} < {ORDER_MIN} (all: {', '.join(f'{c}:{e:.3e}' for c, e in zip(counts, errs))})",
            )
            return


def _check_qcd(case, res):
    import numpy as np

    from eko.kernels import EvoMethods
    from eko.kernels import singlet as s
    from vf.refs import k2_gen as G
    from vf.refs import k2_ode as R
    from vf.refs import k2_scaling as SC

    n, nf = case["order"], case["nf"]
    a0, a1 = case["a"]
    g = G.build(case["tower"])
    order = (n, 0)
    L = abs(math.log(a1 / a0))
    amax = max(a0, a1)
    if G.eig_gap(g[0]) < 1e-2:
        return CaseResult(discarded="gamma_0 with (nearly) degenerate eigenvalues")
    res.nontrivial = R.commutator_size(g[0], g[1]) > 0.1 and L >= 0.3 - 1e-9 and G.eig_gap(g[0]) >= 0.05

    def kernel(method, its, mo, lam=1.0):
        try:
            return np.asarray(s.dispatcher(order, method, g, lam * a1, lam * a0, nf, its, (mo, 0)))
        except Exception as e:  # noqa: BLE001 - exceptions of the code under test are verdicts
            raise _RepoError(exc_bucket(f"{ID}/call/{case['kind']}/order={n}", e), repr(e)) from e

    ref = R.singlet_ode(g, a1, a0, nf)
    nref = R.fro(ref)

    def err(E):
        return R.fro(E - ref) / nref

    if case["kind"] == "iterate":
        tail = f"iterate-exact/order={n}"
        counts = [c for c in (case["its0"] * f for f in (1, 2, 4, 8)) if c <= 400]
        errs = [err(kernel(EvoMethods.ITERATE_EXACT, c, 10)) for c in counts]
        _order_checks(res, errs, counts, tail, 1e-13, f"singlet iterate-exact order {n} nf={nf} a0={a0} a1={a1}")
        est = R.midpoint_error_estimate(R.qcd_generator(list(g), nf), np.geomspace(a0, a1, counts[-1] + 1))
        bound = SAFETY * est
        if not errs[-1] <= bound + 1e-12:
            res.fail(
                f"{ID}/iterate-bound/order={n}",
                f"singlet iterate-exact order {n} (nf={nf}, a0={a0}, a1={a1}): error {errs[-1]:.3e} at "
                f"{counts[-1]} iterations exceeds the midpoint-rule bound {bound:.3e}",
            )
        return res

    # perturbative-exact
    its, mo = case["its"], case["max_order"]
    tail = f"perturbative-exact/order={n}"
    where = f"order {n}, nf={nf}, a0={a0}, a1={a1}, its={its}"

    def diff(lam):
        r = R.singlet_ode(g, lam * a1, lam * a0, nf)
        return R.fro(kernel(EvoMethods.PERTURBATIVE_EXACT, its, mo, lam) - r) / R.fro(r)

    v = SC.exponent_verdict(diff, mo, 1e-13)
    res.classes.append("rate=" + v["status"])
    if v["status"] in ("low", "nan"):
        res.fail(
            f"{ID}/perturbative-rate/order={n}",
            f"perturbative-exact with max_order {mo} ({where}): error does not vanish like a^{mo}: {SC.fmt(v)}",
        )
    if v["status"] in ("trivial", "undecided"):
        res.nontrivial = False
    e_m = v["D"][0]
    if amax <= 0.035:
        e3 = err(kernel(EvoMethods.PERTURBATIVE_EXACT, its, mo + 3))
        if e3 > 1e-11 and e3 > e_m:
            res.fail(
                f"{ID}/perturbative-monotone/order={n}",
                f"perturbative-exact ({where}): error {e_m:.3e} at max_order {mo} grows to {e3:.3e} at {mo + 3}",
            )
    e12 = err(kernel(EvoMethods.PERTURBATIVE_EXACT, 20, 12))
    bound = 1e-7 * max(1.0, amax / 0.03) ** 12
    if not e12 <= bound:
        res.fail(
            f"{ID}/perturbative-limit/order={n}",
            f"perturbative-exact at (max_order 12, 20 iterations) is {e12:.3e} from the path-ordered solution "
            f"(bound {bound:.3e}; {where})",
        )
    return res


def _check_qed(case, res):
    import numpy as np

    from eko.kernels import EvoMethods
    from eko.kernels import singlet_qed, valence_qed
    from vf.refs import k2_ode as R

    nf = case["nf"]
    a0, a1 = case["a"]
    o_s, o_em = case["order"]
    dim = case["dim"]
    Q = R.qed_setup(case)
    gamma = Q["gamma"]
    T = Q["T"]
    L = abs(math.log(a1 / a0))
    tail = f"{case['kind']}/qed-order={o_em}"  # coarse on purpose: one kernel serves all QCD orders
    res.classes.append("aem-running" if case["kappa"] != 0 else "aem-fixed")
    res.nontrivial = R.commutator_size(gamma[1, 0], gamma[0, 1]) > 0.1 and L >= 0.3 - 1e-9
    disp = singlet_qed.dispatcher if dim == 4 else valence_qed.dispatcher

    ref = R.qed_ode(gamma, a1, a0, Q["aem_of_a"], nf)
    nref = R.fro(ref)
    # asymptotic regime of the mid-point rule: step in ln mu^2 at most 0.5
    n0 = max(int(case["its0"]), math.ceil(abs(T) / 0.5))
    counts = [n0, 2 * n0, 4 * n0]
    errs = []
    for c in counts:
        as_list, a_half = Q["steps"](c)
        try:
            E = np.asarray(disp((o_s, o_em), EvoMethods.ITERATE_EXACT, gamma, as_list, a_half, nf, c, (10, 0)))
        except Exception as e:  # noqa: BLE001 - exceptions of the code under test are verdicts
            return res.fail(exc_bucket(f"{ID}/call/{tail}", e), repr(e))
        if E.shape != (dim, dim):
            return res.fail(f"{ID}/shape/{tail}", f"kernel has shape {E.shape}, expected {(dim, dim)}")
        errs.append(R.fro(E - ref) / nref)
    what = (
        f"{case['kind']} order ({o_s},{o_em}) nf={nf} a0={a0} a1={a1} aem0={case['aem0']} kappa={case['kappa']} "
        f"seed={case['seed']}"
    )
    _order_checks(res, errs, counts, tail, 1e-12, what)
    as_list, a_half = Q["steps"](counts[-1])
    est = R.midpoint_error_estimate(R.qed_generator(gamma, Q["aem_of_a"], nf), as_list, a_half[:, 0])
    bound = SAFETY * est
    if not errs[-1] <= bound + 1e-11:
        res.fail(
            f"{ID}/iterate-bound/{tail}",
            f"{what}: error {errs[-1]:.3e} at {counts[-1]} iterations exceeds the midpoint-rule bound {bound:.3e}",
        )
    return res


def _check_short(case, res):
    """Short distances: the error is measured relative to the evolution itself, ||E - 1||."""
    import numpy as np

    from eko.kernels import EvoMethods
    from eko.kernels import singlet as s
    from vf.refs import k2_gen as G
    from vf.refs import k2_ode as R

    n, nf, mname, its = case["order"], case["nf"], case["method"], case["its"]
    a0, a1 = case["a"]
    g = G.build(case["tower"])
    if G.eig_gap(g[0]) < 1e-2:
        return CaseResult(discarded="gamma_0 with (nearly) degenerate eigenvalues")
    res.nontrivial = a1 != a0 and R.commutator_size(g[0], g[1]) > 0.1
    res.classes.append(f"short/{mname}")
    res.classes.append(f"short/eps=1e{math.floor(math.log10(case['eps']))}")
    method = EvoMethods.ITERATE_EXACT if mname == "iterate-exact" else EvoMethods.PERTURBATIVE_EXACT
    try:
        E = np.asarray(s.dispatcher((n, 0), method, g, a1, a0, nf, its, (12, 0)))
    except Exception as e:  # noqa: BLE001 - exceptions of the code under test are verdicts
        return res.fail(exc_bucket(f"{ID}/call/short/{mname}/order={n}", e), repr(e))
    D = R.singlet_ode_minus_one(g, a1, a0, nf)
    nd = R.fro(D)
    err = R.fro(E - np.eye(2) - D) / nd
    if not err <= TOL_SHORT:
        res.fail(
            f"{ID}/short-distance/{mname}",
            f"singlet {mname} order {n} nf={nf} its={its} a0={a0} a1={a1} (eps={case['eps']:.3e}): "
            f"||E - E_ref|| / ||E_ref - 1|| = {err:.3e} > {TOL_SHORT} (||E_ref - 1|| = {nd:.3e}, ||E - 1|| = "
            f"{R.fro(E - np.eye(2)):.3e})",
        )
    return res


def check_case(case):
    kind = case["kind"]
    order = case["order"]
    res = CaseResult(classes=[f"{kind}/order={order if isinstance(order, int) else tuple(order)}"])
    try:
        if kind == "short":
            return _check_short(case, res)
        if kind in ("iterate", "perturbative"):
            return _check_qcd(case, res)
        return _check_qed(case, res)
    except _RepoError as e:
        return res.fail(e.args[0], e.args[1])

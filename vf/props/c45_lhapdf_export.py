"""C45 LHAPDF export of evolved PDFs is self-consistent (ekobox.evol_pdf / info_file / genpdf.export / genpdf.load)."""

import math
import sys

import numpy as np

from vf import runner_util as ru
from vf.core import CaseResult, exc_bucket
from vf.refs import b_synth as bs

ID = "C45"
LEVEL = "exploration"
ENGINE = "B"
TECHNIQUE = (
    "Hypothesis-generated synthetic EKOs (public create/build API) exported with evolve_pdfs(path=...); the written "
    ".dat/.info files are read by a harness-owned parser and compared with an explicit-loop contraction, the "
    "generated grids and the solver's own Couplings object; dump_blocks -> load_blocks_from_file round trip through a "
    "stub lhapdf module"
)
RULE = (
    "kind=evolve: synthetic EKO with dense random operators on a jittered log grid of 3-6 points from x_min in "
    "[1e-9, 0.25] (degree 1-3), an "
    "unsorted evolution grid of 1-3 nf blocks with 1-3 scales each (per-nf ranges disjoint and ascending, sometimes "
    "sharing the boundary scale, 6% deliberately overlapping -> ValueError), POLE or MSBAR masses (MSbar masses "
    "given at their own or at another scale), QCD order 1-4, exact/expanded coupling, matching ratios 1 or drawn, 8% "
    "exponentiated scale variation with xif != 1, 1-3 members (table PDFs with missing flavours), target grid "
    "absent / list / numpy array / XGrid: 2-6 points mixing nodes and interior points, the operator grid itself, or "
    "the operator grid with nodes moved by < 8e-6 relative or < 1e-8 absolute (same length, np.allclose to it but "
    "different), given ascending, descending or in arbitrary order (written in the order given; an XGrid sorts), optional "
    "info_update, optional install into a stub LHAPDF directory. Oracle: member files parsed by the harness: per nf "
    "block x-grid, Q-grid, pids and every value = x . (R .) sum_{b,k} op[a,j,b,k] xf_b(x_k)/x_k to the printed "
    "precision; info: XMin/XMax = smallest/largest written x node (1e-12), QMin/QMax = extreme written Q, Flavors = written "
    "pids, NumFlavors = largest nf, NumMembers = number of member files, AlphaS_Qs = written Q's, AlphaS_Vals = "
    "4 pi a_s of eko.runner.commons.couplings(theory, operator) at those scales and nf; the repository's own "
    "reader returns the same blocks. kind=roundtrip: random blocks (1-3 blocks, 1-5 x, 1-4 Q, 1-14 pids, values "
    "spanning 1e-30..1e30 with zeros and signs, custom PdfType head) through dump_blocks and "
    "load_blocks_from_file. Non-trivial = accepted export with >= 2 nf blocks or a target grid or MSBAR (round "
    "trip: >= 2 blocks); distinct by case."
)
ASSUMPTIONS = [
    "printed precision: values %.8e -> |dv| <= 5.1e-9 |v| (+ 1e-10 x sum|op||f| rounding of the contraction), x and Q "
    "nodes %.6e -> 5.1e-7 relative, squared scales re-read from Q -> 1.1e-6 relative",
    "info ranges are compared with the generated grid values to 1e-12 relative (exact up to sqrt(mu^2) vs mu); the "
    "alpha_s values to 1e-10 relative against the Couplings object built by eko.runner.commons.couplings - the "
    "object the evolution uses (MSbar masses converted to m(m), thresholds times xif^2 for exponentiated scale "
    "variation) - evaluated as a_s(mu^2, nf_to=nf)",
    "target grids lie inside [x_min, 1] with nodes separated by > 0.1% in any order (evolve_pdfs writes an explicit "
    "grid in the order given and interpolates at exactly the requested nodes, also when they are within np.allclose "
    "of the operator grid); list, numpy array and XGrid are all accepted input types",
    "interpolated values: the tolerance scale also contains 64 eps x the monomial-term size of the basis polynomials "
    "(as in C43), needed for targets next to nodes on grids reaching 1e-9",
    "MSbar inputs are constructed consistent (charm, bottom given above their mass, top below, alpha_s(91.2 GeV, "
    "nf=5)); a configuration refused by eko.io.runcards.masses is discarded and counted",
    "the stub lhapdf module only provides paths(), exactly as tests/conftest.py::fake_lhapdf",
]
LEVEL_TEXT = (
    "Generated-input exploration of the export path with an independent file parser and contraction oracle; it "
    "samples grids, schemes, members and target grids, it does not exhaust them."
)

VAL_REL = 5.1e-9
AMP_W = 64 * 2.220446049250313e-16 / 1e-10  # monomial-form rounding of the interpolation polynomials (see C43)
NODE_REL = 5.1e-7


def budget(tier):
    if tier == "quick":
        return dict(max_examples=160, shards=8, wall_s=80, shrink_s=40)
    return dict(max_examples=2400, shards=16, wall_s=800, shrink_s=200)


# --------------------------------------------------------------------------- generator


def strategy(tier):
    from hypothesis import strategies as st

    @st.composite
    def evolve(draw):
        n = draw(st.integers(3, 6))
        xgrid = bs.make_xgrid(n, 10 ** draw(st.floats(-9, -0.6)), [draw(st.floats(0.6, 1.6)) for _ in range(n - 1)])
        deg = draw(st.integers(1, min(3, n - 1)))
        nblocks = draw(st.sampled_from([1, 2, 2, 3]))
        nf0 = draw(st.integers(3, 7 - nblocks))
        nfs = [nf0 + i for i in range(nblocks)]
        if nblocks == 2 and nf0 <= 4 and draw(st.booleans()):
            nfs[1] += 1  # a gap in nf
        blocks, mu = [], draw(st.floats(1.6, 4.0))
        round_scales = draw(st.booleans())
        for nf in nfs:
            mus = []
            for i in range(draw(st.integers(1, 3))):
                if blocks and i == 0 and draw(st.sampled_from([False, False, False, True])):
                    pass  # shared boundary scale with the previous block
                else:
                    mu *= draw(st.floats(1.15, 3.0))
                mu = float(round(mu, 1 if round_scales else 7))
                mus.append(mu)
            blocks.append([nf, mus])
        bad_scales = nblocks >= 2 and draw(st.sampled_from([False] * 15 + [True]))
        if bad_scales:
            blocks[0][1], blocks[1][1] = blocks[1][1], blocks[0][1]
            if blocks[0][1][-1] <= blocks[1][1][0]:  # only a shared single scale was swapped: force an overlap
                blocks[0][1][-1] = float(round(blocks[1][1][0] * 1.5, 7))
                blocks[0][1].sort()
        mugrid = [[m, nf] for nf, mus in blocks for m in mus]
        mugrid = list(draw(st.permutations(mugrid)))
        scheme = draw(st.sampled_from(["POLE", "POLE", "MSBAR"]))
        unit = draw(st.booleans())
        if scheme == "MSBAR":
            ratios = [1.0] * 3 if unit else [draw(st.floats(0.9, 1.6)) for _ in range(3)]
            msbar = [[draw(st.floats(0, 1)) for _ in range(3)],
                     [draw(st.sampled_from(["equal", "running", "running"])) for _ in range(3)]]
        else:
            ratios = [1.0] * 3 if unit else [draw(st.floats(0.7, 2.0)) for _ in range(3)]
            msbar = None
        sv = scheme == "POLE" and draw(st.sampled_from([False] * 7 + [True]))
        target, ttype, tkind, torder = None, "none", "none", "none"
        if draw(st.sampled_from([False, False, False, True, True])):
            ttype = draw(st.sampled_from(["list", "list", "array", "xgrid"]))
            tkind = draw(st.sampled_from(["generic", "generic", "perturbed", "perturbed", "grid"]))
            if tkind == "grid":
                target = list(xgrid)
            elif tkind == "perturbed":
                # the operator grid with nodes moved by < 8e-6 relative or < 1e-8 absolute (the lowest node only up,
                # the highest only down, order and separation kept): same length, "almost" the same grid
                target = []
                for i, x in enumerate(xgrid):
                    how = draw(st.sampled_from(["keep", "rel", "abs"]))
                    u = draw(st.floats(0.1, 1.0))
                    sign = 1.0 if (draw(st.booleans()) or i == 0) and i != n - 1 else -1.0
                    y = x * (1.0 + sign * u * 8e-6) if how == "rel" else (x + sign * u * 0.9e-8 if how == "abs" else x)
                    lo = target[-1] * 1.001 if target else 0.0
                    hi = (xgrid[i + 1] - 1e-8) / 1.001 if i + 1 < n else 1.0
                    target.append(float(y) if lo < y <= hi else float(x))
                if target == list(xgrid):
                    target[0] = float(xgrid[0] * (1.0 + 4e-6))
            else:
                pts = []
                for _ in range(draw(st.integers(2, 6))):
                    if draw(st.booleans()):
                        pts.append(xgrid[draw(st.integers(0, n - 1))])
                    else:
                        pts.append(float(math.exp(math.log(xgrid[0]) * (1.0 - draw(st.floats(0.0, 1.0))))))
                pts = sorted(set(pts))
                target = [pts[0]]
                for x in pts[1:]:
                    if x > target[-1] * 1.001:
                        target.append(x)
                if len(target) < 2:
                    target = [xgrid[0], xgrid[-1]]
            # explicit grids are written in the order given: ascending, descending or arbitrary
            torder = draw(st.sampled_from(["ascending", "ascending", "descending", "shuffled"]))
            if torder == "descending":
                target = target[::-1]
            elif torder == "shuffled":
                target = list(draw(st.permutations(target)))
                if target == sorted(target):
                    target = target[::-1]
        members = draw(st.sampled_from([1, 1, 2, 3]))
        return dict(
            kind="evolve",
            seed=draw(st.integers(0, 2**31 - 1)),
            xgrid=xgrid,
            deg=deg,
            init=[float(round(draw(st.floats(1.0, 1.6)), 6)), draw(st.integers(3, 4))],
            mugrid=mugrid,
            bad_scales=bad_scales,
            scheme=scheme,
            msbar=msbar,
            ratios=ratios,
            qcd=draw(st.sampled_from([1, 2, 2, 3, 4])),
            method=draw(st.sampled_from(["iterate-exact", "truncated"])),
            xif=draw(st.sampled_from([0.5, 0.7, 1.5, 2.0])) if sv else 1.0,
            members=members,
            missing=[sorted(draw(st.permutations(list(bs.FLAV)))[: draw(st.sampled_from([0, 1, 4, 10]))])
                     for _ in range(members)],
            target=target,
            ttype=ttype,
            tkind=tkind,
            torder=torder,
            info_update=draw(st.sampled_from([None, None, {"SetDesc": "harness set", "HarnessKey": 15.3}])),
            install=draw(st.sampled_from([False, False, False, True])),
        )

    @st.composite
    def roundtrip(draw):
        nb = draw(st.integers(1, 3))
        shapes = [[draw(st.integers(1, 5)), draw(st.integers(1, 4))] for _ in range(nb)]
        return dict(
            kind="roundtrip",
            seed=draw(st.integers(0, 2**31 - 1)),
            shapes=shapes,
            npids=draw(st.sampled_from([1, 2, 13, 14])),
            member=draw(st.sampled_from([0, 0, 1, 7, 123])),
            pdf_type=draw(st.sampled_from([None, None, "PdfType: error\n"])),
            wild=draw(st.booleans()),
        )

    return st.one_of(evolve(), evolve(), evolve(), evolve(), evolve(), roundtrip())


# --------------------------------------------------------------------------- helpers


def theory_operator(case):
    c = bs.card_case(case["xgrid"], case["deg"], case["init"], case["mugrid"], qcd=case["qcd"])
    c.update(ratios=list(case["ratios"]), method=case["method"], ref=[91.2, 5], alphas=0.118,
             masses=[1.51, 4.92, 172.5])
    if case["scheme"] == "MSBAR":
        c.update(bs.msbar_theory_extra(case["msbar"]))
    if case["xif"] != 1.0:
        c.update(xif=case["xif"], sv="exponentiated")
    return ru.cards(c)


def regroup(mugrid):
    """[(nf, [mu ascending])] with nf ascending - the block layout LHAPDF needs."""
    by = {}
    for mu, nf in mugrid:
        by.setdefault(int(nf), []).append(float(mu))
    return [(nf, sorted(by[nf])) for nf in sorted(by)]


class StubLhapdf:
    """Install a module ``lhapdf`` that only knows ``paths()`` (tests/conftest.py::fake_lhapdf)."""

    def __init__(self, directory):
        self.directory = directory
        self.previous = None

    def __enter__(self):
        module = type(sys)("lhapdf")
        directory = self.directory
        module.paths = lambda: [directory]
        self.previous = sys.modules.get("lhapdf")
        sys.modules["lhapdf"] = module
        return self

    def __exit__(self, *exc):
        if self.previous is None:
            sys.modules.pop("lhapdf", None)
        else:
            sys.modules["lhapdf"] = self.previous
        return False


def rel_close(a, b, rel):
    return abs(a - b) <= rel * max(abs(a), abs(b))


# --------------------------------------------------------------------------- round trip of data blocks


def check_roundtrip(case):
    from ekobox.genpdf import export, load

    res = CaseResult()
    rng = np.random.default_rng(case["seed"])
    pids = list(bs.FLAV)[: case["npids"]] if case["npids"] < 14 else list(bs.FLAV)
    blocks, q_lo = [], 1.0
    for nx, nq in case["shapes"]:
        xs = np.sort(10 ** rng.uniform(-6, 0, size=nx))
        xs = [float(x) for x in xs * np.linspace(1.0, 1.0 + 0.01 * (nx - 1), nx)]  # distinct at 7 digits
        qs = [float(q_lo * 1.3 ** (i + rng.uniform(0.1, 0.9))) for i in range(nq)]
        q_lo = qs[-1] * 1.2
        if case["wild"]:
            data = rng.normal(size=(nx * nq, len(pids))) * 10 ** rng.uniform(-30, 30, size=(nx * nq, len(pids)))
            data[rng.uniform(size=data.shape) < 0.1] = 0.0
        else:
            data = rng.normal(size=(nx * nq, len(pids)))
        blocks.append(dict(xgrid=xs, mu2grid=[q * q for q in qs], pids=np.array(pids), data=data))
    res.classes = ["kind=roundtrip", f"blocks={len(blocks)}", f"pids={len(pids)}", f"wild={case['wild']}",
                   f"head={'custom' if case['pdf_type'] else 'default'}"]
    res.nontrivial = len(blocks) >= 2
    d = bs.fresh_dir("vf-c45-")
    try:
        setdir = d / "rtset"
        try:
            target = export.dump_blocks(setdir, case["member"], blocks, pdf_type=case["pdf_type"])
        except Exception as e:  # noqa: BLE001
            res.fail(exc_bucket(f"{ID}/roundtrip/dump", e), repr(e))
            return res
        want_name = f"rtset_{case['member']:04d}.dat"
        if target.name != want_name or not target.exists():
            res.fail(f"{ID}/roundtrip/file-name", f"written {target}, expected {want_name}")
            return res
        with StubLhapdf(str(d)):
            try:
                head, back = load.load_blocks_from_file("rtset", case["member"])
            except Exception as e:  # noqa: BLE001
                res.fail(exc_bucket(f"{ID}/roundtrip/load", e), repr(e))
                return res
        want_head = case["pdf_type"] or ("PdfType: central\n" if case["member"] == 0 else "PdfType: replica\n")
        if head != want_head:
            res.fail(f"{ID}/roundtrip/head", f"head {head!r} instead of {want_head!r}")
        try:
            phead, pblocks = bs.parse_dat(target)
        except (ValueError, IndexError) as e:
            res.fail(f"{ID}/roundtrip/malformed-file", repr(e))
            return res
        if phead.get("Format") != "lhagrid1":
            res.fail(f"{ID}/roundtrip/format", f"header {phead}")
        for who, got in (("repo-reader", back), ("harness-parser", [
                dict(xgrid=b["x"], mu2grid=[q * q for q in b["q"]], pids=b["pids"],
                     data=b["data"].reshape(-1, len(b["pids"]))) for b in pblocks])):
            if len(got) != len(blocks):
                res.fail(f"{ID}/roundtrip/{who}/block-count", f"{len(got)} blocks read, {len(blocks)} written")
                continue
            for ib, (w, g) in enumerate(zip(blocks, got)):
                if [int(p) for p in g["pids"]] != [int(p) for p in w["pids"]]:
                    res.fail(f"{ID}/roundtrip/{who}/pids", f"block {ib}: {list(g['pids'])} vs {list(w['pids'])}")
                if len(g["xgrid"]) != len(w["xgrid"]) or any(
                        not rel_close(float(a), b, NODE_REL) for a, b in zip(g["xgrid"], w["xgrid"])):
                    res.fail(f"{ID}/roundtrip/{who}/xgrid", f"block {ib}: {list(g['xgrid'])} vs {w['xgrid']}")
                if len(g["mu2grid"]) != len(w["mu2grid"]) or any(
                        not rel_close(float(a), b, 2.2 * NODE_REL) for a, b in zip(g["mu2grid"], w["mu2grid"])):
                    res.fail(f"{ID}/roundtrip/{who}/mu2grid", f"block {ib}: {list(g['mu2grid'])} vs {w['mu2grid']}")
                gd = np.asarray(g["data"], dtype=float)
                if gd.shape != w["data"].shape:
                    res.fail(f"{ID}/roundtrip/{who}/data-shape", f"block {ib}: {gd.shape} vs {w['data'].shape}")
                    continue
                bad = np.abs(gd - w["data"]) > VAL_REL * np.abs(w["data"])
                if np.any(bad):
                    i = tuple(int(v) for v in np.argwhere(bad)[0])
                    res.fail(f"{ID}/roundtrip/{who}/data", f"block {ib} entry {i}: read {gd[i]!r}, written {w['data'][i]!r}")
        return res
    finally:
        bs.remove_dir(d)


# --------------------------------------------------------------------------- export of evolved PDFs


def check_case(case):
    if case["kind"] == "roundtrip":
        return check_roundtrip(case)
    from eko.interpolation import XGrid
    from eko.io import runcards
    from eko.runner import commons
    from ekobox import evol_pdf
    from ekobox.genpdf import load

    res = CaseResult()
    xgrid, deg = case["xgrid"], case["deg"]
    n = len(xgrid)
    layout = regroup(case["mugrid"])
    target, ttype = case["target"], case["ttype"]
    # an XGrid sorts its nodes itself; lists and arrays are written in the order given
    out_x = list(xgrid) if target is None else (sorted(target) if ttype == "xgrid" else list(target))
    tkind = case.get("tkind", "none" if target is None else "generic")
    torder = "none" if target is None else (
        "ascending" if out_x == sorted(out_x) else "descending" if out_x == sorted(out_x, reverse=True) else "shuffled")
    rounded = all(round(mu, 4) == mu for mu, _ in case["mugrid"])
    sorted_ends = (case["mugrid"][0][0] == min(m for m, _ in case["mugrid"])
                   and case["mugrid"][-1][0] == max(m for m, _ in case["mugrid"]))
    res.classes = [
        "kind=evolve", f"blocks={len(layout)}", f"scheme={case['scheme']}", f"target={ttype}", f"target-kind={tkind}",
        f"target-order={torder}", f"xmin={'<1e-6' if xgrid[0] < 1e-6 else '<1e-3' if xgrid[0] < 1e-3 else '>=1e-3'}",
        f"members={case['members']}",
        f"qcd={case['qcd']}", f"method={case['method']}", f"xif={'1' if case['xif'] == 1.0 else 'sv'}",
        f"install={case['install']}", f"bad_scales={case['bad_scales']}", f"scales={'rounded' if rounded else 'generic'}",
        f"grid-ends={'sorted' if sorted_ends else 'unsorted'}", f"unit-ratios={case['ratios'] == [1.0] * 3}",
    ]
    res.nontrivial = bool(not case["bad_scales"] and (len(layout) >= 2 or target is not None or case["scheme"] == "MSBAR"))

    theory, operator = theory_operator(case)
    if case["scheme"] == "MSBAR":
        try:
            runcards.masses(theory, operator.configs.evolution_method)
        except ValueError as e:
            return CaseResult(discarded=f"msbar-inconsistent:{str(e)[:40]}")

    rng = np.random.default_rng(case["seed"])
    tensors = {bs.ep_of(p): (bs.random_operator(rng, n), None) for p in case["mugrid"]}
    if len(tensors) != len(case["mugrid"]):
        return CaseResult(discarded="duplicate evolution point")
    pdfs = [bs.TablePDF(bs.random_pdf_params(rng, set(miss))) for miss in case["missing"]]
    mu20 = case["init"][0] ** 2

    d = bs.fresh_dir("vf-c45-")
    eko = None
    try:
        path = d / "eko.tar"
        eko = bs.build_eko(path, theory, operator, tensors)
        eko.close()
        name = str(d / "outset")
        lhadir = d / "lhapdf"
        lhadir.mkdir()
        tg = None
        if target is not None:
            tg = {"list": list(target), "array": np.array(target), "xgrid": XGrid(list(target))}[ttype]
        info_update = None if case["info_update"] is None else dict(case["info_update"])
        with StubLhapdf(str(lhadir)):
            try:
                evol_pdf.evolve_pdfs(pdfs, theory, operator, path=path, targetgrid=tg, install=case["install"],
                                     name=name, info_update=info_update)
                raised = None
            except ValueError as e:
                raised = e
                if not case["bad_scales"]:
                    res.fail(exc_bucket(f"{ID}/call/target={ttype}", e), repr(e))
                    return res
            except Exception as e:  # noqa: BLE001
                res.fail(exc_bucket(f"{ID}/call/target={ttype}", e), repr(e))
                return res
        if case["bad_scales"]:
            if raised is None or "is bigger" not in str(raised):
                res.fail(f"{ID}/overlapping-scales-accepted",
                         f"per-nf scale ranges {layout} overlap but evolve_pdfs returned {raised!r}")
            return res
        setdir = (lhadir if case["install"] else d) / "outset"
        if not setdir.is_dir():
            res.fail(f"{ID}/files/set-missing/install={case['install']}", f"no directory {setdir}")
            return res

        # ------------------------------------------------ member files
        dats = sorted(p.name for p in setdir.glob("*.dat"))
        want_dats = [f"outset_{m:04d}.dat" for m in range(case["members"])]
        if dats != want_dats:
            res.fail(f"{ID}/files/members", f"member files {dats}, expected {want_dats}")
            return res
        rmat, amat = (None, None) if target is None else bs.interp_matrix(xgrid, deg, out_x, True)
        written_q, written_pids = None, None
        for m, pdf in enumerate(pdfs):
            try:
                head, blocks = bs.parse_dat(setdir / want_dats[m])
            except (ValueError, IndexError) as e:
                res.fail(f"{ID}/dat/malformed-file", f"member {m}: {e!r}")
                return res
            if head.get("PdfType") != ("central" if m == 0 else "replica") or head.get("Format") != "lhagrid1":
                res.fail(f"{ID}/dat/head", f"member {m}: header {head}")
            if len(blocks) != len(layout):
                res.fail(f"{ID}/dat/block-count", f"member {m}: {len(blocks)} blocks for nf layout {layout}")
                continue
            f = bs.input_table(pdf, xgrid, mu20)
            written_q = []
            for (nf, mus), blk in zip(layout, blocks):
                written_q += blk["q"]
                written_pids = blk["pids"]
                if len(blk["x"]) != len(out_x) or any(not rel_close(a, b, NODE_REL) for a, b in zip(blk["x"], out_x)):
                    res.fail(f"{ID}/dat/xgrid/target={ttype != 'none'}", f"member {m} nf={nf}: x nodes {blk['x']} instead of {out_x}")
                    continue
                if len(blk["q"]) != len(mus) or any(not rel_close(a, b, NODE_REL) for a, b in zip(blk["q"], mus)):
                    res.fail(f"{ID}/dat/qgrid", f"member {m} nf={nf}: Q nodes {blk['q']} instead of {mus}")
                    continue
                if sorted(blk["pids"]) != sorted(bs.FLAV):
                    res.fail(f"{ID}/dat/pids", f"member {m} nf={nf}: pids {blk['pids']}")
                    continue
                for iq, mu in enumerate(mus):
                    op = tensors[(mu**2, nf)][0]
                    want = bs.contract(op, f)
                    scale = bs.contract_scale(op, f)
                    if rmat is not None:
                        want, scale = want @ rmat.T, scale @ (np.abs(rmat) + AMP_W * amat).T
                    for ip, pid in enumerate(blk["pids"]):
                        a = bs.FLAV.index(pid)
                        for ix, x in enumerate(out_x):
                            w, g = x * want[a, ix], blk["data"][ix, iq, ip]
                            if not abs(g - w) <= VAL_REL * abs(w) + 1e-10 * x * scale[a, ix] + 1e-300:
                                res.fail(f"{ID}/dat/value/target={ttype != 'none'}",
                                         f"member {m} nf={nf} Q={mu} pid={pid} x={x}: written {g!r}, x*f = {w!r}")
                                break
                        else:
                            continue
                        break

        # ------------------------------------------------ the repository's reader sees the same blocks
        with StubLhapdf(str(setdir.parent)):
            try:
                _, back = load.load_blocks_from_file("outset", 0)
                info_back = load.load_info_from_file("outset")
            except Exception as e:  # noqa: BLE001
                res.fail(exc_bucket(f"{ID}/reread", e), repr(e))
                back, info_back = None, None
        if back is not None:
            _, mine = bs.parse_dat(setdir / want_dats[0])
            if len(back) != len(mine):
                res.fail(f"{ID}/reread/block-count", f"{len(back)} vs {len(mine)}")
            else:
                for b_repo, b_mine in zip(back, mine):
                    same = (
                        np.array_equal(np.asarray(b_repo["xgrid"], dtype=float), np.array(b_mine["x"]))
                        and np.allclose(b_repo["mu2grid"], [q * q for q in b_mine["q"]], rtol=1e-14, atol=0)
                        and [int(p) for p in b_repo["pids"]] == b_mine["pids"]
                        and np.array_equal(np.asarray(b_repo["data"], dtype=float),
                                           b_mine["data"].reshape(-1, len(b_mine["pids"])))
                    )
                    if not same:
                        res.fail(f"{ID}/reread/blocks-differ", "load_blocks_from_file and the harness parser disagree")

        # ------------------------------------------------ info file
        try:
            info = bs.parse_info(setdir / "outset.info")
        except (ValueError, OSError) as e:
            res.fail(f"{ID}/info/malformed-file", repr(e))
            return res
        if info_back is not None:
            for key in ("XMin", "XMax", "QMin", "QMax", "NumMembers", "NumFlavors", "AlphaS_Qs", "AlphaS_Vals", "Flavors"):
                if info_back.get(key) != info.get(key):
                    res.fail(f"{ID}/reread/info", f"{key}: yaml {info_back.get(key)!r} vs harness parser {info.get(key)!r}")
        for key, want in (("XMin", min(out_x)), ("XMax", max(out_x))):
            got = info.get(key)
            if not isinstance(got, (int, float)) or not rel_close(float(got), want, 1e-12):
                res.fail(f"{ID}/info/xrange/target={ttype != 'none'}", f"{key} = {got!r}, written x nodes are {out_x}")
        all_mus = [mu for _, mus in layout for mu in mus]
        for key, want, first in (("QMin", min(all_mus), case["mugrid"][0][0]), ("QMax", max(all_mus), case["mugrid"][-1][0])):
            got = info.get(key)
            if isinstance(got, (int, float)) and rel_close(float(got), want, 1e-12):
                continue
            if isinstance(got, (int, float)) and float(got) == round(want, 4):
                res.fail(f"{ID}/info/qrange/rounded", f"{key} = {got!r} is the extreme written Q {want!r} rounded to 4 decimals")
            elif isinstance(got, (int, float)) and float(got) == round(first, 4):
                res.fail(f"{ID}/info/qrange/unsorted-grid",
                         f"{key} = {got!r} is the {'first' if key == 'QMin' else 'last'} entry of the unsorted mugrid "
                         f"{case['mugrid']}; written Q nodes span {min(all_mus)} .. {max(all_mus)}")
            else:
                res.fail(f"{ID}/info/qrange/other", f"{key} = {got!r}, written Q nodes span {min(all_mus)} .. {max(all_mus)}")
        if written_pids is not None and sorted(info.get("Flavors") or []) != sorted(written_pids):
            res.fail(f"{ID}/info/flavors", f"Flavors {info.get('Flavors')} vs written pids {written_pids}")
        if info.get("NumFlavors") != max(nf for nf, _ in layout):
            res.fail(f"{ID}/info/numflavors", f"NumFlavors {info.get('NumFlavors')} for nf blocks {[nf for nf, _ in layout]}")
        if info.get("NumMembers") != len(dats):
            res.fail(f"{ID}/info/nummembers", f"NumMembers {info.get('NumMembers')} with {len(dats)} member files")
        if case["info_update"] is not None:
            for key, val in case["info_update"].items():
                if info.get(key) != val:
                    res.fail(f"{ID}/info/update", f"{key} = {info.get(key)!r}, requested {val!r}")
        qs = info.get("AlphaS_Qs")
        vals = info.get("AlphaS_Vals")
        if not isinstance(qs, list) or not isinstance(vals, list) or len(qs) != len(all_mus) or len(vals) != len(all_mus):
            res.fail(f"{ID}/info/alphas/length", f"AlphaS_Qs {qs}, AlphaS_Vals {vals} for written Q nodes {all_mus}")
            return res
        if any(not rel_close(float(a), b, 1e-12) for a, b in zip(qs, all_mus)) or (
                written_q is not None and any(not rel_close(float(a), b, NODE_REL) for a, b in zip(qs, written_q))):
            res.fail(f"{ID}/info/alphas/qs", f"AlphaS_Qs {qs} vs written Q nodes {all_mus}")
        sc = commons.couplings(theory, operator)
        i = 0
        for nf, mus in layout:
            for mu in mus:
                want = float(4.0 * math.pi * sc.a_s(mu * mu, nf_to=nf))
                if not rel_close(float(vals[i]), want, 1e-10):
                    why = "msbar" if case["scheme"] == "MSBAR" else ("sv-thresholds" if case["xif"] != 1.0 else "other")
                    res.fail(f"{ID}/info/alphas/value/{why}",
                             f"AlphaS_Vals[{i}] = {vals[i]!r} at Q={mu}, nf={nf}; the evolution's coupling gives {want!r} "
                             f"(rel. diff {abs(float(vals[i]) - want) / want:.2e})")
                    break
                i += 1
            else:
                continue
            break
        return res
    finally:
        bs.safe_close(eko)
        bs.remove_dir(d)

"""C51 scale-varied EKOs agree with the central EKO to the working order (kernel level and end to end)."""

import copy
import math

import numpy as np

from vf.core import CaseResult, exc_bucket

ID = "C51"
LEVEL = "exploration"
ENGINE = "K+R"
TECHNIQUE = (
    "metamorphic scaling law with an independent RGE: varied vs unvaried integration kernels (quad_ker_qcd / quad_ker_qed "
    "driven with generated towers) and varied vs unvaried tiny solves, coupling scaled by lambda at fixed coupling ratio; "
    "measured exponent of the relative difference must reach the perturbative order; xi=1 must be bitwise neutral"
)
RULE = (
    "Two halves (field 'half'). K (kernel level, ~99.7% of the draws): sector in {ns, singlet, qed-ns, qed-valence, "
    "qed-singlet}, order n 1-4 (QED: (1-3, 1-2), alpha_em fixed or running), nf 3-6, random complex non-commuting towers "
    "|gamma_k| <~ 10^k from a drawn seed, every evolution method (singlet: all but decompose-*; QED: iterate-exact), "
    "iterations 1-200 (iterating methods 20-200), couplings (a0,a1) in [0.008,0.03] either order with |ln a1/a0| in "
    "[0.05,0.5] scaled by lambda in {1/8,1/16,1/32,1/64} (alpha_em by lambda^n), xi^2 in [1/4,4] or exactly 1. The "
    "kernels are produced by the repository's quad_ker_qcd / quad_ker_qed with the couplings each scheme prescribes "
    "(MHOU.rst: exponentiated a(xi^2 mu^2) at both ends, expanded a(xi^2 mu^2) at the target only, none on an "
    "intermediate threshold segment) obtained from an independent DOP853 solution of the truncated RGE. D(lambda) = "
    "max|K_var - K_unv| / max|K_unv|; the exponent from the two smallest usable lambdas must be >= n - 0.25 for both "
    "schemes (a reading below that is final only after following lambda down to 1/512 and if the local exponents do not "
    "rise towards n: Richardson value 2 e_last - e_prev); xi=1 and expanded-on-threshold-segment must reproduce the unvaried kernel exactly. E (end to end): tiny "
    "fixed-flavour solves (2-3 point grids), orders 1-3 (quick: 1-2) and QED (n,1),(n,2), one scheme, xi^2 in [1/4,4], "
    "alpha_s(mu0) in [0.2,0.3] scaled by lambda in {1,1/2,1/4,1/8} (QED {1,1/2,1/4}) with the evolution length "
    "ln(mu1^2/mu0^2) scaled by 1/lambda (fixed coupling ratio, the regime in which a_s^n is the sharp power); R(lambda) = "
    "max|E_var - E_unv| / max|E_unv(largest lambda)| over all operator entries; best local exponent >= n - 0.3; xi=1: operators "
    "bitwise equal. Every run additionally contains deterministic fixed-scale cases chosen from the run seed (run_custom: "
    "3-point grid, operator-level R; five per quick run, ten per thorough run): scales 0.45 m and 2.5 m around a matching "
    "scale m with alpha_s given at (m, nf+1); NLO expanded crossing up or down (lambda {1,1/2,1/4}); NNLO crossing upward "
    "with the expanded and with the exponentiated scheme (lambda down to 1/8, intrinsic heavy-quark input columns judged "
    "separately); NNLO fixed-flavour evolution in the lower patch with either scheme, i.e. with the coupling reference in "
    "another flavour patch. Verdict of these cases: last local exponent >= n - 0.3, else a violation only if at least three "
    "lambdas are usable, the last two local exponents are both low and they do not rise towards n; the thorough tier generates threshold crossings with "
    "either scheme (8-10 point grids, toy PDFs without intrinsic heavy input, as in C50). "
    "Non-trivial = at least two usable lambdas (K: both schemes) or an exact-identity case with a1 != a0; distinct by "
    "the full case (K) / (order, scheme, method, sign of ln xi^2, running, path) (E)."
)
ASSUMPTIONS = [
    "beta coefficients from eko.beta (decided by C20); the RGE itself, its truncation and the scheme prescriptions are "
    "typed from the documentation; a(xi^2 mu^2) by scipy DOP853 at rtol 1e-13",
    "kernel half: the harness replaces, in its own interpreted process, the names ad_us and select_*_element seen by "
    "eko.evolution_operator.quad_ker so that quad_ker_qcd / quad_ker_qed run on generated towers and return whole "
    "matrices (no repository change)",
    "usable lambda (K): D > 3e-11 (30 x the 1e-12 noise bound of the RGE solution at rtol 1e-13; measured over 1200 kernels: "
    "max 2.5e-13 at rtol 1e-12, median 2e-15) and, for iterating kernels, D > 20 x the "
    "discretisation cross-term 4 |gamma_0| |ln xi^2| a c^3 / iterations^2 (c = |ln a1/a0|; measured plateau 1.2e-5 a at "
    "c=0.29, 40 steps, i.e. 0.3 x this bound): the mid-point rule error differs between varied and unvaried coupling "
    "lists at O(a/iterations^2), which is a property of the iterated solution, not of the scale variation",
    "kernel verdict: a first reading below n - 0.25 is final only after following lambda down to 1/512 (while usable) "
    "and if the local exponents do not rise towards n (Richardson value 2 e_last - e_prev for halved lambdas): with "
    "tens of thousands of random towers the leading coefficient is occasionally ~100x smaller than natural, so that "
    "the a^(n+1) term still bends the exponent at lambda = 1/16 (seen once in 32000 cases: local exponents 2.08, 2.60, "
    "2.83 at n = 3); a genuine lower-order term makes the local exponents fall towards n - 1 instead",
    "QED kernel lists: a_s at the borders of uniform steps in ln mu^2 and (a_s, a_em) at the geometric mid-point along "
    "the shifted trajectory (the arithmetic mu^2 mid-point of the operator degenerates to an end-point rule for the long "
    "steps of the fixed-ratio regime); alpha_em is scaled by lambda^n so that the terms the QED variation neglects by "
    "design (docstring of gamma_variation_qed: O(as^2 aem); no K term below QED order 2) stay beyond a_s^n",
    "singlet decompose-* methods are excluded: documented to neglect the non-commutativity of the singlet matrices "
    "(DGLAP.rst), an O(a) error that is not beyond the working order for n >= 3",
    "end to end: quad tolerance tightened to 1e-9 from the harness (tight_quad of C50); usable R > 3e-6 (100 x quadrature "
    "noise; the 1e-6 rtol of the exact coupling solver enters both solves through different end points)",
    "end-to-end QED uses lambda down to 1/4 and ln(mu1^2/mu0^2) <= 0.6/lambda with 10-12 iterations so that the "
    "operator's arithmetic mid-point rule stays second order (measured: 10 iterations over ln mu^2 = 5.6 add 2e-4 to R)",
    "deterministic fixed-scale cases: same segmentation in varied and unvaried paths and every factor within the working "
    "order on its own, hence no interpolation floor; correct code gives local exponents n (expanded) / n+1 (exponentiated, "
    "fixed flavour) but the expanded scheme at NNLO approaches 3 slowly (2.2-2.7 rising at lambda <= 1/8 on the unchanged "
    "tree), so readings that rise, a single low reading after a good one (sign change) and fewer than three usable "
    "lambdas are undecided; the coupling is deliberately given in the patch above the matching scale",
    "interpreted mode (NUMBA_DISABLE_JIT=1)",
]
LEVEL_TEXT = (
    "Generated-input exploration: thousands of kernel-level cases with a measured exponent (sharp: one missing power is "
    "separated by 0.75) plus a handful of end-to-end solves that tie Operator.mu2 / compute_aem_list / commons.couplings "
    "to the same law. Finite samples; the threshold-crossing part runs only in the thorough tier."
)

K_THR = 0.25
E_THR = 0.3
K_NOISE = 1e-12
E_NOISE = 3e-8
METHODS_NS = (
    "iterate-exact", "iterate-expanded", "perturbative-exact", "perturbative-expanded", "truncated", "ordered-truncated",
    "decompose-exact", "decompose-expanded",
)
METHODS_S = METHODS_NS[:6]
ITERATING = ("iterate-exact", "iterate-expanded")
SCHEMES = ("exponentiated", "expanded")


def budget(tier):
    if tier == "quick":
        return dict(max_examples=6000, shards=16, wall_s=150, shrink_s=15, custom_shards=5)
    return dict(max_examples=32000, shards=16, wall_s=850, shrink_s=150, custom_shards=5)


# --------------------------------------------------------------------------------------------- strategy


def strategy_kernel(tier):
    from hypothesis import strategies as st

    from vf import strategies as S
    from vf.core import jhash

    @st.composite
    def kernel(draw):
        sector = draw(st.sampled_from(("singlet", "ns", "qed-singlet", "qed-valence", "qed-ns", "singlet")))
        qed = sector.startswith("qed")
        n = draw(st.sampled_from((2, 3, 1, 2, 3) if qed else (2, 3, 4, 1, 2, 3, 4)))
        m = draw(st.sampled_from((1, 2))) if qed else 0
        if qed:
            method = "iterate-exact"
        else:
            method = draw(st.sampled_from(METHODS_S if sector == "singlet" else METHODS_NS))
        iterating = qed or (method in ITERATING and sector == "singlet")
        iters = draw(st.integers(20, 200 if not qed else 100)) if iterating else draw(st.integers(1, 200))
        if method.startswith("perturbative"):
            iters = min(iters, 20)
        a0 = draw(S.log_floats(0.008, 0.03))
        c = draw(S.floats(0.05, 0.5 if not qed else 0.3))
        up = draw(st.booleans())
        a1 = a0 * math.exp(c) if up else a0 * math.exp(-c)
        if a1 > 0.03:
            a1 = a0 * math.exp(-c)
        kind = draw(st.sampled_from(("scaling",) * 5 + ("xi1", "threshold") + ("scaling",) * 5))
        xi2 = 1.0 if kind == "xi1" else math.exp(draw(S.floats(0.1, math.log(4))) * (1 if draw(st.booleans()) else -1))
        case = {
            "half": "K", "kind": kind, "sector": sector, "order": [n, m], "nf": draw(st.sampled_from((4, 5, 3, 6))), "method": method,
            "iters": iters, "max_order": n + draw(st.integers(0, 6)), "a": [a0, a1], "xi2": xi2,
            "aem": draw(S.log_floats(1e-4, 1e-3)) if qed else 0.0, "running": draw(st.booleans()) if qed else False,
            "lambdas": [1 / 8, 1 / 16, 1 / 32, 1 / 64],
        }
        # Hypothesis favours simple values (measured: 18 % of drawn seeds are 0, half of the couplings sit on a bound):
        # mix the drawn seed with a hash of all other fields so that towers differ whenever anything differs
        case["seed"] = (draw(st.integers(0, 2**31 - 1)) ^ int(jhash(case), 16)) % 2**31
        return case

    return kernel()


def e2e_case(tier, seed):
    """End-to-end case as a function of one integer drawn by Hypothesis (numpy Generator seeded with it)."""
    rng = np.random.default_rng(int(seed))
    quick = tier == "quick"

    def pick(seq):
        return seq[int(rng.integers(0, len(seq)))]

    def uni(lo, hi):
        return float(rng.uniform(lo, hi))

    kind = pick(("scaling",) * 5 + ("xi1",) + (() if quick else ("threshold",)))
    qed = pick((0, 0, 0, 1, 2)) if kind != "threshold" else 0
    n = pick((1, 2, 2) if quick else (1, 2, 2, 3, 3))
    if qed and n == 1:
        n = 2  # (1,m): both schemes leave the QCD part untouched, nothing to measure
    scheme = pick(SCHEMES)
    xi2 = 1.0 if kind == "xi1" else math.exp(uni(0.35, math.log(4)) * pick((1, -1)))
    method = "iterate-exact" if qed else pick(METHODS_S)
    nf = pick((3, 4)) if kind == "threshold" else pick((3, 4, 5))
    case = {
        "half": "E", "kind": kind, "order": [n, qed], "scheme": scheme, "xi2": xi2, "method": method, "nf": nf,
        "mu0": uni(3.0, 8.0), "alphas": uni(0.2, 0.3), "alphaem": 0.0075, "running": bool(pick((False, True))) if qed else False,
        "iters": pick((10, 11, 12)), "seed": int(seed),
    }
    if kind == "threshold":
        # fixed scales across one matching (thorough tier only): mu0 below, target above the (nf+1) threshold or reverse
        pdf = {}
        for q in range(1, nf + 1):
            pdf[str(q)] = {"sea": [uni(0.1, 0.6), uni(0.0, 0.5), uni(4.0, 7.0), uni(0.0, 2.0)], "val": [uni(0.3, 2.0), uni(0.5, 1.0), uni(3.0, 5.0), uni(0.0, 2.0)]}
        pdf["21"] = {"sea": [uni(0.5, 3.0), uni(0.0, 0.3), uni(4.0, 7.0), uni(0.0, 2.0)]}
        case.update(
            pdf=pdf, up=bool(pick((False, True))), mass=uni(4.0, 6.0), inv=pick(("exact", "expanded")), npts=pick((8, 9, 10)),
            deg=pick((2, 3)), lambdas=[1.0, 0.5, 0.25] if n == 3 else [1.0, 0.5, 0.25, 0.125], method=pick(("iterate-exact", "truncated")),
        )
    else:
        x0 = uni(0.05, 0.3)
        three = bool(pick((False, True))) and not qed
        case.update(
            dt1=uni(0.4, 0.6 if qed else 0.8), up=bool(pick((False, True))), xgrid=[x0, math.sqrt(x0), 1.0] if three else [x0, 1.0],
            lambdas=[1.0, 0.5, 0.25] if (qed or n == 3) else [1.0, 0.5, 0.25, 0.125],
        )
    return case


def strategy_e2e(tier):
    from hypothesis import strategies as st

    return st.integers(0, 2**31 - 1).map(lambda sd: e2e_case(tier, sd))


def strategy(tier):
    # A kernel case is always drawn; whether it is replaced by an end-to-end case is decided by its content hash, and the
    # end-to-end case is a function of the kernel case's drawn seed.  Reasons (both measured): Hypothesis re-uses and mutates
    # choice sequences of earlier examples, so a *drawn* selector comes in bursts of 7-20 (expensive) end-to-end cases per
    # shard, and an example that needs *more* draws than its mutated parent is dropped as an overrun (8 of 9 selected cases
    # lost).  A content hash changes with every mutation and gives a flat 1/n_sel rate.
    from vf.core import jhash

    n_sel = 600 if tier == "quick" else 400
    return strategy_kernel(tier).map(lambda k: k if int(jhash(k), 16) % n_sel != 0 else e2e_case(tier, k["seed"]))


# --------------------------------------------------------------------------------------------- kernel half


EXTRA_LAMBDAS = [1 / 128, 1 / 256, 1 / 512]


def _verdict(lams, D, usable, n):
    """Measured exponent of D ~ lambda^e and whether it reaches n - K_THR.

    First reading: the two smallest usable lambdas (DESIGN section 2).  If that reading is too small, the three smallest
    usable lambdas are consulted: for D = c a^n (1 + r a + ...) the local exponent approaches n linearly in a, so with
    lambda halved each time e_inf = 2 e_last - e_prev; a genuine lower-order term makes the local exponents *fall*
    towards n - 1 instead.  Accepted only if the local exponents rise and the extrapolated (or last) value reaches
    n - K_THR.  Returns (exponent reported, ok, local exponents) or None if fewer than two lambdas are usable."""
    idx = [i for i in range(len(lams)) if usable[i]]
    if len(idx) < 2:
        return None

    def loc(i, j):
        return math.log(D[i] / D[j]) / math.log(lams[i] / lams[j])

    e_last = loc(idx[-2], idx[-1])
    if e_last >= n - K_THR:
        return e_last, True, [e_last]
    if len(idx) < 3:
        # a single low reading cannot be told from the pre-asymptotic approach to n (thorough-tier runs showed 3.69-3.74
        # and 2.39 on correct code with the next, sub-threshold, lambdas at 3.9 / 2.8-2.9): undecided, not a violation;
        # a genuine lower-order term makes D larger and leaves more usable lambdas
        return None
    e_prev = loc(idx[-3], idx[-2])
    rich = 2.0 * e_last - e_prev
    ok = e_last > e_prev and rich >= n - K_THR
    return (rich if ok else e_last), ok, [e_prev, e_last]


def check_kernel(case):
    from vf.refs import qs_rge as R
    from vf.refs import qs_sv as SV

    res = CaseResult()
    sector, order, nf, method = case["sector"], case["order"], case["nf"], case["method"]
    n, m = order
    qed = sector.startswith("qed")
    a0, a1 = case["a"]
    L = math.log(case["xi2"]) if case["xi2"] != 1.0 else 0.0
    iters, maxo = case["iters"], [max(case["max_order"], n), 0]
    kind = case["kind"]
    res.classes = [f"K/sector={sector}", f"K/n={n}", f"K/kind={kind}", f"K/method={method}" if not qed else f"K/m={m},run={case['running']}"]
    tower = SV.make_tower(sector, order, case["seed"])
    g0 = float(np.abs(tower[0] if not qed else tower[1, 0]).max())
    c = abs(math.log(a1 / a0))
    iterating = qed and sector != "qed-ns" or (sector == "singlet" and method in ITERATING and n >= 2)
    lams = list(case["lambdas"]) if kind == "scaling" else list(case["lambdas"][:1])
    D = {s: [] for s in SCHEMES}
    floor = []
    # coarse bucket coordinates: theory (qcd/qed) and, because the singlet dispatcher routes truncated and
    # ordered-truncated to one function with its own history, whether that function is in use; the rest is in the message
    trunc = sector == "singlet" and method in ("truncated", "ordered-truncated")
    where = f"{'qed' if qed else 'qcd'}/{'singlet-truncated' if trunc else 'other-kernels'}"
    what = f"sector={sector}, order=({n},{m}), method={method}"

    def evaluate(qk, lam):
        """Unvaried, exponentiated, expanded (and expanded-on-threshold-segment) kernels at couplings scaled by lam."""
        b0, b1 = lam * a0, lam * a1
        if not qed:
            b0s, _ = R.shifted(order, nf, b0, L)
            b1s, _ = R.shifted(order, nf, b1, L)
            # (origin, target) couplings per scheme (MHOU.rst / Operator.mu2)
            ends = {"unvaried": (b0, b1), "exponentiated": (b0s, b1s), "expanded": (b0, b1s), "expanded-thr": (b0, b1)}

            def ker(scheme, key, thr=False):
                x0, x1 = ends[key]
                return SV.kernel_qcd(qk, sector, order, method, x1, x0, nf, L, iters, maxo, scheme, thr)

        else:
            e0 = case["aem"] * lam**n
            run = case["running"]
            dt = R.time_to_reach(order, nf, b0, b1, e0, run, t_max=50000.0)
            tr = R.Trajectory(order, nf, b0, e0, run, t_lo=min(0.0, dt) + min(0.0, L), t_hi=max(0.0, dt) + max(0.0, L))
            m0 = 1e4  # GeV^2 at t = 0; only ratios of scales and the tau threshold (number of leptons) are read
            # (origin, target) in t = ln(mu^2 / m0) per scheme
            ends = {"unvaried": (0.0, dt), "exponentiated": (L, dt + L), "expanded": (0.0, dt + L), "expanded-thr": (0.0, dt)}

            def mu2(t):
                return m0 * math.exp(t)

            def ker(scheme, key, thr=False):
                t0, t1 = ends[key]
                al, ah = R.step_lists(tr, t0, t1, iters, midpoint="geometric")
                return SV.kernel_qed(qk, sector, order, al, ah, mu2(t0), mu2(t1), run, nf, L, scheme, thr)

        ku = ker("unvaried", "unvaried")
        kv = {s: ker(s, s) for s in SCHEMES}
        kthr = ker("expanded", "expanded-thr", True) if kind == "threshold" else None
        return ku, kv, kthr, (b0, b1)

    def usable_of(s):
        return [d > 30 * K_NOISE and d > 20 * f for d, f in zip(D[s], floor)]

    with SV.tower_kernels(tower) as qk:
        todo = list(lams)
        lams = []
        while todo:
            lam = todo.pop(0)
            try:
                ku, kv, kthr, (b0, b1) = evaluate(qk, lam)
            except Exception as e:  # noqa: BLE001 - repo code on in-domain input (harness errors of the RGE helper are not expected here)
                res.fail(exc_bucket(f"{ID}/K/call/{where}", e), f"{what}: {e!r} at lambda={lam}")
                return res
            if not np.all(np.isfinite(ku)) or not all(np.all(np.isfinite(v)) for v in kv.values()):
                res.fail(f"{ID}/K/non-finite/{where}", f"{what}: non-finite kernel at lambda={lam}, couplings {b0}, {b1}")
                return res
            if kind == "xi1":
                for s in SCHEMES:
                    if not np.array_equal(kv[s], ku):
                        res.fail(
                            f"{ID}/K/xi1-not-identical/{s}/{where}",
                            f"{what}: xi=1: {s} kernel differs from the unvaried one by {SV.rel_diff(kv[s], ku):.3e} (a0={b0}, a1={b1})",
                        )
                return res
            if kind == "threshold":
                if not np.array_equal(kthr, ku):
                    res.fail(
                        f"{ID}/K/expanded-on-threshold-segment/{where}",
                        f"{what}: expanded scheme on an intermediate (is_threshold) segment changes the kernel by {SV.rel_diff(kthr, ku):.3e}",
                    )
                return res
            lams.append(lam)
            floor.append(4.0 * g0 * abs(L) * max(b0, b1) * c**3 / iters**2 if iterating else 0.0)
            for s in SCHEMES:
                D[s].append(SV.rel_diff(kv[s], ku))
            if not todo and len(lams) == len(case["lambdas"]):
                # in doubt: follow lambda further down before a verdict 'too small' becomes final
                for s in SCHEMES:
                    v = _verdict(lams, D[s], usable_of(s), n)
                    if v is not None and not v[1]:
                        # QED paths are parametrised by ln mu^2 ~ c / (beta0 a): stay far from float overflow of mu^2
                        todo = [x for x in EXTRA_LAMBDAS if x < min(lams) and (not qed or 1.3 * c / (7.0 * min(a0, a1) * x) + abs(L) < 600.0)]
                        res.classes.append("K/followed-down")
                        break

    nt = True
    for s in SCHEMES:
        usable = usable_of(s)
        v = _verdict(lams, D[s], usable, n)
        if v is None:
            nt = False
            res.classes.append(f"K/unusable/{s}")
            continue
        ex, ok, local = v
        res.classes.append(f"K/exp-n~{round((ex - n) * 4) / 4:+.2f}")
        if not ok:
            res.fail(
                f"{ID}/K/exponent/{s}/{where}",
                f"{what}: {s} vs unvaried kernel: D(lambda)={['%.3e' % d for d in D[s]]} for lambda={[round(1 / x) for x in lams]}^-1 "
                f"(usable {usable}), local exponents at the smallest usable lambdas {['%.2f' % e for e in local]} do not reach {n - K_THR}; "
                f"order {order}, nf={nf}, xi^2={case['xi2']}, a=({a0},{a1}), iterations {iters}",
            )
    res.nontrivial = nt
    return res


# --------------------------------------------------------------------------------------------- end-to-end half


def _ffns_card(case, lam, varied):
    n, qed = case["order"]
    dt = case["dt1"] / lam
    mu0 = case["mu0"]
    mu1 = mu0 * math.exp(dt / 2.0)
    a, b = (mu0, mu1) if case["up"] else (mu1, mu0)
    card = dict(
        order=[n, qed], alphas=case["alphas"] * lam, alphaem=case["alphaem"] * (lam**n if qed else 1.0), ref=[mu0, case["nf"]],
        init=[a, case["nf"]], mugrid=[[b, case["nf"]]], xgrid=case["xgrid"], deg=1, method=case["method"], iters=case["iters"],
        max_order=[10, qed], em_running=case["running"], masses=[1.5, 4.5, 173.0],
    )
    if varied:
        card.update(sv=case["scheme"], xif=math.sqrt(case["xi2"]))
    return card


def _thr_card(case, lam, varied):
    n = case["order"][0]
    nfl, m = case["nf"], case["mass"]
    masses = [1.0, 4.5, 173.0]
    masses[nfl - 3] = m
    if nfl == 4:
        masses[0] = 0.6
    else:
        masses[1] = 40.0
    lo_s, hi_s = 0.45 * m, 2.5 * m
    up = case["up"]
    nf_hi = nfl if case.get("ffns") else nfl + 1  # fixed-flavour variant: same scales, no matching on the path
    card = dict(
        # the coupling is given in the (nfl+1)-flavour patch: a_s of the nfl-flavour segment is reached through a flavour matching
        order=[n, 0], masses=masses, ref=[float(m), nfl + 1], alphas=case["alphas"] * lam,
        init=[lo_s, nfl] if up else [hi_s, nf_hi], mugrid=[[hi_s, nf_hi]] if up else [[lo_s, nfl]],
        xgrid=[float(x) for x in np.geomspace(0.05, 1.0, case["npts"])], deg=case["deg"], method=case["method"], iters=8,
        inv=None if up else case["inv"],
    )
    if varied:
        card.update(sv=case["scheme"], xif=math.sqrt(case["xi2"]))
    return card


VARIANTS_QUICK = ["expanded-nlo", "expanded-nnlo", "exponentiated-nnlo", "ffns-other-patch-expanded", "ffns-other-patch-exponentiated"]


def crossing_case(tier, seed, variant="expanded-nlo"):
    """Deterministic fixed-scale cases (run_custom), functions of the run seed; operator-level, 3-point grid, scales 0.45 m
    and 2.5 m around one matching scale m, alpha_s given at (m, nf+1) so that the nf-flavour coupling is reached through a
    flavour matching.  'expanded-nlo': expanded scheme, NLO, crossing up or down, lambda in {1, 1/2, 1/4}.  '*-nnlo': NNLO
    crossing upward with either scheme, lambda down to 1/8, the columns of the heavy quark that is still inactive at the
    start (intrinsic input) judged separately.  'ffns-other-patch-*': NNLO fixed-flavour evolution over the same scales in
    the lower patch, i.e. with the coupling reference in another flavour patch than the evolution."""
    rng = np.random.default_rng([int(seed), 51])

    def pick(seq):
        return seq[int(rng.integers(0, len(seq)))]

    def uni(lo, hi):
        return float(rng.uniform(lo, hi))

    up = bool(pick((True, True, False)))
    case = {
        "half": "E", "kind": "crossing", "variant": variant, "order": [2, 0], "scheme": "expanded",
        "xi2": math.exp(uni(0.5, math.log(4)) * pick((1, -1))),
        "method": pick(("iterate-exact", "truncated", "perturbative-exact")), "nf": pick((3, 4)), "mass": uni(4.0, 6.0), "up": up,
        "inv": pick(("exact", "expanded")), "alphas": uni(0.18, 0.25), "alphaem": 0.0075, "running": False, "npts": 3,
        "deg": pick((1, 2)), "lambdas": [1.0, 0.5, 0.25], "seed": int(seed),
    }
    if variant != "expanded-nlo":
        case.update(order=[3, 0], scheme=variant.split("-")[-1] if variant.startswith("ffns") else variant.split("-")[0], up=True,
                    method=pick(("truncated", "iterate-exact")), lambdas=[1.0, 0.5, 0.25, 0.125])
    if variant.startswith("ffns"):
        case.update(ffns=True, up=bool(pick((True, False))))
    return case


def run_custom(tier, seed, shard, nshards, record):
    """Deterministic part (five cases per quick run, ten per thorough run): configurations the generated fixed-flavour cases
    cannot reach.  Only a path with a matching separates 'the last segment carries the variation' from 'every segment does'
    (Operator.mu2 vs the is_threshold test at the kernel site), exercises the coupling of the matching operator and its
    heavy-quark initiated columns, and only a coupling reference in another flavour patch exercises the shifted matching
    points of the coupling (commons.couplings)."""
    variants = VARIANTS_QUICK if tier == "quick" else VARIANTS_QUICK * 2
    for i, variant in enumerate(variants):
        if i % nshards != shard:
            continue
        case = crossing_case(tier, seed * 10 + i, variant)
        record(case, check_case(case))


def check_e2e(case):
    from vf import runner_util as ru
    from vf.props.c50_matching_scale import local_exponents, tight_quad, toy_input

    res = CaseResult()
    n, qed = case["order"]
    kind, scheme = case["kind"], case["scheme"]
    thr = kind in ("threshold", "crossing")
    sign = "+" if case["xi2"] > 1 else ("-" if case["xi2"] < 1 else "0")
    res.classes = [f"E/kind={kind}", f"E/order={n},{qed}", f"E/scheme={scheme}", f"E/method={case['method']}", f"E/lnxi2{sign}"]
    res.key = [case["order"], scheme, case["method"], sign, case["running"], kind, case.get("up"), case.get("variant")]
    build = _thr_card if thr else _ffns_card
    where = f"{'qed' if qed else 'qcd'}/sv={scheme}"
    workers = 6 if kind == "crossing" else 4
    lams = [1.0] if kind == "xi1" else list(case["lambdas"])
    cards = []
    for lam in lams:
        cards += [build(case, lam, False), build(case, lam, True)]
    try:
        with tight_quad():
            # independent solves in forked workers (they inherit the tightened quadrature)
            ops = [list(o.values())[0][0] for o in ru.solve_many(cards, workers)]
    except (NotImplementedError, ValueError, ru.SolveRefused) as e:
        return CaseResult(discarded=f"E/refused:{type(e).__name__}")
    except ru.SolveCrashed as e:  # crashes are C04's verdict
        return CaseResult(discarded="E/crash(decided by C04):" + str(e)[:80])
    if kind == "xi1":
        e0, e1 = ops
        if not np.array_equal(e0, e1):
            d = np.abs(e1 - e0)
            res.fail(
                f"{ID}/E/xi1-not-identical/{where}",
                f"xif=1 with scheme {scheme}: operator differs from the unvaried one, max |diff| {d.max():.3e} at "
                f"{tuple(int(i) for i in np.unravel_index(d.argmax(), d.shape))}; order {case['order']}, method {case['method']}",
            )
        return res
    # relative to the size of the unvaried result at the largest coupling: one normalisation for all lambdas (at fixed
    # scales max|E| itself falls from ~7 to ~1 with the coupling on a small-x grid, which would eat one power)
    R, norm = [], None
    for i in range(len(lams)):
        e0, e1 = ops[2 * i], ops[2 * i + 1]
        if kind == "threshold":
            f0 = toy_input(case["pdf"], cards[2 * i]["xgrid"])
            e0, e1 = np.einsum("ajbk,bk->aj", e0, f0), np.einsum("ajbk,bk->aj", e1, f0)
        if norm is None:
            norm = float(np.max(np.abs(e0)))
        R.append(float(np.max(np.abs(e1 - e0))) / norm)
    if not all(math.isfinite(r) for r in R):
        res.fail(f"{ID}/E/non-finite/{where}", f"non-finite operator difference R={R}")
        return res
    if kind == "crossing":
        return _crossing_verdict(res, case, lams, ops, norm, where)
    usable = [r for r in R if r > 100 * E_NOISE]
    res.nontrivial = bool(R[0] > 100 * E_NOISE and len(usable) >= 2)
    if not res.nontrivial:
        res.classes.append("E/unusable")
        return res
    ex = local_exponents(usable)
    best = max(ex)
    res.classes.append(f"E/best-exp-n~{round((best - n) * 2) / 2:+.1f}")
    # local exponents that still rise towards n (Richardson value 2 e_last - e_prev reaching the threshold) are the
    # pre-asymptotic approach of correct code (thorough tier, NNLO crossing: 2.00, 2.56), not a lower-order term, which
    # would make them fall: undecided
    rising = len(ex) >= 2 and ex[-1] > ex[-2] and 2 * ex[-1] - ex[-2] >= n - E_THR
    if rising and not best >= n - E_THR:
        res.classes.append("E/undecided-rising")
    if not best >= n - E_THR and not rising:
        path = f"{'threshold' if thr else 'ffns'}"
        res.fail(
            f"{ID}/E/exponent/{where}/{path}",
            f"|E_{scheme} - E_unvaried| / |E(lambda=1)| = {['%.3e' % r for r in R]} for lambda={case['lambdas']}: local exponents "
            f"{['%.2f' % e for e in ex]}, required >= {n - E_THR:.1f} at order {case['order']}; xi^2={case['xi2']:.4g}, method "
            f"{case['method']}, nf={case['nf']}, alpha_em running={case['running']}, kind={kind}"
            + (f", {'up' if case['up'] else 'down'} across m={case['mass']:.3f} (inv={case['inv']})" if thr else ""),
        )
    return res


PIDS = [22, -6, -5, -4, -3, -2, -1, 21, 1, 2, 3, 4, 5, 6]


def _crossing_verdict(res, case, lams, ops, norm, where):
    """Deterministic crossing cases: input columns split into the partons active at the start and the heavy quark that is
    activated on the way (intrinsic input, upward paths only).  Varied and unvaried paths have the same segmentation and
    every factor (segments, matching) is within the working order on its own, so there is no interpolation floor from
    products of discretised operators (unlike C50) and the exponent is read at the two smallest usable lambdas."""
    n = case["order"][0]
    nfl = case["nf"]
    ffns = bool(case.get("ffns"))
    active = nfl if (case["up"] or ffns) else nfl + 1
    groups = {"active-input": [k for k, p in enumerate(PIDS) if p == 21 or 0 < abs(p) <= active]}
    if case["up"] and not ffns:
        groups["intrinsic-heavy-input"] = [k for k, p in enumerate(PIDS) if abs(p) == nfl + 1]
    path = "ffns-other-patch" if ffns else "threshold"
    nt = False
    for name, cols in groups.items():
        R = [float(np.max(np.abs(ops[2 * i + 1] - ops[2 * i])[:, :, cols, :])) / norm for i in range(len(lams))]
        idx = [i for i, r in enumerate(R) if r > 100 * E_NOISE]
        if len(idx) < 2:
            res.classes.append(f"E/crossing/{name}/unusable")
            continue
        nt = True
        loc = [math.log(R[i] / R[j]) / math.log(lams[i] / lams[j]) for i, j in zip(idx[:-1], idx[1:])]
        ex = loc[-1]
        res.classes.append(f"E/crossing/{name}/exp-n~{round((ex - n) * 2) / 2:+.1f}")
        if ex >= n - E_THR:
            continue
        # no verdict without asymptotic evidence: a low reading from only two usable lambdas, or local exponents that still
        # rise towards n (Richardson value reaching the threshold), are undecided
        if len(loc) < 2:
            res.classes.append(f"E/crossing/{name}/undecided-two-lambdas")
            continue
        if loc[-1] > loc[-2] and 2 * loc[-1] - loc[-2] >= n - E_THR:
            res.classes.append(f"E/crossing/{name}/undecided-rising")
            continue
        if loc[-2] >= n - E_THR:
            # one low reading after a good one is the signature of a sign change between two terms (seen on a 2-point grid:
            # 5.11, 1.03 on the unchanged tree), not of a settled lower power: undecided
            res.classes.append(f"E/crossing/{name}/undecided-single-low-reading")
            continue
        res.fail(
            f"{ID}/E/exponent/{where}/{path}/{name}",
            f"{name} columns: |E_{case['scheme']} - E_unvaried| / |E(lambda=1)| = {['%.3e' % r for r in R]} for lambda={lams}: local exponents "
            f"{['%.2f' % e for e in loc]} (usable lambdas), last {ex:.2f} < {n - E_THR:.1f} at order {case['order']}; xi^2={case['xi2']:.4g}, method "
            f"{case['method']}, nf {nfl}{'' if ffns else ('->' if case['up'] else '<-') + str(nfl + 1)} {'(fixed flavour, ' + ('up' if case['up'] else 'down') + ', alpha_s given at nf=' + str(nfl + 1) + ')' if ffns else ''} "
            f"around m={case['mass']:.3f} (inv={case['inv']}), variant {case.get('variant')}",
        )
    res.nontrivial = nt
    return res


def check_case(case):
    case = copy.deepcopy(case)
    if case["half"] == "K":
        return check_kernel(case)
    return check_e2e(case)

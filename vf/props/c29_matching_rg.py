"""C29 matching elements: momentum / quark-number sum rules and renormalisation-group structure in L."""

import math
import warnings

from hypothesis import strategies as st

from vf.core import CaseResult, exc_bucket
from vf.strategies import floats, log_floats

ID = "C29"
LEVEL = "exploration"
TECHNIQUE = (
    "generated (nf, L, N, family, mass scheme); oracle 1: conservation predicates at N->2 / N->1 (three-point "
    "extrapolation along a generated complex direction); oracle 2: the RG identity dA/dL = -gamma'A + A gamma(a(a',L)) "
    "- beta' dA/da' evaluated order by order with a five-point stencil in L on the code's own towers"
)
RULE = (
    "Hypothesis draws nf in 3..5, L in [-3,3] (70% with |L| in [0.2,3], 15% on the grid {-3,..,3}, 15% in [-0.2,0.2]), the mass "
    "scheme flag and either "
    "(sum) a direction phi along which N -> 2 and N -> 1 are approached with eps = 1e-4,1e-5,1e-6 and extrapolated to "
    "eps = 0, or (rg) a family in {unpolarized (orders 1-3), polarized (1-2), time_like (1)} and a complex N: 70% in the "
    "box Re 1.3..30, |Im| <= 30 (60% with |Im| >= 0.5), 15% on a circle of radius 1e-4..0.3 around N = 2, 15% on a circle of radius 1e-2..0.3 "
    "around N = 1 (polarised and non-singlet only, the unpolarised singlet has a genuine pole there). A fixed grid of "
    "51 enumerated cases is run in addition. Non-trivial: sum cases with |L| >= 0.2 (orders 2-3 are always included); "
    "rg cases with |L| >= 0.2, |Im N| >= 1e-5 and matching order >= 2 (time-like: order 1, the only one that exists). "
    "Distinct by the full case."
)
ASSUMPTIONS = [
    "trusted base: ekore's own anomalous dimensions (their values are the subject of C25/C27, their use here is only "
    "as input of the RG identity), numpy linear algebra, and the constants typed in vf/refs/e2_rg.py from the literature: "
    "beta_0, beta_1 (Herzog et al. 2017), pole-mass decoupling 2/3 L, 4/9 L^2 + 38/3 L + 14/3 (Chetyrkin-Kniehl-"
    "Steinhauser 1997 / Vogt 2004 eq. 2.43), m_pole = m(m)(1 + 4 C_F a)",
    "bases: (g, Sigma_light, h+) and (V_light, h-) with the embeddings derived in vf/refs/e2_rg.py; time-like uses the "
    "same embedding because eko stores the transposed kernels in the same (Sigma, g) slots",
    "only entries the documentation declares as encoded are asserted: the full matrix at order 1 for unpolarised "
    "space-like; the gluon and light-quark columns otherwise (Matching.rst: heavy-initiated NNLO/N3LO elements, "
    "polarised and time-like intrinsic elements are not encoded); the (h-, V) element, which Matching.rst documents "
    "as zero although gamma_nsv != gamma_ns- would require a log term at third order, is recorded as a class, not asserted",
    "RG tolerances, orders 1-2: 1e-10 relative to the sum of magnitudes of all terms entering the entry (plus 1e-4 of "
    "the largest such sum in the matrix, which covers the rounding of internally cancelling tiny elements); measured <= 3e-14",
    "RG tolerances, order 3, split by what limits them: (a) the variation of the mismatch over the five L-nodes involves "
    "only one- and two-loop ingredients and must vanish within 2e-6 of the same scale (ekore's two-loop anomalous "
    "dimensions use the approximate g3, test_as2.py atol 4e-5 on entries of size 30; measured <= 2.4e-7); (b) the "
    "L-independent mismatch confronts the code's exact log coefficient with ekore's MVV-parametrised three-loop "
    "anomalous dimensions (documented accuracy 1e-3): 2e-3 of |gamma2'| + |gamma2| of the entry (+1e-3 of the largest "
    "entry), measured <= 8.6e-4; for the heavy-quark row the scale is |a| + (nf+1)|b| of gamma = nf a + nf^2 b because "
    "parametrisation errors of a and b do not cancel like the values do, and (h+, Sigma), which confronts gamma_ps^(2), "
    "gets 1e-2 (measured <= 2.9e-3, attained for Re N < 1.6). A change of the L^1 coefficient of a third-order element "
    "below these sizes is therefore not visible in the RG part (it still is in the N=2 / N=1 sum rules)",
    "sum-rule scales: the elements are polynomials in L that cross zero inside the domain, so a column's scale is the "
    "largest sum of magnitudes of its entries at L and at the domain ends L = -3, 3; quark number at N=1 uses the same "
    "element at N=2. Tolerances: 1e-10 at order 1; momentum 1e-7 at order 2 (test_as2.py: atol 2e-6 on a column of "
    "size ~100; measured 1.6e-8), 1e-6 at order 3 (test_as3.py: atol 2e-4..2e-3 on columns of size 400-18000; measured "
    "<= 1.5e-7); number 1e-10 at order 2, 1e-6 at order 3 (test_as3.py atol 6e-5 on an element of size ~100; measured 1.3e-7)",
    "the MSbar variant must equal the pole-mass tower with L -> L - 8 C_F a re-expanded to second order "
    "(light columns), 1e-10; third order has no MSbar variant (Matching.rst) and is only run with pole masses",
    "an evaluation exactly at N = 2 / N = 1 that returns nan/inf is the removable singularity the repository's own "
    "tests document (1/(N-2)); it is counted (class exact-singular) and the extrapolated value decides",
]
LEVEL_TEXT = (
    "Exploration: the conservation laws and the RG identity are necessary conditions that any correct set of matching "
    "elements satisfies for every nf, L and N; they are sampled on generated points (not proven symbolically), the "
    "L-independent constants of each element are constrained only through the sum rules and the next order's logarithms."
)

FAMILIES = {"unpolarized": 3, "polarized": 2, "time_like": 1}
EPS = (1e-4, 1e-5, 1e-6)
H_STENCIL = 0.5

TOL_RG = {1: 1e-10, 2: 1e-10, 3: 2e-3}
TOL_RG3_LOGS = 2e-6  # L-dependent part of the third-order identity: limited by ekore's two-loop gammas (approximate g3)
TOL_RG3_HQ = 1e-2  # (h+, Sigma) at third order: confronts gamma_ps^(2), the least accurate MVV parametrisation
TOL_MOM = {1: 1e-10, 2: 1e-7, 3: 1e-6}
TOL_NUM = {1: 1e-10, 2: 1e-10, 3: 1e-6}
TOL_MSBAR = 1e-10

_OBS = None  # calibration aid: set to a dict to collect max(|residual| / scale) per sub-check


def _observe(key, ratio):
    if _OBS is not None and ratio == ratio:
        _OBS[key] = max(_OBS.get(key, 0.0), float(ratio))


SING_NAMES = ["g", "S", "h+"]
VAL_NAMES = ["V", "h-"]


# ----------------------------------------------------------------------------- generation


def _signed(lo, hi):
    return st.tuples(st.sampled_from([-1.0, 1.0]), floats(lo, hi)).map(lambda t: t[0] * t[1])


@st.composite
def _L(draw):
    # 70% |L| in [0.2, 3] (non-trivial by construction), 15% on the integer grid, 15% around L = 0
    # (explicit selector: one_of() would not honour repeated branches as weights)
    w = draw(st.integers(0, 19))
    if w < 14:
        return draw(_signed(0.2, 3.0))
    if w < 17:
        return float(draw(st.integers(-3, 3)))
    return draw(floats(-0.2, 0.2))


@st.composite
def _rg_case(draw):
    family = draw(st.sampled_from(["unpolarized", "unpolarized", "unpolarized", "polarized", "polarized", "time_like"]))
    nf = draw(st.integers(3, 5))
    L = draw(_L())
    where = draw(st.integers(0, 19))
    if where < 12:
        n = [draw(floats(1.3, 30.0)), draw(_signed(0.5, 30.0))]
    elif where < 14:
        n = [draw(floats(1.3, 30.0)), draw(floats(-0.5, 0.5))]
    elif where < 17:
        rho = draw(log_floats(1e-4, 0.3))
        phi = draw(floats(0.0, 2 * math.pi))
        n = [2.0 + rho * math.cos(phi), rho * math.sin(phi)]
    else:
        rho = draw(log_floats(1e-2, 0.3))
        phi = draw(floats(0.0, 2 * math.pi))
        n = [1.0 + rho * math.cos(phi), rho * math.sin(phi)]
    msbar = draw(st.booleans()) if family == "unpolarized" else False
    return {"kind": "rg", "family": family, "nf": nf, "L": L, "N": n, "msbar": msbar}


@st.composite
def _sum_case(draw):
    return {
        "kind": "sum",
        "nf": draw(st.integers(3, 5)),
        "L": draw(_L()),
        "phi": draw(floats(0.0, 2 * math.pi)),
        "msbar": draw(st.booleans()),
    }


def strategy(tier):
    return st.one_of(_rg_case(), _rg_case(), _rg_case(), _sum_case())


def enumerate_cases(tier):
    cases = []
    for nf in (3, 4, 5):
        for L in (-3.0, -1.0, 0.0, 0.5, 3.0):
            cases.append({"kind": "sum", "nf": nf, "L": L, "phi": 1.0, "msbar": False})
    for fam in FAMILIES:
        for nf in (3, 4, 5):
            for L, n in ((1.3, [3.3, 1.2]), (-2.0, [1.7, -6.0]), (0.0, [2.001, 0.001]), (2.5, [12.0, 0.0])):
                cases.append({"kind": "rg", "family": fam, "nf": nf, "L": L, "N": n, "msbar": False})
    return cases


def budget(tier):
    if tier == "quick":
        return dict(max_examples=1600, shards=8, wall_s=80, enum_shards=4, shrink_s=30)
    return dict(max_examples=24000, shards=16, wall_s=600, enum_shards=4, shrink_s=120)


# ----------------------------------------------------------------------------- repo access


def _towers(family, order, n, nf, L, msbar, singlet=True):
    """(A_singlet tower, A_non_singlet tower) of the code, as arrays (order,3,3), (order,2,2).

    ``singlet=False`` skips the singlet tower (it has a genuine pole at N = 1) and returns None in its place."""
    import numpy as np

    with warnings.catch_warnings():
        warnings.simplefilter("ignore", RuntimeWarning)
        if family == "unpolarized":
            import ekore.operator_matrix_elements.unpolarized.space_like as ome

            return (np.array(ome.A_singlet((order, 0), n, nf, L, msbar)) if singlet else None,
                    np.array(ome.A_non_singlet((order, 0), n, nf, L)))
        if family == "polarized":
            import ekore.operator_matrix_elements.polarized.space_like as ome

            return (np.array(ome.A_singlet((order, 0), n, nf, L)) if singlet else None,
                    np.array(ome.A_non_singlet((order, 0), n, L)))
        import ekore.operator_matrix_elements.unpolarized.time_like as ome

        return (np.array(ome.A_singlet((order, 0), n, L)) if singlet else None,
                np.array(ome.A_non_singlet((order, 0), n, L)))


def _gammas(family, order, n, nf):
    """ekore's anomalous dimensions: singlet tower, ns+, ns-, nsv towers."""
    v0 = (0, 0, 0, 0, 0, 0, 0)
    if family == "unpolarized":
        import ekore.anomalous_dimensions.unpolarized.space_like as ad

        return (ad.gamma_singlet((order, 0), n, nf, v0), ad.gamma_ns((order, 0), 10101, n, nf, v0),
                ad.gamma_ns((order, 0), 10201, n, nf, v0), ad.gamma_ns((order, 0), 10200, n, nf, v0))
    if family == "polarized":
        import ekore.anomalous_dimensions.polarized.space_like as ad
    else:
        import ekore.anomalous_dimensions.unpolarized.time_like as ad
    return (ad.gamma_singlet((order, 0), n, nf), ad.gamma_ns((order, 0), 10101, n, nf),
            ad.gamma_ns((order, 0), 10201, n, nf), ad.gamma_ns((order, 0), 10200, n, nf))


# ----------------------------------------------------------------------------- oracles


def _extrapolate(vals):
    """Quadratic extrapolation to eps = 0 of values sampled at EPS."""
    e = EPS
    out = 0.0
    for i in range(3):
        w = 1.0
        for j in range(3):
            if j != i:
                w *= (-e[j]) / (e[i] - e[j])
        out = out + w * vals[i]
    return out


def _check_sum(case, res):
    import numpy as np

    nf, L, phi, msbar = case["nf"], case["L"], case["phi"], case["msbar"]
    res.classes = ["sum", "sum/msbar" if msbar else "sum/pole", "sum/L=0" if L == 0 else "sum/L!=0"]
    res.nontrivial = abs(L) >= 0.2
    direction = complex(math.cos(phi), math.sin(phi))

    def tower_at(n, singlet=True):
        # third order exists for pole masses only; the MSbar flag acts on the second order
        return _towers("unpolarized", 3, n, nf, L, msbar, singlet)

    try:
        near2 = [tower_at(2.0 + e * direction) for e in EPS]
        near1 = [tower_at(1.0 + e * direction, False)[1] for e in EPS]
        # magnitudes: the elements are polynomials in L that cross zero inside the domain, so the scale of a column
        # is its largest magnitude over the L-domain, sampled at L and at the two ends L = -3, 3
        refs = [near2[-1]] + [_towers("unpolarized", 3, 2.0 + EPS[-1] * direction, nf, Lr, msbar) for Lr in (-3.0, 3.0)]
        exact2 = tower_at(2.0)
        exact1 = tower_at(1.0, False)[1]
    except Exception as e:  # noqa: BLE001
        res.fail(exc_bucket(f"{ID}/sum/call", e), repr(e))
        return
    for k in (1, 2, 3):
        if k == 3 and msbar:
            continue  # no MSbar variant at third order (documented)
        # ---- momentum, N -> 2
        cols = (0, 1, 2) if k == 1 else (0, 1)
        for c in cols:
            scale = max(float(np.abs(r[0][k - 1][:, c]).sum()) for r in refs)
            if scale == 0.0:
                continue
            lim = _extrapolate([t[0][k - 1][:, c].sum() for t in near2])
            _observe(f"momentum/{k}/{SING_NAMES[c]}", abs(lim) / scale)
            if not np.isfinite(lim) or abs(lim) > TOL_MOM[k] * scale:
                res.fail(
                    f"{ID}/momentum/order={k}/column={SING_NAMES[c]}",
                    f"sum over rows of A^({k})[:, {SING_NAMES[c]}] for N->2 (direction phi={phi:.3f}) is {lim!r}, "
                    f"column magnitude {scale:.4g}, allowed {TOL_MOM[k] * scale:.3g}; nf={nf}, L={L}, msbar={msbar}",
                )
            ex = exact2[0][k - 1][:, c].sum()
            if not np.isfinite(ex):
                res.classes.append(f"exact-singular/N=2/order={k}/{SING_NAMES[c]}")
            elif abs(ex) > TOL_MOM[k] * scale:
                res.fail(
                    f"{ID}/momentum-exact/order={k}/column={SING_NAMES[c]}",
                    f"column sum at N=2 exactly is {ex!r}, magnitude {scale:.4g}; nf={nf}, L={L}, msbar={msbar}",
                )
        # ---- quark number, N -> 1
        cols = (0, 1) if k == 1 else (0,)
        for c in cols:
            scale = max(float(abs(r[1][k - 1][c, c])) for r in refs)
            if scale == 0.0:
                continue
            lim = _extrapolate([t[k - 1][:, c].sum() for t in near1])
            _observe(f"number/{k}/{VAL_NAMES[c]}", abs(lim) / scale)
            if not np.isfinite(lim) or abs(lim) > TOL_NUM[k] * scale:
                res.fail(
                    f"{ID}/number/order={k}/column={VAL_NAMES[c]}",
                    f"sum over rows of A_ns^({k})[:, {VAL_NAMES[c]}] for N->1 is {lim!r}; the element at N=2 is "
                    f"{scale:.4g}, allowed {TOL_NUM[k] * scale:.3g}; nf={nf}, L={L}",
                )
            ex = exact1[k - 1][:, c].sum()
            if not np.isfinite(ex):
                res.classes.append(f"exact-singular/N=1/order={k}")
            elif abs(ex) > TOL_NUM[k] * scale:
                res.fail(
                    f"{ID}/number-exact/order={k}/column={VAL_NAMES[c]}",
                    f"column sum at N=1 exactly is {ex!r}, element at N=2 {scale:.4g}; nf={nf}, L={L}",
                )


def _asserted(family, k, dim, i, j):
    """Is entry (i, j) of order k documented as encoded?"""
    heavy = dim - 1
    if j == heavy:
        return family == "unpolarized" and k == 1
    if dim == 2 and i == heavy and k == 3:
        return False  # (h-, V): documented as zero, see ASSUMPTIONS
    return True


def _check_rg(case, res):
    import numpy as np

    from vf.refs import e2_rg as R

    family, nf, L, msbar = case["family"], case["nf"], case["L"], case["msbar"]
    n = complex(case["N"][0], case["N"][1])
    order = FAMILIES[family]
    if msbar and family == "unpolarized":
        order = 2
    d2, d1 = abs(n - 2.0), abs(n - 1.0)
    region = "near-2" if d2 <= 0.3 else ("near-1" if d1 <= 0.3 else "box")
    res.classes = ["rg", f"rg/{family}", f"rg/{region}", f"rg/order<={order}", "rg/msbar" if msbar else "rg/pole"]
    singlet_ok = not (family != "polarized" and d1 <= 0.3)  # genuine pole of the unpolarised singlet at N = 1
    res.nontrivial = abs(L) >= 0.2 and abs(n.imag) >= 1e-5 and (order >= 2 or family == "time_like")
    try:
        gh = _gammas(family, order, n, nf + 1)
        gl = _gammas(family, order, n, nf)
        pts = {d: _towers(family, order, n, nf, L + d * H_STENCIL, msbar, singlet_ok) for d in (-2, -1, 0, 1, 2)}
        pole = _towers(family, order, n, nf, L, False, singlet_ok) if msbar else None
    except Exception as e:  # noqa: BLE001
        res.fail(exc_bucket(f"{ID}/rg/call/{family}", e), repr(e))
        return
    sectors = []
    nf_lin = None
    if singlet_ok and order == 3:
        try:
            g1, g2 = _gammas(family, order, n, 1), _gammas(family, order, n, 2)
        except Exception as e:  # noqa: BLE001
            res.fail(exc_bucket(f"{ID}/rg/call/{family}", e), repr(e))
            return
        qg = (g1[0][2][0, 1], g2[0][2][0, 1])
        ps = (g1[0][2][0, 0] - g1[1][2], g2[0][2][0, 0] - g2[1][2])
        # value(nf) = nf*a + nf^2*b from nf = 1, 2
        nf_lin = [(2 * v1 - v2 / 2, v2 / 2 - v1) for v1, v2 in (qg, ps)]
    if singlet_ok:
        GH = [R.embed_high_singlet(gh[0][k], gh[1][k], nf) for k in range(order)]
        GL = [R.embed_low_singlet(gl[0][k]) for k in range(order)]
        sectors.append(("singlet", 0, GH, GL, SING_NAMES))
    VH = [R.embed_high_valence(gh[2][k], gh[3][k], nf) for k in range(order)]
    VL = [R.embed_low_valence(gl[3][k]) for k in range(order)]
    sectors.append(("valence", 1, VH, VL, VAL_NAMES))
    nodes = (-2, -1, 0, 1, 2)
    for name, idx, G_high, G_low, names in sectors:
        dim = len(names)
        # dA/dL at every node from the quartic through the five nodes (A_k is a polynomial of degree k <= 3 in L)
        der = R.node_derivatives([pts[d][idx] for d in nodes], H_STENCIL)
        rhs = {d: R.rg_rhs(list(pts[d][idx]), G_high, G_low, nf, L + d * H_STENCIL, order) for d in nodes}
        mag = R.rg_rhs(list(pts[0][idx]), G_high, G_low, nf, L, order, absolute=True)
        err = {d: [der[t][k] - rhs[d][k] for k in range(order)] for t, d in enumerate(nodes)}
        der0 = der[2]
        for k in range(1, order + 1):
            # scale of the piece of the identity that contains the k-loop anomalous dimensions (L-independent)
            top = np.abs(G_high[k - 1]) + np.abs(G_low[k - 1])
            if k == 3 and dim == 3:
                # heavy-quark row: gamma_qg/(nf+1), gamma_ps/(nf+1) with gamma = nf*a + nf^2*b; the parametrisation
                # errors of a and b do not cancel like the values do, so the scale is |a| + (nf+1)|b|
                top = top.copy()
                top[2, 0] = abs(nf_lin[0][0]) + (nf + 1) * abs(nf_lin[0][1])
                top[2, 1] = abs(nf_lin[1][0]) + (nf + 1) * abs(nf_lin[1][1])
            for i in range(dim):
                for j in range(dim):
                    e0 = err[0][k - 1][i, j]
                    scale = float(np.abs(mag[k - 1][i, j]) + abs(der0[k - 1][i, j])) + 1e-4 * float(
                        np.abs(mag[k - 1]).max())
                    spread = max(abs(err[d][k - 1][i, j] - e0) for d in nodes)
                    entry = f"{names[i]}<-{names[j]}"
                    if not _asserted(family, k, dim, i, j):
                        if j != dim - 1 and abs(e0) > 1e-10 * max(scale, 1e-300):
                            res.classes.append(f"documented-zero/{family}/order={k}/{entry}")
                        continue
                    if scale == 0.0 and e0 == 0.0 and spread == 0.0:
                        continue
                    if k < 3:
                        worst = max(abs(err[d][k - 1][i, j]) for d in nodes)
                        _observe(f"rg/{family}/{k}/{entry}/{region}", worst / scale)
                        bad = not np.isfinite(worst) or worst > TOL_RG[k] * scale
                        allowed = TOL_RG[k] * scale
                        shown = e0
                    else:
                        # third order: the L-dependence of the mismatch involves only exact ingredients ...
                        _observe(f"rg-logs/{family}/{k}/{entry}/{region}", spread / scale)
                        if not np.isfinite(spread) or spread > TOL_RG3_LOGS * scale:
                            res.fail(
                                f"{ID}/rg-logs/{family}/order={k}/{entry}",
                                f"the L-dependence of d/dL A^({k})[{names[i]},{names[j]}] deviates from the one required "
                                f"by renormalisation-group invariance: mismatch varies by {spread:.4g} over L = "
                                f"{L - 2 * H_STENCIL:.3g}..{L + 2 * H_STENCIL:.3g} (magnitude of the terms {scale:.4g}, "
                                f"allowed {TOL_RG3_LOGS * scale:.3g}); {family}, nf={nf}, N={n}",
                            )
                        # ... its constant part confronts the parametrised three-loop anomalous dimensions
                        pscale = float(top[i, j]) + 1e-3 * float(top.max())
                        tol = TOL_RG3_HQ if (dim == 3 and i == 2 and j == 1) else TOL_RG[3]
                        _observe(f"rg/{family}/{k}/{entry}/{region}", abs(e0) / pscale)
                        bad = not np.isfinite(e0) or abs(e0) > tol * pscale
                        allowed = tol * pscale
                        shown = e0
                        scale = pscale
                    if bad:
                        res.fail(
                            f"{ID}/rg/{family}/order={k}/{entry}",
                            f"d/dL A^({k})[{names[i]},{names[j]}] = {der0[k - 1][i, j]!r} but renormalisation-group "
                            f"invariance requires {rhs[0][k - 1][i, j]!r} (difference {shown!r}, reference magnitude "
                            f"{scale:.4g}, allowed {allowed:.3g}); {family}, nf={nf}, L={L}, N={n}, msbar={msbar}",
                        )
        der = der0
        # ---- MSbar variant = pole-mass tower at the shifted logarithm (second order, light columns)
        if msbar and order >= 2:
            want = pole[idx][1] + R.POLE_TO_MSBAR_SHIFT * der[0]
            got = pts[0][idx][1]
            for i in range(dim):
                for j in range(dim - 1):
                    scale = float(abs(pole[idx][1][i, j]) + abs(R.POLE_TO_MSBAR_SHIFT * der[0][i, j]))
                    if scale == 0.0 and got[i, j] == 0.0:
                        continue
                    _observe(f"msbar/{names[i]}<-{names[j]}", abs(got[i, j] - want[i, j]) / scale)
                    if abs(got[i, j] - want[i, j]) > TOL_MSBAR * scale:
                        res.fail(
                            f"{ID}/msbar-shift/order=2/{names[i]}<-{names[j]}",
                            f"A^(2)[{names[i]},{names[j]}] with MSbar masses is {got[i, j]!r}, the pole-mass element "
                            f"with L -> L - 8 C_F a gives {want[i, j]!r}; nf={nf}, L={L}, N={n}",
                        )
            # first order must not depend on the scheme flag
            if np.abs(pts[0][idx][0] - pole[idx][0]).max() != 0.0:
                res.fail(f"{ID}/msbar-shift/order=1", f"first-order elements depend on is_msbar; nf={nf}, L={L}, N={n}")


def check_case(case):
    res = CaseResult()
    if case["kind"] == "sum":
        _check_sum(case, res)
    else:
        _check_rg(case, res)
    res.classes = sorted(set(res.classes))
    return res

"""C32 evolution-basis operator members blown up to the flavour-basis rank-4 tensor."""

from fractions import Fraction as F

from hypothesis import strategies as st

from vf.core import CaseResult, exc_bucket
from vf.refs import flavor_ref as fr

ID = "C32"
LEVEL = "exploration"
TECHNIQUE = (
    "generated member sets (physical-operator map, matching-condition map, free nf_in x nf_out label sets) with "
    "small-integer member matrices; oracle = exact change of basis Binv_out * E * B_in built from the documented "
    "intrinsic bases with a true Fraction matrix inverse"
)
RULE = (
    "Hypothesis draws (kind, QCD/QED, nf or nf_in/nf_out in 3..6, grid size k in 2..3, integer seed for the member "
    "matrices with entries -5..5, optional members to drop). kind=evol: labels produced by "
    "PhysicalOperator.ad_to_evol_map; kind=match: labels produced by MatchingCondition.split_ad_to_evol_map (nf "
    "3..5 below the threshold); kind=free: a random set of target.input pairs with targets in the documented "
    "intrinsic basis for nf_out and inputs in the one for nf_in (always containing the highest T label on either "
    "side, which is how the code infers nf). The tensor returned by to_flavor_basis_tensor must equal, entry by "
    "entry, Binv(nf_out)[a,t] * M_ts[i,j] * B(nf_in)[s,b] summed over members, where B is the 14x14 matrix of the "
    "documented intrinsic basis (h+- rows for inactive quarks) and Binv its exact inverse; the error tensor obeys "
    "the same linear map. Non-trivial = at least one off-diagonal member (target != input) and nf_out != 3; "
    "distinct by (kind, qed, nf_in, nf_out, sorted labels, seed, k)."
)
ASSUMPTIONS = [
    "intrinsic (unified) evolution bases typed from FlavorSpace.rst (vf/refs/flavor_ref.py); nf_in/nf_out are the "
    "ones the case was generated with, not the ones the code infers",
    "member matrices have integer entries |m| <= 5, so the reference (exact Fractions) and the float tensor may differ "
    "only by rounding: tolerance 1e-12 absolute on entries of size O(10)",
    "a member set always contains a member with the highest active T label as target (resp. input), the documented "
    "assumption of flavors.get_range",
]
LEVEL_TEXT = (
    "The label-set space of the two production maps is exhausted (4 nf x 2 bases + 3 nf x 2 bases) and the free "
    "nf_in x nf_out sets are sampled; member values are sampled, but the map is linear in them so a handful of "
    "random integer matrices per label set decides it. Exploration level because free label sets are sampled."
)

TOL = 1e-12
NFS = (3, 4, 5, 6)


def strategy(tier):
    base = dict(qed=st.sampled_from((0, 1)), k=st.sampled_from((2, 3)), seed=st.integers(0, 2**20))
    nfs = st.sampled_from(NFS)
    evol = st.fixed_dictionaries(
        dict(kind=st.just("evol"), nf=nfs, drop=st.lists(st.integers(0, 40), max_size=3), **base)
    )
    match = st.fixed_dictionaries(
        dict(kind=st.just("match"), nf=st.sampled_from((3, 4, 5)), drop=st.lists(st.integers(0, 40), max_size=3), **base)
    )
    free = st.fixed_dictionaries(
        dict(
            kind=st.just("free"),
            nf_in=nfs,
            nf_out=nfs,
            pairs=st.lists(st.tuples(st.integers(0, 13), st.integers(0, 13)).map(list), min_size=1, max_size=24),
            **base,
        )
    )
    return st.one_of(evol, match, free, free)


def enumerate_cases(tier):
    """Every label set of the two production maps once, with a fixed seed (the exhaustive part)."""
    cases = []
    for qed in (0, 1):
        for nf in NFS:
            cases.append({"kind": "evol", "qed": qed, "nf": nf, "k": 2, "seed": 7, "drop": []})
        for nf in (3, 4, 5):
            cases.append({"kind": "match", "qed": qed, "nf": nf, "k": 2, "seed": 7, "drop": []})
    return cases


# --------------------------------------------------------------------------- building the members (code under test)

_AD_KEYS_QCD = [(100, 100), (100, 21), (21, 100), (21, 21), (10200, 0), (10201, 0), (10101, 0)]
_OME_KEYS = [(100, 100), (100, 21), (21, 100), (21, 21), (200, 200), (90, 100), (90, 21), (90, 90), (100, 90), (21, 90), (91, 91)]  # fmt: skip


def _highest_t(nf, qed):
    if qed:
        return {3: "Td3", 4: "Tu3", 5: "Td8", 6: "Tu8"}[nf]
    return f"T{nf * nf - 1}"


def _rand_members(keys, k, rng):
    from eko import member

    out = {}
    for key in keys:
        val = rng.integers(-5, 6, size=(k, k)).astype(float)
        err = rng.integers(0, 6, size=(k, k)).astype(float)
        out[key] = member.OpMember(val, err)
    return out


def _build(case, res):
    """Returns (operator, nf_in, nf_out) or None."""
    import numpy as np
    from eko import member
    from eko.evolution_operator.matching_condition import MatchingCondition
    from eko.evolution_operator.physical import PhysicalOperator

    qed, k = bool(case["qed"]), case["k"]
    rng = np.random.default_rng(case["seed"])
    kind = case["kind"]
    if kind == "evol":
        nf = case["nf"]
        keys = list(fr.QED_SECTOR_LABELS) if qed else _AD_KEYS_QCD
        opm = _rand_members(keys, k, rng)
        try:
            op = PhysicalOperator.ad_to_evol_map(opm, nf, 10.0, qed)
        except Exception as e:  # noqa: BLE001
            res.fail(exc_bucket(f"{ID}/ad_to_evol_map/qed={int(qed)}", e), f"nf={nf}: {e!r}")
            return None
        nf_in = nf_out = nf
    elif kind == "match":
        nf = case["nf"]
        opm = _rand_members(_OME_KEYS, k, rng)
        try:
            op = MatchingCondition.split_ad_to_evol_map(opm, nf, 10.0, qed)
        except Exception as e:  # noqa: BLE001
            res.fail(exc_bucket(f"{ID}/split_ad_to_evol_map/qed={int(qed)}", e), f"nf={nf}: {e!r}")
            return None
        nf_in = nf_out = nf
    else:
        nf_in, nf_out = case["nf_in"], case["nf_out"]
        tgt, src = list(fr.intrinsic(nf_out, qed)), list(fr.intrinsic(nf_in, qed))
        names = []
        for it, js in case["pairs"]:
            nm = f"{tgt[it]}.{src[js]}"
            if nm not in names:
                names.append(nm)
        # the members from which nf is inferred (documented assumption of get_range)
        for nm in (f"{_highest_t(nf_out, qed)}.{src[case['pairs'][0][1]]}", f"{tgt[case['pairs'][0][0]]}.{_highest_t(nf_in, qed)}"):
            if nm not in names:
                names.append(nm)
        op = member.OperatorBase.promote_names(_rand_members(names, k, rng), 10.0)
    if kind in ("evol", "match") and case.get("drop"):
        keep_t, keep_s = _highest_t(nf_out, qed), _highest_t(nf_in, qed)
        keys = list(op.op_members)
        for d in case["drop"]:
            key = keys[d % len(keys)]
            # never drop the members that carry the nf information
            if key.target == keep_t or key.input == keep_s or key not in op.op_members or len(op.op_members) <= 1:
                continue
            del op.op_members[key]
    return op, nf_in, nf_out


# --------------------------------------------------------------------------- reference

_CACHE = {}


def _lcm_den(mat):
    import math

    den = 1
    for row in mat:
        for x in row:
            den = den * x.denominator // math.gcd(den, x.denominator)
    return den


def _basis_and_inverse(nf, qed, pids):
    """Documented intrinsic basis B (rows = labels, columns = pids) and its exact inverse, as integer arrays with
    their common denominators: B = b_int / b_den, B^-1 = inv_int / inv_den (inverse rows = pids, columns = labels)."""
    import numpy as np

    key = (nf, bool(qed), tuple(pids))
    if key not in _CACHE:
        b = fr.intrinsic(nf, qed)
        labels = list(b)
        mat = fr.basis_matrix(b, labels, pids)
        inv = fr.mat_inverse(mat)  # exact Gauss-Jordan in Fractions, no orthogonality assumed
        b_den, inv_den = _lcm_den(mat), _lcm_den(inv)
        b_int = np.array([[int(x * b_den) for x in row] for row in mat], dtype=np.int64)
        inv_int = np.array([[int(x * inv_den) for x in row] for row in inv], dtype=np.int64)
        _CACHE[key] = (labels, b_int, b_den, inv_int, inv_den)
    return _CACHE[key]


def _reference(members, nf_in, nf_out, qed, pids, k, which):
    """Exact tensor sum_members Binv_out[a,t] M_ts[i,j] B_in[s,b] as (int64 numerator array [a,i,b,j], denominator)."""
    import numpy as np

    lin, b_int, b_den, _, _ = _basis_and_inverse(nf_in, qed, pids)
    lout, _, _, inv_int, inv_den = _basis_and_inverse(nf_out, qed, pids)
    n = len(pids)
    num = np.zeros((n, k, n, k), dtype=np.int64)
    for (t, s), mats in members.items():
        ti, si = lout.index(t), lin.index(s)
        num += np.einsum("a,ij,b->aibj", inv_int[:, ti], mats[which], b_int[si, :])
    return num, b_den * inv_den


def check_case(case):
    import numpy as np
    from eko import basis_rotation as br

    res = CaseResult()
    qed = bool(case["qed"])
    built = _build(case, res)
    if built is None:
        return res
    op, nf_in, nf_out = built
    k = case["k"]
    names = sorted(str(nm) for nm in op.op_members)
    offdiag = any(nm.target != nm.input for nm in op.op_members)
    res.nontrivial = offdiag and nf_out != 3
    res.key = [case["kind"], int(qed), nf_in, nf_out, names, case["seed"], k]
    res.classes = [
        f"kind={case['kind']}",
        f"{'qed' if qed else 'qcd'}",
        f"nf_in={nf_in}",
        f"nf_out={nf_out}",
        "nf_in!=nf_out" if nf_in != nf_out else "nf_in==nf_out",
        "offdiag" if offdiag else "diag-only",
        "dropped" if case.get("drop") else "full",
    ]
    pids = tuple(int(p) for p in br.flavor_basis_pids)
    if sorted(pids) != sorted(fr.FLAVOR_PIDS):
        raise AssertionError("flavor_basis_pids is not the documented parton set (decided by C31)")

    # members as exact integers, labels validated against the documented bases (generator soundness)
    lin, lout = fr.intrinsic(nf_in, qed), fr.intrinsic(nf_out, qed)
    members = {}
    for nm, om in op.op_members.items():
        t, s = nm.target, nm.input
        if t not in lout or s not in lin:
            res.fail(
                f"{ID}/labels/{case['kind']}/qed={int(qed)}",
                f"member {nm} is not a pair of the documented intrinsic bases (nf_out={nf_out}, nf_in={nf_in})",
            )
            return res
        val = np.rint(np.asarray(om.value)).astype(np.int64)
        err = np.rint(np.asarray(om.error)).astype(np.int64)
        if not (np.array_equal(np.asarray(om.value), np.rint(om.value)) and np.array_equal(np.asarray(om.error), np.rint(om.error))):
            raise AssertionError("harness: member matrices are expected to be integer valued")
        members[(t, s)] = (val, err)

    coords = f"qed={int(qed)}/{'nf_in==nf_out' if nf_in == nf_out else 'nf_in!=nf_out'}"
    try:
        value, error = op.to_flavor_basis_tensor(qed)
    except Exception as e:  # noqa: BLE001
        res.fail(exc_bucket(f"{ID}/call/{coords}", e), f"nf_in={nf_in} nf_out={nf_out} members={names}: {e!r}")
        return res
    n = len(pids)
    for which, name, got in ((0, "value", value), (1, "error", error)):
        got = np.asarray(got)
        if got.shape != (n, k, n, k):
            res.fail(f"{ID}/shape/{coords}", f"{name} tensor has shape {got.shape}, expected {(n, k, n, k)}")
            continue
        num, den = _reference(members, nf_in, nf_out, qed, pids, k, which)
        refarr = num / float(den)  # integers below 2^53: one correctly rounded division per entry
        diff = np.abs(got - refarr)
        if not np.all(np.isfinite(got)) or diff.max() > TOL:
            a, i, b, j = np.unravel_index(np.nanargmax(np.where(np.isfinite(diff), diff, np.inf)), diff.shape)
            if name == "error" and res.violations:
                continue  # same linear map as the value tensor: one root cause, one bucket
            res.fail(
                f"{ID}/{name}-tensor/{coords}",
                f"nf_in={nf_in} nf_out={nf_out} qed={qed}: tensor[{pids[a]},{i},{pids[b]},{j}] = {got[a, i, b, j]!r}, "
                f"exact change of basis gives {F(int(num[a, i, b, j]), den)} (= {refarr[a, i, b, j]!r}); max |diff| = {diff.max():.3e}; "
                f"members = {names}",
            )
    return res


def budget(tier):
    if tier == "quick":
        return dict(max_examples=400, shards=4, wall_s=60, enum_shards=2, shrink_s=20)
    return dict(max_examples=6000, shards=16, wall_s=600, enum_shards=2)

"""C25 momentum / fermion-number / axial sum rules of every anomalous-dimension family; FHMRUVV central = mean."""

from fractions import Fraction as F

from vf.core import CaseResult, exc_bucket

ID = "C25"
LEVEL = "exploration"
TECHNIQUE = (
    "exhaustive enumeration of (family, nf, order, N3LO family, variation index, direction of approach); oracle: "
    "conservation predicates derived from physics, evaluated at N -> 2 / N -> 1 by extrapolation from the complex plane"
)
RULE = (
    "Exhaustive product: unpolarised space-like nf 3-6 x orders 1-3 x three directions of approach; N3LO: FHMRUVV nf 3-5 "
    "x {central, each of the 7 entries at 1 and 2, all at 1, all at 2}, aN3LO nf 3-6 x {central, gg 1-19, gq 1-15, qg "
    "1-15, qq 1-6}; time-like and polarised nf 3-6 x orders 1-3 x three directions; QED grids nf 3-6 x entries (1,0), "
    "(0,1), (1,1), (2,0), (0,2), (3,0) and (4,0) in both N3LO families (FHMRUVV also all-1 / all-2); FHMRUVV mean: nf "
    "3-5 x 7 entries x 7 complex N x 2 base variations through every public tower. Each sum rule is evaluated as the "
    "limit N -> 2 (N -> 1) of N0 + eps e^{i phi}, eps = 1e-4, 1e-5, 1e-6 extrapolated to 0, and additionally exactly at the "
    "integer where the expression is finite there. Non-trivial: everything except the nf=5 central cases at orders 2-4 "
    "that tests/ekore already pin (test_as2/3/4*.py); distinct by the full case."
)
ASSUMPTIONS = [
    "predicates: unpolarised: (1,1).gamma_S(N=2) = 0, gamma_ns-(1) = gamma_nsv(1) = 0; time-like (fragmentation "
    "functions, sum over hadrons of the second moment equals 1 for every parton): gamma_S(N=2).(2nf,1)^T = 0 with eko's "
    "layout [[qq, gq],[qg, gg]] acting on (D_Sigma, D_g), gamma_ns-(1) = gamma_nsv(1) = 0; polarised: the sector eko calls "
    "ns+ (pQCD.rst: plus and minus are swapped) vanishes at N=1, gamma_qg(1) = 0, gamma_gg(1) = -beta_k; QED: rows g + "
    "photon + Sigma of every column of the 4x4 matrix vanish at N=2, the whole valence 2x2 matrix and ns-,u / ns-,d vanish "
    "at N=1 (each flavour number is conserved separately)",
    "beta_0..2 typed here from Herzog et al. 2017 eq. 3.1-3.3 (Nc=3, a = alpha_s/4pi)",
    "scales: an entry at one nf can be small by cancellation between powers of nf (gamma_qg^(2)(N=2) is 3.9 at nf=3 "
    "and 162 at nf=5) while parametrisation errors do not cancel, so a column's scale is its largest entry over the nf "
    "domain (3-6; FHMRUVV 3-5); functions that vanish at N=1 use their own magnitude at N=2 over the nf domain; "
    "gamma_gg(1) + beta_k uses the sum of magnitudes of the nf-terms of beta_k",
    "tolerances (fixed, relative to those scales, 3-6x the largest residual measured on the unchanged tree and never "
    "above the accuracy documented for the parametrisation): exact expressions (order 1, O(aem)) 1e-10 [measured 5e-15]; "
    "entries built on the approximate g3 (as2, as1aem1, aem2, time-like as2, polarised as2) 5e-6 [test_as2.py: atol 4e-5 on "
    "entries of size 30; measured <= 1.7e-6]; as3 MVV parametrisations 1e-4 [documented 1e-3; test_as3.py pins residuals "
    "of 4e-3 on entries of size 160-450; measured <= 2.5e-5]; time-like as3 5e-5 [measured <= 1.1e-5]; polarised as3 "
    "1e-4 [test_ad_as3.py rtol 2e-5..7e-4; measured <= 1.6e-5]; N3LO FHMRUVV 5e-4 [test_as4_fhmv.py pins residuals "
    "0.05-0.34 on entries of size 3e3-6e3; measured <= 1.3e-4]; aN3LO family 5e-8 for momentum and ns- [sum rules imposed "
    "there; measured <= 4.7e-9] and 2e-6 for nsv, whose nf^1 sea part has the documented residual 4.0e-4 "
    "(test_as4.py gamma_nss_nf1(N=1); measured 4.6e-7 of the scale)",
    "FHMRUVV central = mean(variation 1, variation 2): 1e-11 relative to the largest of the three values of the element "
    "(entries up to 1e6 cancel to 1e3 inside the parametrisations)",
    "an evaluation exactly at the integer that raises ZeroDivisionError or returns nan/inf is the removable singularity "
    "documented in tests/ekore (test_as4.py evaluates gamma_nss at N + 1e-8): counted as class exact-singular, the limit decides",
]
LEVEL_TEXT = (
    "Exploration with an exhaustive finite domain: every (family, nf, order, variation) combination the property "
    "quantifies over is evaluated once; the predicates are necessary conditions, so a pass means no conservation law is "
    "broken beyond the documented accuracy, not that each entry is correct (a change that respects the sum rule is invisible)."
)

V0 = [0, 0, 0, 0, 0, 0, 0]
PHIS = (0.7, 2.9, 4.6)
AN3LO_MAX = {0: 19, 1: 15, 2: 15, 3: 6}
QED_ENTRIES = [(1, 0), (0, 1), (1, 1), (2, 0), (0, 2), (3, 0)]
MEAN_N = [[2.0, 0.0], [1.2, 0.3], [3.3, 1.2], [1.5, -4.0], [0.7, 2.0], [12.0, 0.0], [25.5, -30.0]]

# fixed tolerances, see ASSUMPTIONS
TOL = {
    "exact": 1e-10,
    "as2": 5e-6,
    "as3": 1e-4,
    "tl_as3": 5e-5,
    "pol_as3": 1e-4,
    "fhmruvv": 5e-4,
    "an3lo": 5e-8,
    "an3lo_nsv": 2e-6,
}
TOL_MEAN = 1e-11

_OBS = None  # calibration aid


def _observe(key, ratio):
    if _OBS is not None and ratio == ratio:
        _OBS[key] = max(_OBS.get(key, 0.0), float(ratio))


# ----------------------------------------------------------------------------- literature: beta function (Nc = 3)

BETA = {
    0: [F(11), F(-2, 3)],
    1: [F(102), F(-38, 3)],
    2: [F(2857, 2), F(-5033, 18), F(325, 54)],
}


def beta_value(k, nf):
    return float(sum(c * nf**i for i, c in enumerate(BETA[k])))


def beta_magnitude(k, nf):
    return float(sum(abs(c) * nf**i for i, c in enumerate(BETA[k])))


# ----------------------------------------------------------------------------- enumeration


def _fh_variations():
    out = [list(V0)]
    for i in range(7):
        for v in (1, 2):
            w = list(V0)
            w[i] = v
            out.append(w)
    out += [[1] * 7, [2] * 7]
    return out


def _an_variations():
    out = [list(V0)]
    for i, m in AN3LO_MAX.items():
        for v in range(1, m + 1):
            w = list(V0)
            w[i] = v
            out.append(w)
    return out


def enumerate_cases(tier):
    cases = []
    for nf in (3, 4, 5, 6):
        for order in (1, 2, 3):
            for phi in PHIS:
                cases.append({"kind": "sl", "nf": nf, "order": order, "phi": phi})
                cases.append({"kind": "tl", "nf": nf, "order": order, "phi": phi})
                cases.append({"kind": "pol", "nf": nf, "order": order, "phi": phi})
    for nf in (3, 4, 5):
        for var in _fh_variations():
            for phi in (PHIS if var in (V0, [1] * 7, [2] * 7) else PHIS[:1]):
                cases.append({"kind": "sl4", "nf": nf, "family": "fhmruvv", "var": var, "phi": phi})
    for nf in (3, 4, 5, 6):
        for var in _an_variations():
            for phi in (PHIS if var == V0 else PHIS[:1]):
                cases.append({"kind": "sl4", "nf": nf, "family": "an3lo", "var": var, "phi": phi})
    for nf in (3, 4, 5, 6):
        for entry in QED_ENTRIES:
            for phi in PHIS:
                cases.append({"kind": "qed", "nf": nf, "entry": list(entry), "family": "fhmruvv", "var": V0, "phi": phi})
        for phi in PHIS:
            cases.append({"kind": "qed", "nf": nf, "entry": [4, 0], "family": "an3lo", "var": V0, "phi": phi})
        if nf <= 5:
            for var in (V0, [1] * 7, [2] * 7):
                for phi in PHIS:
                    cases.append({"kind": "qed", "nf": nf, "entry": [4, 0], "family": "fhmruvv", "var": var, "phi": phi})
    for nf in (3, 4, 5):
        for index in range(7):
            for n in MEAN_N:
                for base in ([0] * 7, [2, 1, 2, 1, 2, 1, 2]):
                    cases.append({"kind": "mean", "nf": nf, "index": index, "N": n, "base": base})
    return cases


def budget(tier):
    return dict(enum_shards=8, wall_s=120)


# ----------------------------------------------------------------------------- generic evaluation of one rule


def _finite(x):
    import numpy as np

    return bool(np.all(np.isfinite(np.asarray(x))))


def _rule(res, name, f, n0, phi, scale, tol, info):
    """Assert |lim_{N->n0} f(N)| <= tol * scale (elementwise) and the same for the exact integer if finite there."""
    import numpy as np

    from vf.refs import e2_limits as lim

    scale = np.asarray(scale, dtype=float)
    try:
        val = np.atleast_1d(np.asarray(lim.limit(f, n0, phi), dtype=complex))
    except Exception as e:  # noqa: BLE001
        res.fail(exc_bucket(f"{ID}/call/{name}", e), f"{info}: N->{n0}: {e!r}")
        return
    scale = np.broadcast_to(np.atleast_1d(scale), val.shape)
    for i, (v, s) in enumerate(zip(val, scale)):
        if s == 0.0 and v == 0.0:
            continue
        ratio = abs(v) / s if s > 0 else float("inf")
        _observe(name, ratio)
        if not np.isfinite(v) or ratio > tol:
            res.fail(
                f"{ID}/{name}",
                f"{info}: component {i} of the sum rule is {v!r} for N -> {n0} along phi={phi} (scale {s:.6g}, "
                f"allowed {tol * s:.3g})",
            )
    try:
        import warnings

        with warnings.catch_warnings():
            warnings.simplefilter("ignore", RuntimeWarning)
            ex = np.atleast_1d(np.asarray(f(complex(n0)), dtype=complex))
    except ZeroDivisionError:
        res.classes.append(f"exact-singular/{name}")
        return
    except Exception as e:  # noqa: BLE001
        res.fail(exc_bucket(f"{ID}/call-exact/{name}", e), f"{info}: N={n0}: {e!r}")
        return
    if not _finite(ex):
        res.classes.append(f"exact-singular/{name}")
        return
    for i, (v, s) in enumerate(zip(ex, scale)):
        if s == 0.0 and v == 0.0:
            continue
        if s == 0.0 or abs(v) / s > tol:
            res.fail(
                f"{ID}/{name}/exact",
                f"{info}: component {i} of the sum rule is {v!r} exactly at N = {n0} (scale {s:.6g}, allowed {tol * s:.3g})",
            )


def _near(n0, phi):
    from vf.refs import e2_limits as lim

    return lim.points(n0, phi)[-1]


def _colmax(mats):
    """Largest |entry| per column over a list of matrices (the nf domain)."""
    import numpy as np

    return np.max([np.abs(m).max(axis=0) for m in mats], axis=0)


# ----------------------------------------------------------------------------- families


def _sl_tol(order, family=None):
    if order == 1:
        return TOL["exact"]
    if order == 2:
        return TOL["as2"]
    if order == 3:
        return TOL["as3"]
    return TOL[family]


def _check_sl(case, res):
    import ekore.anomalous_dimensions.unpolarized.space_like as ad

    nf, phi = case["nf"], case["phi"]
    if case["kind"] == "sl":
        order, fh, var, fam, dom = case["order"], True, tuple(V0), None, (3, 4, 5, 6)
        label = f"unpolarized/order={order}"
    else:
        order, fam, var = 4, case["family"], tuple(case["var"])
        fh = fam == "fhmruvv"
        dom = (3, 4, 5) if fh else (3, 4, 5, 6)
        label = f"unpolarized/order=4/{fam}"
    tol = _sl_tol(order, fam)
    info = f"nf={nf}, variation={list(var)}"
    res.classes = [label, f"nf={nf}"]
    res.nontrivial = not (nf == 5 and order >= 2 and list(var) == V0)

    def S(n, f=nf):
        return ad.gamma_singlet((order, 0), n, f, var, fh)[order - 1]

    def ns(mode):
        return lambda n, f=nf: ad.gamma_ns((order, 0), mode, n, f, var, fh)[order - 1]

    try:
        sc = _colmax([S(_near(2, phi), f) for f in dom])
        sc_m = max(abs(ns(10201)(2.0 + 0j, f)) for f in dom)
        sc_v = max(abs(ns(10200)(2.0 + 0j, f)) for f in dom)
    except Exception as e:  # noqa: BLE001
        res.fail(exc_bucket(f"{ID}/call/{label}", e), f"{info}: {e!r}")
        return
    _rule(res, f"momentum/{label}", lambda n: S(n).sum(axis=0), 2, phi, sc, tol, info)
    _rule(res, f"number-minus/{label}", ns(10201), 1, phi, sc_m, tol, info)
    _rule(res, f"number-valence/{label}", ns(10200), 1, phi, sc_v, TOL["an3lo_nsv"] if fam == "an3lo" else tol, info)


def _check_tl(case, res):
    import numpy as np

    import ekore.anomalous_dimensions.unpolarized.time_like as ad

    nf, order, phi = case["nf"], case["order"], case["phi"]
    label = f"time_like/order={order}"
    tol = {1: TOL["exact"], 2: TOL["as2"], 3: TOL["tl_as3"]}[order]
    info = f"nf={nf}"
    res.classes = [label, f"nf={nf}"]

    def S(n, f=nf):
        return ad.gamma_singlet((order, 0), n, f)[order - 1]

    def ns(mode):
        return lambda n, f=nf: ad.gamma_ns((order, 0), mode, n, f)[order - 1]

    dom = (3, 4, 5, 6)
    try:
        sc = np.max([np.abs(S(_near(2, phi), f) * np.array([2.0 * f, 1.0])).max(axis=1) for f in dom], axis=0)
        sc_m = max(abs(ns(10201)(2.0 + 0j, f)) for f in dom)
        sc_v = max(abs(ns(10200)(2.0 + 0j, f)) for f in dom)
    except Exception as e:  # noqa: BLE001
        res.fail(exc_bucket(f"{ID}/call/{label}", e), f"{info}: {e!r}")
        return
    vec = np.array([2.0 * nf, 1.0])
    _rule(res, f"momentum/{label}", lambda n: S(n) @ vec, 2, phi, sc, tol, info)
    _rule(res, f"number-minus/{label}", ns(10201), 1, phi, sc_m, tol, info)
    _rule(res, f"number-valence/{label}", ns(10200), 1, phi, sc_v, tol, info)


def _check_pol(case, res):
    import ekore.anomalous_dimensions.polarized.space_like as ad

    nf, order, phi = case["nf"], case["order"], case["phi"]
    label = f"polarized/order={order}"
    tol = {1: TOL["exact"], 2: TOL["as2"], 3: TOL["pol_as3"]}[order]
    info = f"nf={nf}"
    res.classes = [label, f"nf={nf}"]
    dom = (3, 4, 5, 6)

    def S(n, f=nf):
        return ad.gamma_singlet((order, 0), n, f)[order - 1]

    def nsp(n, f=nf):
        return ad.gamma_ns((order, 0), 10101, n, f)[order - 1]

    try:
        sc_qg = max(abs(S(2.0 + 0j, f)[0, 1]) for f in dom)
        sc_ns = max(abs(nsp(2.0 + 0j, f)) for f in dom)
    except Exception as e:  # noqa: BLE001
        res.fail(exc_bucket(f"{ID}/call/{label}", e), f"{info}: {e!r}")
        return
    b = beta_value(order - 1, nf)
    _rule(res, f"axial-ns/{label}", nsp, 1, phi, sc_ns, tol, info)
    _rule(res, f"helicity-qg/{label}", lambda n: S(n)[0, 1], 1, phi, sc_qg, tol, info)
    _rule(res, f"gg-beta/{label}", lambda n: S(n)[1, 1] + b, 1, phi, beta_magnitude(order - 1, nf), tol,
          info + f", beta_{order - 1}={b!r}")


def _qed_tol(entry, family):
    a, b = entry
    if (a, b) in ((1, 0), (0, 1)):
        return TOL["exact"]
    if (a, b) in ((1, 1), (2, 0), (0, 2)):
        return TOL["as2"]
    if (a, b) == (3, 0):
        return TOL["as3"]
    return TOL[family]


def _check_qed(case, res):
    import numpy as np

    import ekore.anomalous_dimensions.unpolarized.space_like as ad

    nf, phi, fam = case["nf"], case["phi"], case["family"]
    a, b = case["entry"]
    var = tuple(case["var"])
    fh = fam == "fhmruvv"
    label = f"qed/entry={a},{b}" + (f"/{fam}" if a == 4 else "")
    tol = _qed_tol((a, b), fam)
    info = f"nf={nf}, variation={list(var)}"
    res.classes = [label, f"nf={nf}"]
    dom = (3, 4, 5) if (a == 4 and fh) else (3, 4, 5, 6)
    order = (max(a, 1), 2)

    def S(n, f=nf):
        return ad.gamma_singlet_qed(order, n, f, var, fh)[a, b]

    def Vm(n, f=nf):
        return ad.gamma_valence_qed(order, n, f, var, fh)[a, b]

    def ns(mode):
        return lambda n, f=nf: ad.gamma_ns_qed(order, mode, n, f, var, fh)[a, b]

    try:
        sc = np.max([np.abs(S(_near(2, phi), f)[:3]).max(axis=0) for f in dom], axis=0)
        sc_v = np.max([np.abs(Vm(2.0 + 0j, f)) for f in dom], axis=0).ravel()
        sc_u = max(abs(ns(10202)(2.0 + 0j, f)) for f in dom)
        sc_d = max(abs(ns(10203)(2.0 + 0j, f)) for f in dom)
    except Exception as e:  # noqa: BLE001
        res.fail(exc_bucket(f"{ID}/call/{label}", e), f"{info}: {e!r}")
        return
    _rule(res, f"momentum/{label}", lambda n: S(n)[:3].sum(axis=0), 2, phi, sc, tol, info)
    _rule(res, f"number-valence/{label}", lambda n: Vm(n).ravel(), 1, phi, sc_v,
          TOL["an3lo_nsv"] if (a == 4 and fam == "an3lo") else tol, info)
    _rule(res, f"number-minus-u/{label}", ns(10202), 1, phi, sc_u, tol, info)
    _rule(res, f"number-minus-d/{label}", ns(10203), 1, phi, sc_d, tol, info)


def _check_mean(case, res):
    import numpy as np

    import ekore.anomalous_dimensions.unpolarized.space_like as ad

    nf, index = case["nf"], case["index"]
    n = complex(case["N"][0], case["N"][1])
    names = ["gg", "gq", "qg", "qq", "nsp", "nsm", "nsv"]
    res.classes = ["mean", f"mean/{names[index]}", f"nf={nf}"]
    variants = []
    for v in (0, 1, 2):
        w = list(case["base"])
        w[index] = v
        variants.append(tuple(w))
    towers = {
        "gamma_singlet": lambda var: ad.gamma_singlet((4, 0), n, nf, var, True)[3],
        "gamma_ns+": lambda var: ad.gamma_ns((4, 0), 10101, n, nf, var, True)[3],
        "gamma_ns-": lambda var: ad.gamma_ns((4, 0), 10201, n, nf, var, True)[3],
        "gamma_nsv": lambda var: ad.gamma_ns((4, 0), 10200, n, nf, var, True)[3],
        "gamma_singlet_qed": lambda var: ad.gamma_singlet_qed((4, 2), n, nf, var, True)[4, 0],
        "gamma_valence_qed": lambda var: ad.gamma_valence_qed((4, 2), n, nf, var, True)[4, 0],
        "gamma_ns_qed+u": lambda var: ad.gamma_ns_qed((4, 2), 10102, n, nf, var, True)[4, 0],
        "gamma_ns_qed-d": lambda var: ad.gamma_ns_qed((4, 2), 10203, n, nf, var, True)[4, 0],
    }
    moved = False
    for tname, f in towers.items():
        try:
            c, u, d = (np.atleast_1d(np.asarray(f(var), dtype=complex)).ravel() for var in variants)
        except Exception as e:  # noqa: BLE001
            res.fail(exc_bucket(f"{ID}/call/mean/{tname}", e), f"nf={nf}, N={n}, variations={variants}: {e!r}")
            continue
        if np.any(u != d):
            moved = True
        scale = np.maximum(np.maximum(np.abs(u), np.abs(d)), np.abs(c))
        diff = np.abs(c - 0.5 * (u + d))
        for i in range(len(c)):
            if scale[i] == 0.0:
                continue
            _observe(f"mean/{tname}", diff[i] / scale[i])
            if not np.isfinite(diff[i]) or diff[i] > TOL_MEAN * scale[i]:
                res.fail(
                    f"{ID}/mean/{tname}/{names[index]}",
                    f"{tname} element {i}: central {c[i]!r} != mean of variation 1 {u[i]!r} and 2 {d[i]!r} (difference "
                    f"{diff[i]:.3e}, allowed {TOL_MEAN * scale[i]:.3e}); nf={nf}, N={n}, entry {names[index]}, base "
                    f"{case['base']}",
                )
    res.nontrivial = moved


def check_case(case):
    res = CaseResult()
    kind = case["kind"]
    if kind in ("sl", "sl4"):
        _check_sl(case, res)
    elif kind == "tl":
        _check_tl(case, res)
    elif kind == "pol":
        _check_pol(case, res)
    elif kind == "qed":
        _check_qed(case, res)
    elif kind == "mean":
        _check_mean(case, res)
    else:
        raise ValueError(kind)
    res.classes = sorted(set(res.classes))
    return res

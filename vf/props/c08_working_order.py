"""C08 approximate solution methods agree with the exact (path-ordered) one to the working order."""

import math

from hypothesis import strategies as st

from vf.core import CaseResult, exc_bucket

ID = "C08"
LEVEL = "exploration"
TECHNIQUE = (
    "scaling law: |E_method - E_reference|(lambda a0, lambda a1) for lambda -> 0 must fall at least like lambda^n; "
    "reference = 30-digit quadrature of the defining integral (non-singlet) / DOP853 path-ordered matrix ODE "
    "(singlet) with literature beta coefficients"
)
RULE = (
    "Hypothesis draws order n in 2..4, nf in 3..6, a coupling pair in [0.002, 0.05] (either order, |ln a1/a0| >= "
    "0.05), a complex tower gamma_0..gamma_{n-1} with |entries of gamma_k| in [0.02, 1] x 10^k and one of: "
    "non-singlet scalar x {expanded, truncated, ordered-truncated}; generic (non-commuting) singlet 2x2 x {truncated, "
    "ordered-truncated, perturbative-exact, perturbative-expanded (ev_op_iterations 1..20, ev_op_max_order n..n+8 "
    "<= 12)}; commuting singlet tower V diag(x_k, y_k) V^-1 (|y_k - x_k| >= 0.15 x 10^k, cond V bounded by "
    "construction) x {decompose-exact, decompose-expanded}. Every kernel is called through the public dispatcher. "
    "The measured scaling exponent (two smallest lambdas of {1,1/2,1/4,1/8} whose difference is >= 100 x the "
    "reference noise; when below n - 0.25 the scaling is followed to lambda = 1/16 ... 1/1024 and the verdict needs "
    "two consecutive low pairs whose exponents do not extrapolate to >= n - 0.5) must be >= n - 0.25; "
    "decompose-exact on commuting input must equal the reference to 1e-9. Non-trivial = an exponent could be "
    "measured (or the decompose-exact equality was tested), eigenvalue gap of gamma_0 >= 5 %, and for the generic "
    "singlet ||[g0,g1]|| > 0.1 ||g0|| ||g1||; distinct by the full case."
)
ASSUMPTIONS = [
    "reference: d/da E = (sum gamma_k a^(k+1)) / (sum beta_k a^(k+2)) E as written in doc/source/theory/DGLAP.rst, beta_k "
    "from the Herzog et al. table typed in c20_coefficients (independent of eko.beta); checked against the LO closed "
    "form to 4e-16",
    "noise floor of the references: 1e-15 relative (30-digit mpmath quadrature rounded to double, non-singlet; the "
    "exact NS kernel reproduces it to 2e-16), 1e-13 (DOP853 rtol 1e-13 / atol "
    "1e-15 in ln a; measured 1e-14 against the closed form on commuting towers); differences below 100 x floor are "
    "not used",
    "slack 0.25 on the exponent (DESIGN section 2); a first verdict 'too small' is only final after following "
    "lambda down to the noise floor (1/16 ... 1/1024) and if the last two adjacent pairs are both low and do not "
    "extrapolate (2p - p_prev) to >= n - 0.5: for correct code whose leading coefficient happens to be small the "
    "sub-leading terms are 20-50 % of the leading one at lambda = 1/8 (local exponents down to n - 0.65, or a sign "
    "change of the difference) - calibrated on 6000 corner-biased cases of the unchanged tree and 16000-case thorough "
    "runs; such undecided cases are counted as trivial (class verdict=undecided)",
    "decompose methods are held to the working order only on commuting towers (documented: they neglect the "
    "non-commutativity); on commuting input decompose-exact neglects nothing, hence equality to 1e-9",
    "towers whose gamma_0 (or, for decompose, whose summed exponent) has a relative eigenvalue gap below 1e-2 are "
    "outside the domain of the closed 2x2 exponential (division by the gap) and are discarded (counted)",
]
LEVEL_TEXT = (
    "Exploration by generated inputs: every approximate method/order/sector combination is exercised on hundreds of "
    "random complex towers and judged by a measured scaling exponent against an independent ODE/quadrature reference; "
    "a wrong or missing term below the working order shows up as an exponent one unit too low. Not exhaustive: "
    "differences below the reference noise decide nothing."
)

NS_METHODS = ["iterate-expanded", "truncated", "ordered-truncated"]
S_METHODS = ["truncated", "ordered-truncated", "perturbative-exact", "perturbative-expanded"]
C_METHODS = ["decompose-exact", "decompose-expanded"]

COMBOS = (
    [("ns", m) for m in NS_METHODS] * 2
    + [("singlet", m) for m in S_METHODS] * 2
    + [("commuting", "decompose-exact")]
    + [("commuting", "decompose-expanded")] * 2
)

FLOOR_NS = 1e-15
FLOOR_S = 1e-13


def budget(tier):
    if tier == "quick":
        return dict(max_examples=1600, shards=16, wall_s=70, shrink_s=30)
    return dict(max_examples=16000, shards=16, wall_s=700, shrink_s=120)


def strategy(tier):
    from vf.refs import k2_gen as G

    @st.composite
    def build(draw):
        n = draw(st.integers(2, 4))
        # uniform over the (sector, method) combinations (sampled_from alone favours the first elements)
        sector, method = COMBOS[draw(st.integers(0, 10**6)) % len(COMBOS)]
        case = {"sector": sector, "order": n, "nf": draw(st.integers(3, 6)), "a": draw(G.couplings(0.05))}
        case["method"] = method
        if sector == "ns":
            case["tower"] = draw(G.scalar_tower(n))
        elif sector == "singlet":
            case["tower"] = draw(G.generic_tower(n))
            if method.startswith("perturbative"):
                case["its"] = draw(st.integers(1, 20))
                case["max_order"] = draw(st.integers(n, min(12, n + 8)))
        else:
            case["tower"] = draw(G.commuting_tower(n))
        return case

    return build()


def _method(name):
    from eko.kernels import EvoMethods

    return EvoMethods[name.upper().replace("-", "_")]


def check_case(case):
    import numpy as np

    from eko.kernels import non_singlet as ns
    from eko.kernels import singlet as s
    from vf.refs import k2_gen as G
    from vf.refs import k2_ode as R
    from vf.refs import k2_scaling as SC

    n, nf, sector, mname = case["order"], case["nf"], case["sector"], case["method"]
    a0, a1 = case["a"]
    g = G.build(case["tower"])
    method = _method(mname)
    order = (n, 0)
    its = int(case.get("its", 1))
    mo = int(case.get("max_order", 10))
    res = CaseResult(classes=[f"{sector}/{mname}/order={n}"])

    if sector != "ns" and G.eig_gap(g[0]) < 1e-2:
        return CaseResult(discarded="gamma_0 with (nearly) degenerate eigenvalues")

    # singlet truncated and ordered-truncated are one formula / one code path (DGLAP.rst): one bucket for both
    blabel = "(ordered-)truncated" if sector == "singlet" and mname.endswith("truncated") else mname
    bucket_tail = f"sector={sector}/method={blabel}/order={n}"

    class RepoError(Exception):
        pass

    def kernel(lam):
        try:
            if sector == "ns":
                return complex(ns.dispatcher(order, method, g, lam * a1, lam * a0, nf))
            return np.asarray(s.dispatcher(order, method, g, lam * a1, lam * a0, nf, its, (mo, 0)))
        except Exception as e:  # noqa: BLE001 - exceptions of the code under test are verdicts
            raise RepoError(exc_bucket(f"{ID}/call/{bucket_tail}", e), repr(e)) from e

    def reference(lam):
        if sector == "ns":
            return R.ns_exact(list(g), lam * a1, lam * a0, nf)
        return R.singlet_ode(g, lam * a1, lam * a0, nf)

    def diff(lam):
        k, r = kernel(lam), reference(lam)
        return R.fro(np.asarray(k) - np.asarray(r)) / R.fro(np.asarray(r))

    floor = FLOOR_NS if sector == "ns" else FLOOR_S
    try:
        if sector == "commuting" and mname == "decompose-exact":
            # nothing is neglected on commuting input: the method must reproduce the path-ordered solution
            d = diff(1.0)
            res.nontrivial = G.eig_gap(g[0]) >= 0.05
            if not (d <= 1e-9):
                res.fail(
                    f"{ID}/decompose-exact-commuting/order={n}",
                    f"decompose-exact on a commuting tower differs from the ODE solution by {d:.3e} (> 1e-9) "
                    f"at a0={a0}, a1={a1}, nf={nf}",
                )
            return res
        v = SC.exponent_verdict(diff, n, floor)
    except RepoError as e:
        return res.fail(e.args[0], e.args[1])

    generic = sector != "singlet" or R.commutator_size(g[0], g[1]) > 0.1
    gap_ok = sector == "ns" or G.eig_gap(g[0]) >= 0.05
    res.nontrivial = v["status"] in ("ok", "low") and generic and gap_ok
    res.classes.append("verdict=" + v["status"])
    if v["status"] == "nan":
        res.fail(f"{ID}/non-finite/{bucket_tail}", f"kernel returned a non-finite value; {SC.fmt(v)}")
    elif v["status"] == "low":
        res.fail(
            f"{ID}/exponent/{bucket_tail}",
            f"{sector} {mname} at order {n} (nf={nf}, a0={a0}, a1={a1}, its={its}, max_order={mo}) agrees with the "
            f"exact solution only to a lower order than a^{n}: {SC.fmt(v)}",
        )
    return res

"""C11 every solution, scale-variation and matching prescription conserves the sum rules.

If all anomalous dimensions (matching elements) of a tower are annihilated from the left by the conserved vector
v -- (1,1) in the QCD singlet basis, (1,1,1,0) in the QED singlet basis (g, gamma, Sigma, Sigma_Delta), (1,1,1) in the
matching basis (g, Sigma, h+); all anomalous dimensions zero for quark number -- then every kernel M built from
them must satisfy v.M = v up to rounding.  The towers are otherwise generic (complex, non-commuting); nothing
about the physical anomalous dimensions is used, so the claim tested is about the *solver*.
"""

import math

from hypothesis import strategies as st

from vf.core import CaseResult, exc_bucket
from vf.strategies import complex_disc, coupling_pair, floats

ID = "C11"
LEVEL = "exploration"
TECHNIQUE = (
    "constrained random towers (conserved left vector imposed by construction) through the public dispatchers, "
    "scale-variation functions and build_ome; oracle = conservation predicate v.M = v"
)
RULE = (
    "Generated: (a) QCD singlet towers gamma_k = [[q_k+l_k, q_k],[-q_k-l_k, -q_k]] (columns sum to zero, non-zero "
    "eigenvalue l_k and q_k drawn with modulus in [0.1,1] x (12,100,800,6000)[k] so that no matrix is accidentally "
    "defective), order 1-4, nf 3-6, "
    "all 8 methods, 1-50 iterations, max_order n..12, couplings in [0.002,0.05] with |ln a1/a0| >= 0.05, scale "
    "variation none / exponentiated (gamma_variation first) / expanded (singlet_variation K, and K @ E as the caller "
    "forms it) with L in [-1.5,1.5]; (b) QED singlet grids 4x4 (rows g,gamma,Sigma sum to zero, Sigma_Delta row free, "
    "from a seed), orders (1-4, 1-2), iterate-exact with 1-50 steps, alpha_em fixed or drifting, scale variation "
    "none / exponentiated (gamma_variation_qed) / expanded (singlet_variation_qed); (c) quark number: zero towers "
    "through the non-singlet, QED non-singlet and QED valence dispatchers and their scale-variation factors must "
    "give exactly 1; (d) matching towers A_1..A_3 3x3 with (1,1,1).A_k = 0 through build_ome forward / exact / "
    "expanded, optionally after the exponentiated shift.  Non-trivial = order >= 2 (matching order >= 2) with "
    "relative commutator norm of the first two matrices > 0.1 and all norms > 0.1; distinct by the full case."
)
ASSUMPTIONS = [
    "tolerance |v.M - v|_inf <= 1e-10 * max(1, |M|_max) (matching exact inverse: x cond_2 of the forward operator)",
    "perturbative / truncated methods have the documented poles of U at r_+ - r_- = +-k (DGLAP.rst); towers whose "
    "LO eigenvalue difference lies within 0.05 of a non-zero integer |k| <= max_order are discarded (counted)",
    "QED coupling lists are built like Operator.compute_aem_list (a_s at step borders, (a_s, a_em) at midpoints); the "
    "conservation does not depend on their values",
    "a gamma_variation_qed that returns None (defect fixed in c790caaa, guarded by C21) is not reported here; the "
    "in-place adjusted array is used so that the sum rule of that configuration is still judged",
]
LEVEL_TEXT = (
    "Exploration: sum-rule conservation of the solver itself is tested on random constrained towers for every "
    "method, order, iteration count and scale-variation / matching prescription; a prescription that mixes in a "
    "non-conserving term is caught on the first generic case of that branch, but inputs are sampled, not exhausted."
)
TOL = 1e-10
SCALES = [12.0, 100.0, 800.0, 6000.0]  # |gamma_k| <~ 10^(k+1): a^k gamma_k <= 12 * 0.4^k at a = 0.05
METHODS = [
    "ITERATE_EXACT",
    "ITERATE_EXPANDED",
    "PERTURBATIVE_EXACT",
    "PERTURBATIVE_EXPANDED",
    "TRUNCATED",
    "ORDERED_TRUNCATED",
    "DECOMPOSE_EXACT",
    "DECOMPOSE_EXPANDED",
]


def budget(tier):
    if tier == "quick":
        return dict(max_examples=3000, shards=8, wall_s=60, shrink_s=30)
    return dict(max_examples=40000, shards=16, wall_s=600, shrink_s=120)


# ------------------------------------------------------------------------------------------------ generation


@st.composite
def _singlet(draw):
    n = draw(st.sampled_from([1, 2, 2, 3, 3, 4, 4]))
    tower = []
    for k in range(n):
        s = SCALES[k]
        lam = draw(complex_disc(1.0, 0.1))
        q = draw(complex_disc(1.0, 0.1))
        tower.append([lam[0] * s, lam[1] * s, q[0] * s, q[1] * s])
    return {
        "kind": "singlet",
        "order": n,
        "nf": draw(st.integers(3, 6)),
        "a": draw(coupling_pair()),
        "method": draw(st.sampled_from(METHODS)),
        "iters": draw(st.one_of(st.integers(1, 6), st.integers(1, 50))),
        "max_order": draw(st.integers(max(2, n), 12)),
        "sv": draw(st.sampled_from(["none", "exponentiated", "expanded"])),
        "L": draw(floats(-1.5, 1.5)),
        "tower": tower,
    }


@st.composite
def _qed(draw):
    return {
        "kind": draw(st.sampled_from(["singlet_qed", "singlet_qed", "singlet_qed", "valence_qed", "ns_qed"])),
        "order": [draw(st.integers(1, 4)), draw(st.integers(1, 2))],
        "nf": draw(st.integers(3, 6)),
        "nl": draw(st.integers(2, 3)),
        "a": draw(coupling_pair()),
        "aem": draw(floats(math.log(1e-4), math.log(1e-2)).map(math.exp)),
        "running": draw(st.booleans()),
        "iters": draw(st.one_of(st.integers(1, 6), st.integers(1, 50))),
        "sv": draw(st.sampled_from(["none", "exponentiated", "expanded"])),
        "L": draw(floats(-1.5, 1.5)),
        "seed": draw(st.integers(0, 2**31 - 1)),
    }


@st.composite
def _ns(draw):
    return {
        "kind": "ns",
        "order": draw(st.integers(1, 4)),
        "nf": draw(st.integers(3, 6)),
        "a": draw(coupling_pair()),
        "method": draw(st.sampled_from(METHODS)),
        "sv": draw(st.sampled_from(["none", "exponentiated", "expanded"])),
        "L": draw(floats(-1.5, 1.5)),
    }


@st.composite
def _matching(draw):
    return {
        "kind": "matching",
        "n": draw(st.sampled_from([1, 2, 2, 3, 3])),
        "nf": draw(st.integers(3, 5)),
        "a_s": draw(floats(math.log(0.002), math.log(0.05)).map(math.exp)),
        "method": draw(st.sampled_from(["FORWARD", "BACKWARD_EXACT", "BACKWARD_EXPANDED"])),
        "sv": draw(st.sampled_from(["none", "exponentiated"])),
        "L": draw(floats(-1.5, 1.5)),
        "seed": draw(st.integers(0, 2**31 - 1)),
    }


def strategy(tier):
    return st.one_of(_singlet(), _singlet(), _singlet(), _qed(), _qed(), _matching(), _matching(), _ns())


# ------------------------------------------------------------------------------------------------ builders


def singlet_tower(case):
    import numpy as np

    out = []
    for lr, li, qr, qi in case["tower"]:
        lam, q = complex(lr, li), complex(qr, qi)
        out.append(np.array([[q + lam, q], [-q - lam, -q]], dtype=np.complex128))
    return np.array(out)


def qed_grid(case, dim):
    """(n+1, m+1, dim, dim) grid; dim 4: rows 0..2 sum to zero column-wise; dim 2 / 0: zero (quark number)."""
    import numpy as np

    n, m = case["order"]
    if dim == 0:
        return np.zeros((n + 1, m + 1), dtype=np.complex128)
    g = np.zeros((n + 1, m + 1, dim, dim), dtype=np.complex128)
    if dim == 2:
        return g
    rng = np.random.default_rng(case["seed"])
    for i in range(n + 1):
        for j in range(m + 1):
            if i == 0 and j == 0:
                continue
            x = (rng.normal(size=(4, 4)) + 1j * rng.normal(size=(4, 4))) * 3.0 * 10.0 ** (i + j - 1)
            x[2] = -x[0] - x[1]
            g[i, j] = x
    return g


def coupling_lists(case):
    import numpy as np

    a0, a1 = case["a"]
    it = case["iters"]
    as_list = np.geomspace(a0, a1, it + 1)
    a_half = np.zeros((it, 2))
    a_half[:, 0] = 0.5 * (as_list[1:] + as_list[:-1])
    drift = np.linspace(1.0, 1.05, it) if case["running"] else np.ones(it)
    a_half[:, 1] = case["aem"] * drift
    return as_list, a_half


def matching_tower(case):
    import numpy as np

    rng = np.random.default_rng(case["seed"])
    out = []
    for k in range(case["n"]):
        x = (rng.normal(size=(3, 3)) + 1j * rng.normal(size=(3, 3))) * 2.0 * 6.0**k
        x[2] = -x[0] - x[1]
        out.append(x)
    return np.array(out)


# ------------------------------------------------------------------------------------------------ predicate


def _conserved(res, bucket, M, v, what, extra=1.0):
    import numpy as np

    M = np.asarray(M)
    if not np.all(np.isfinite(M)):
        res.fail(bucket + "/non-finite", f"{what}: kernel has non-finite entries")
        return
    d = float(np.max(np.abs(v @ M - v)))
    scale = max(1.0, float(np.max(np.abs(M)))) * extra
    if d > TOL * scale:
        res.fail(bucket, f"{what}: |v.M - v| = {d:.3e} > 1e-10 x {scale:.3e}; v.M = {(v @ M).tolist()}")


def _rel_comm(x, y):
    import numpy as np

    d = np.linalg.norm(x, 2) * np.linalg.norm(y, 2)
    return float(np.linalg.norm(x @ y - y @ x, 2) / d) if d > 0 else 0.0


def check_case(case):
    return {
        "singlet": _check_singlet,
        "singlet_qed": _check_qed,
        "valence_qed": _check_qed,
        "ns_qed": _check_qed,
        "ns": _check_ns,
        "matching": _check_matching,
    }[case["kind"]](case)


def _check_singlet(case):
    import numpy as np

    from eko.kernels import EvoMethods
    from eko.kernels import singlet as s
    from eko.scale_variations import expanded, exponentiated
    from vf.refs.k2_ode import beta_qcd

    n, nf, (a0, a1), meth, L = case["order"], case["nf"], case["a"], case["method"], case["L"]
    res = CaseResult(classes=["singlet", f"order={n}", meth, f"sv={case['sv']}"])
    gam = singlet_tower(case)
    # documented poles of U (perturbative / truncated methods): r_+ - r_- = +-k
    if n >= 2 and meth in ("PERTURBATIVE_EXACT", "PERTURBATIVE_EXPANDED", "TRUNCATED", "ORDERED_TRUNCATED"):
        lam0 = complex(case["tower"][0][0], case["tower"][0][1]) / beta_qcd(nf, 1)[0]
        kmax = case["max_order"] if meth.startswith("PERT") else n
        if abs(lam0.imag) < 0.05 and any(abs(abs(lam0.real) - k) < 0.05 for k in range(1, kmax + 1)):
            return CaseResult(discarded="LO eigenvalue difference within 0.05 of a pole of U")
    res.nontrivial = n >= 2 and _rel_comm(gam[0], gam[1]) > 0.1
    v = np.array([1.0, 1.0])
    order = (n, 0)
    bucket = f"{ID}/singlet/method={meth}/order={n}/sv={case['sv']}"
    try:
        g = gam.copy()
        if case["sv"] == "exponentiated":
            g = exponentiated.gamma_variation(g, order, nf, L)
            for k in range(n):
                _conserved(res, f"{ID}/singlet/exponentiated-shift/order={n}", g[k] + np.eye(2), v,
                           f"1 + gammabar_{k} (L={L})")
        E = s.dispatcher(order, EvoMethods[meth], g, a1, a0, nf, case["iters"], (case["max_order"], 0))
        _conserved(res, bucket, E, v, f"singlet kernel {meth} order {n} iters {case['iters']} a={a0}->{a1}")
        if case["sv"] == "expanded":
            K = expanded.singlet_variation(g, a1, order, nf, L, 2)
            _conserved(res, f"{ID}/singlet/expanded-factor/order={n}", K, v, f"singlet_variation order {n} L={L}")
            _conserved(res, bucket, np.ascontiguousarray(K) @ np.ascontiguousarray(E), v, "K @ E")
    except Exception as e:  # noqa: BLE001
        res.fail(exc_bucket(f"{ID}/singlet/call/method={meth}", e), repr(e))
    return res


def _check_qed(case):
    import numpy as np

    from eko.kernels import EvoMethods
    from eko.kernels import non_singlet_qed, singlet_qed, valence_qed
    from eko.scale_variations import expanded, exponentiated

    kind = case["kind"]
    n, m = case["order"]
    nf, nl, L, running = case["nf"], case["nl"], case["L"], case["running"]
    dim = {"singlet_qed": 4, "valence_qed": 2, "ns_qed": 0}[kind]
    res = CaseResult(classes=[kind, f"order={n},{m}", f"sv={case['sv']}", f"running={running}"])
    g = qed_grid(case, dim)
    res.nontrivial = kind == "singlet_qed" and n >= 2 and _rel_comm(g[1, 0], g[2, 0]) > 0.1
    as_list, a_half = coupling_lists(case)
    order = (n, m)
    it = case["iters"]
    v = {4: np.array([1.0, 1.0, 1.0, 0.0]), 2: None, 0: None}[dim]
    bucket = f"{ID}/{kind}/order={n},{m}/sv={case['sv']}/running={running}"
    try:
        if case["sv"] == "exponentiated":
            out = exponentiated.gamma_variation_qed(g, order, nf, nl, L, running)
            if out is None:
                res.classes.append("gamma_variation_qed-returned-None(C21)")
            else:
                g = out
            if dim == 4:
                for i in range(n + 1):
                    for j in range(m + 1):
                        _conserved(res, f"{ID}/{kind}/exponentiated-shift", g[i, j] + np.eye(4), v,
                                   f"1 + gammabar[{i},{j}] (L={L}, running={running})")
        if dim == 4:
            E = singlet_qed.dispatcher(order, EvoMethods.ITERATE_EXACT, g, as_list, a_half, nf, it, (10, 0))
            _conserved(res, bucket, E, v, f"QED singlet kernel order {order} iters {it}")
            if case["sv"] == "expanded":
                K = expanded.singlet_variation_qed(g, as_list[-1], a_half[-1][1], running, order, nf, L)
                _conserved(res, f"{ID}/{kind}/expanded-factor", K, v, f"singlet_variation_qed order {order} L={L}")
                _conserved(res, bucket, np.ascontiguousarray(K) @ np.ascontiguousarray(E), v, "K @ E")
            return res
        # quark number: zero towers must give exactly one
        if dim == 2:
            E = valence_qed.dispatcher(order, EvoMethods.ITERATE_EXACT, g, as_list, a_half, nf, it, (10, 0))
            one = np.eye(2)
            K = expanded.valence_variation_qed(g, as_list[-1], a_half[-1][1], running, order, nf, L)
        else:
            E = non_singlet_qed.dispatcher(
                order, EvoMethods.ITERATE_EXACT, g, as_list, a_half[:, 1], running, nf, it, 10.0, 100.0
            )
            one = 1.0
            K = expanded.non_singlet_variation_qed(g, as_list[-1], a_half[-1][1], running, order, nf, L)
        for name, M in (("kernel", E), ("expanded-factor", K)):
            d = float(np.max(np.abs(np.asarray(M) - one)))
            if not d <= 1e-14:
                res.fail(f"{ID}/{kind}/quark-number/{name}", f"zero tower gives {name} != 1 (|diff| = {d:.3e})")
    except Exception as e:  # noqa: BLE001
        res.fail(exc_bucket(f"{ID}/{kind}/call", e), repr(e))
    return res


def _check_ns(case):
    import numpy as np

    from eko.kernels import EvoMethods
    from eko.kernels import non_singlet as ns
    from eko.scale_variations import expanded, exponentiated

    n, nf, (a0, a1), meth, L = case["order"], case["nf"], case["a"], case["method"], case["L"]
    res = CaseResult(classes=["ns", f"order={n}", meth, f"sv={case['sv']}"], nontrivial=False)
    g = np.zeros(n, dtype=np.complex128)
    try:
        if case["sv"] == "exponentiated":
            g = exponentiated.gamma_variation(g, (n, 0), nf, L)
        E = ns.dispatcher((n, 0), EvoMethods[meth], g, a1, a0, nf)
        K = expanded.non_singlet_variation(g, a1, (n, 0), nf, L)
        for name, M in (("kernel", E), ("expanded-factor", K)):
            d = abs(complex(M) - 1.0)
            if not d <= 1e-14:
                res.fail(f"{ID}/ns/quark-number/{name}/method={meth}", f"zero tower gives {name} = {M!r}")
    except Exception as e:  # noqa: BLE001
        res.fail(exc_bucket(f"{ID}/ns/call/method={meth}", e), repr(e))
    return res


def _check_matching(case):
    import numpy as np

    from eko.evolution_operator.quad_ker import MatchingMethods, build_ome
    from eko.scale_variations import exponentiated

    n, nf, a, meth, L = case["n"], case["nf"], case["a_s"], case["method"], case["L"]
    res = CaseResult(classes=["matching", f"n={n}", meth, f"sv={case['sv']}"])
    A = matching_tower(case)
    res.nontrivial = n >= 2 and _rel_comm(A[0], A[1]) > 0.1
    v = np.array([1.0, 1.0, 1.0])
    try:
        if case["sv"] == "exponentiated":
            A = exponentiated.gamma_variation(A, (n, 0), nf, L)
        M = build_ome(A, (n, 0), a, MatchingMethods[meth])
        extra = 1.0
        if meth == "BACKWARD_EXACT":
            extra = float(np.linalg.cond(build_ome(A, (n, 0), a, MatchingMethods.FORWARD)))
        _conserved(res, f"{ID}/matching/{meth}/n={n}/sv={case['sv']}", M, v,
                   f"build_ome {meth} order {n} a_s={a} L={L}", extra)
    except Exception as e:  # noqa: BLE001
        res.fail(exc_bucket(f"{ID}/matching/call/{meth}", e), repr(e))
    return res

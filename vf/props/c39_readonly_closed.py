"""C39 read-only and closed EKOs never change on disk; every store attempt on them raises."""

import tarfile

from vf.core import CaseResult, exc_bucket
from vf.refs import s1_store as s1

ID = "C39"
LEVEL = "exploration"
TECHNIQUE = (
    "Hypothesis-generated step lists interpreted on a real archive opened read-only or already closed; oracle = "
    "documented exception per store attempt + sha256 of the archive file after every step"
)
RULE = (
    "Each case: an archive with 1-3 points (with/without error arrays) written through EKO.create, then a session in one of "
    "four modes - opened with EKO.read (read-only); EKO.read then closed; EKO.edit then closed; the freshly built EKO after "
    "its close; the EKO is obtained from the tar (temporary extraction), from the tar into a given dest folder, or read-only "
    "from an already extracted folder (EKO.read(folder, extract=False) / EKO.load(folder); every byte under that folder is "
    "hashed after each step, close()/exit steps there are the with-exit, which leaves such an EKO open, and the direct "
    "metadata.update() step is skipped) - and 1-12 steps drawn from: store attempts {set a new point, overwrite a point, eko.xgrid = .., "
    "eko.update(), load_recipes / recipes[..] = None (evolution / matching; a fresh recipe or one already stored in the archive "
    "while it was writable, before or after a sync()/read of it), parts[..] = .. (fresh or already stored), dump()}, reads {get, in, "
    "iter, items(), approx, operator() context, cards, metadata}, memory-only {del, unload, operators.sync, sync of the recipe / part inventories, recipes[stored header]}, a direct "
    "metadata.update() (rewrites only the temporary copy; outcome not judged, the archive is), and "
    "{close(), __exit__(None..), dump(other path), deepcopy(other path)}.  Oracle: every store attempt raises "
    "ReadOnlyOperator (open read-only) or ClosedOperator (closed); on a read-only EKO reads succeed and return the written "
    "values bitwise; on a closed EKO get / items / operator() raise ClosedOperator; after every step and after the final "
    "close the archive file exists with unchanged sha256.  A case stops at its first violation.  Non-trivial = at least "
    "two distinct kinds of store attempt were made; distinct by case."
)
ASSUMPTIONS = [
    "reference sha256 is taken after the archive was last legitimately written (after the closing of the edit session in "
    "mode edit-closed)",
    "store attempts go through the EKO-level API (eko[...], eko.xgrid, eko.update, load_recipes, eko.parts[...], dump); "
    "Metadata.update() called directly has no access information: whether it raises is not judged, only that the archive stays unchanged",
    "on a closed EKO the outcome of in / iter / approx / cards / metadata / del / unload / sync / close / dump(other) / "
    "deepcopy is not judged (access.py: simple in-memory properties need not raise), only their effect on the archive",
    "an EKO opened from an extracted folder (extract=False / EKO.load) is never close()d by the check: close() removes the "
    "working directory, which there is the user's folder itself (EKO.__exit__ deliberately skips it when no archive path is set)",
    "dump(other path) and deepcopy(other path) on a read-only EKO are legitimate (documented) and must leave the archive alone",
]
LEVEL_TEXT = (
    "Generated histories of store/read attempts on read-only and closed EKOs checked against the documented refusal and a "
    "byte-level hash of the archive; the history space is sampled."
)

KEYS = [[10.0, 4, "fi"], [20.0, 5, "fi"], [30.5, 5, "fi"]]
SHAPE = [2, 2, 2, 2]
WRITE_KINDS = ["set_new", "overwrite", "xgrid", "update", "recipes", "recipe_set", "part", "dump"]
STORED = 5  # header index of the recipes / parts written into the archive while it was writable
MODES = ["ro", "ro-closed", "edit-closed", "new-closed"]


def budget(tier):
    if tier == "quick":
        return dict(max_examples=208, shards=8, wall_s=90, shrink_s=40)
    return dict(max_examples=3000, shards=16, wall_s=900, shrink_s=200)


def strategy(tier):
    from hypothesis import strategies as st

    idx = st.integers(0, 2)
    hk = st.sampled_from(["evolution", "matching"])
    read = st.one_of(
        st.tuples(st.sampled_from(["get", "in", "approx", "operator_ctx", "del"]), idx).map(list),
        st.sampled_from(
            [["iter"], ["items"], ["cards"], ["meta"], ["unload"], ["sync"], ["dump_other"], ["deepcopy"], ["meta_direct"], ["meta_direct"]]
        ),
        st.sampled_from([["inv_sync"], ["inv_sync"], ["inv_get", "evolution"], ["inv_get", "matching"]]),
    )
    step = st.one_of(
        st.tuples(st.just("set_new"), idx).map(list),
        st.tuples(st.just("overwrite"), idx, st.booleans()).map(list),
        st.just(["xgrid"]),
        st.just(["update"]),
        st.tuples(st.just("recipes"), hk, st.booleans()).map(list),  # True: a recipe that already exists in the archive
        st.tuples(st.just("recipe_set"), hk, st.booleans()).map(list),  # eko.recipes[...] = None directly
        st.tuples(st.just("part"), hk, st.booleans()).map(list),
        st.just(["dump"]),
        st.sampled_from([["close"], ["exit"], ["close"]]),
        read,
        read,
        read,
    )
    return st.fixed_dictionaries(
        dict(
            points=st.lists(st.booleans(), min_size=1, max_size=3),
            mode=st.sampled_from(["ro"] + MODES),
            stored=st.sampled_from([True, True, False]),
            presync=st.booleans(),
            # how the session under test obtains its EKO: from the tar (temporary extraction), from the tar into a given
            # dest folder, or read-only from an already extracted folder (EKO.read(folder, extract=False) / EKO.load(folder))
            open=st.sampled_from(["tar", "folder", "dest", "tar", "load", "tar"]),
            steps=st.lists(step, min_size=2, max_size=12),
        )
    )


def value(i, err):
    return s1.make_operator(
        {"seed": 100 + i, "mode": "special", "shape": SHAPE},
        {"seed": 200 + i, "mode": "unit", "shape": SHAPE} if err else None,
    )


def header(kind, j):
    from eko.io.items import Evolution, Matching

    if kind == "evolution":
        return Evolution(origin=2.0 + j, target=50.0 + j, nf=4, cliff=False)
    return Matching(scale=25.0 + j, hq=5, inverse=False)


def check_case(case):
    res = CaseResult()
    with s1.Sandbox() as sb:
        _run(case, res, sb)
    return res


def _run(case, res, sb):
    from eko.interpolation import XGrid
    from eko.io.access import ClosedOperator, ReadOnlyOperator
    from eko.io.struct import EKO

    th, opc = s1.cards()
    path = sb.dir / "a.tar"
    n = len(case["points"])
    mode = case["mode"]
    stored = bool(case.get("stored", False))
    how = case.get("open", "tar")
    if how in ("folder", "load"):
        # an EKO living in a user folder exists only read-only and open: close() removes its working directory - here the
        # folder itself - which is why EKO.__exit__ does not close such an EKO; the session is ended with __exit__
        mode = "ro"
    elif mode == "new-closed":
        how = "tar"
    folder, folder_ref = None, None
    content = {}

    def tree(root):
        out = {}
        for q in sorted(root.rglob("*")):
            out[str(q.relative_to(root))] = s1.sha256(q) if q.is_file() else "dir"
        return out

    # ---- set-up: legitimate writes only; anything failing here is not this property's business, but is not hidden either
    try:
        eko = EKO.create(path).load_cards(th, opc).build()
        for i, err in enumerate(case["points"]):
            op = value(i, err)
            eko[s1.ep_of(KEYS[i])[0]] = op
            content[s1.ep_of(KEYS[i])[1]] = s1.op_frozen(op)
        if stored:
            # legitimate writes while the EKO is writable: these headers exist in the archive (and, for the handle that
            # wrote them, in the inventory caches) when the store attempts on the same headers are made later
            eko.load_recipes([header("evolution", STORED), header("matching", STORED)])
            eko.parts[header("evolution", STORED)] = value(80, False)
            eko.parts_matching[header("matching", STORED)] = value(81, True)
        eko.close()
        if how in ("folder", "load"):
            # the documented on-disk format is a tar of the folder: extract it with plain tarfile
            folder = sb.dir / "extracted"
            with tarfile.open(path) as tar:
                tar.extractall(folder)
            folder_ref = tree(folder)
            eko = EKO.read(folder, extract=False) if how == "folder" else EKO.load(folder)
        elif mode in ("ro", "ro-closed"):
            eko = EKO.read(path, dest=sb.dir / "dest") if how == "dest" else EKO.read(path)
        elif mode == "edit-closed":
            eko = EKO.edit(path, dest=sb.dir / "dest") if how == "dest" else EKO.edit(path)
        if mode != "new-closed" and case.get("presync", False):
            # a legitimate read in the session under test: the inventories now know the archived headers
            for inv in (eko.recipes, eko.recipes_matching, eko.parts, eko.parts_matching):
                inv.sync()
        if mode in ("ro-closed", "edit-closed"):
            eko.close()
    except Exception as e:  # noqa: BLE001 - repo call
        res.fail(exc_bucket(f"{ID}/setup/{mode}", e), repr(e))
        return
    state = "ro" if mode == "ro" else "closed"
    ref = s1.sha256(path)
    ref_content = s1.tar_content(path)
    attempted = set()
    classes = {f"mode={mode}", f"points={n}", f"stored={stored}", f"open={how}"}
    if mode != "new-closed":
        classes.add(f"presync={bool(case.get('presync', False))}")
    nother = [0]
    readonly = mode in ("ro", "ro-closed")

    def family(after):
        return "close" if after in ("close", "exit", "final-close") else after

    def archive_ok(after):
        if folder is not None:
            now = tree(folder) if folder.exists() else None
            if now != folder_ref:
                if now is None:
                    diff = "folder removed"
                else:
                    diff = sorted(k for k in set(now) | set(folder_ref) if now.get(k) != folder_ref.get(k))
                res.fail(f"{ID}/folder-changed/after={family(after)}", f"the extracted folder of the read-only EKO (opened with {how}) changed after {after}: {diff}")
                return False
        if not path.exists():
            res.fail(f"{ID}/archive-deleted/readonly={readonly}/after={family(after)}", f"the archive no longer exists after {after} in state {state} (mode {mode})")
            return False
        if s1.sha256(path) != ref:
            try:
                same = s1.tar_content(path) == ref_content
            except Exception as e:  # noqa: BLE001 - unreadable tar is the finding itself
                same = f"unreadable: {e!r}"
            what = "rewritten-same-content" if same is True else "content-changed"
            res.fail(f"{ID}/archive-{what}/readonly={readonly}/after={family(after)}", f"sha256 of the archive changed after {after} in state {state} (mode {mode}; member content equal: {same})")
            return False
        return True

    def attempt(fn):
        try:
            return True, fn()
        except Exception as e:  # noqa: BLE001 - verdict taken by the caller
            return False, e

    try:
        for st in case["steps"]:
            kind = st[0]
            i = (st[1] % n) if len(st) > 1 and isinstance(st[1], int) else 0
            ep, k = s1.ep_of(KEYS[i])
            label = kind
            if kind in WRITE_KINDS:
                attempted.add(kind)
                classes.add(f"{state}:write:{kind}")
                if kind == "set_new":
                    fn = lambda: eko.__setitem__((100.0 + st[1], 4), value(50 + st[1], False))  # noqa: E731
                elif kind == "overwrite":
                    fn = lambda: eko.__setitem__(ep, value(60 + i, st[2]))  # noqa: E731
                elif kind == "xgrid":
                    fn = lambda: setattr(eko, "xgrid", XGrid([0.2, 0.6, 1.0]))  # noqa: E731
                elif kind == "update":
                    fn = lambda: eko.update()  # noqa: E731
                elif kind in ("recipes", "recipe_set"):
                    known = len(st) > 2 and bool(st[2])
                    hdr = header(st[1], STORED if known else 0)
                    inv = eko.recipes if st[1] == "evolution" else eko.recipes_matching
                    classes.add(f"{state}:write:{kind}:{'existing' if known and stored else 'fresh'}:cached={hdr in inv.cache}")
                    if kind == "recipes":
                        fn = lambda: eko.load_recipes([hdr])  # noqa: E731
                    else:
                        fn = lambda: inv.__setitem__(hdr, None)  # noqa: E731
                elif kind == "part":
                    known = len(st) > 2 and bool(st[2])
                    hdr = header(st[1], STORED if known else 1)
                    inv = eko.parts if st[1] == "evolution" else eko.parts_matching
                    classes.add(f"{state}:write:part:{'existing' if known and stored else 'fresh'}:cached={hdr in inv.cache}")
                    fn = lambda: inv.__setitem__(hdr, value(70, True))  # noqa: E731
                else:
                    fn = lambda: eko.dump()  # noqa: E731
                ok, out = attempt(fn)
                want = ReadOnlyOperator if state == "ro" else ClosedOperator
                if ok:
                    res.fail(f"{ID}/not-refused/{kind}/state={state}", f"{kind} on a {state} EKO (mode {mode}) did not raise")
                elif not isinstance(out, want):
                    res.fail(exc_bucket(f"{ID}/wrong-exception/{kind}/state={state}", out), f"{kind} on a {state} EKO raised {out!r}, documented: {want.__name__}")
            elif kind in ("close", "exit") and folder is not None:
                # leaving the with-block of a folder EKO: documented not to close it; it stays open and read-only
                classes.add("ro:exit-folder")
                ok, out = attempt(lambda: eko.__exit__(None, None, None))
                if not ok:
                    res.fail(exc_bucket(f"{ID}/ro/exit", out), repr(out))
                elif not eko.access.open:
                    state = "closed"
            elif kind == "meta_direct" and folder is not None:
                # Metadata.update() writes the working directory without any access information; on a folder EKO that
                # directory is the user's folder: outside the EKO-level store API this property is about
                classes.add("ro:meta_direct:skipped-folder")
            elif kind in ("close", "exit"):
                classes.add(f"{state}:{kind}")
                ok, out = attempt((lambda: eko.close()) if kind == "close" else (lambda: eko.__exit__(None, None, None)))
                if state == "ro":
                    if not ok:
                        res.fail(exc_bucket(f"{ID}/ro/{kind}", out), repr(out))
                    state = "closed"
                elif not ok:
                    classes.add(f"closed:{kind}:raised:{type(out).__name__}")
            else:
                classes.add(f"{state}:read:{kind}")
                if kind == "get":
                    fn = lambda: s1.op_frozen(eko[ep])  # noqa: E731
                elif kind == "in":
                    fn = lambda: ep in eko  # noqa: E731
                elif kind == "approx":
                    fn = lambda: eko.approx((ep[0] * (1 + 1e-8), ep[1]))  # noqa: E731
                elif kind == "operator_ctx":

                    def fn():
                        with eko.operator(ep) as op:
                            return s1.op_frozen(op)

                elif kind == "iter":
                    fn = lambda: sorted(s1.mkey(e) for e in eko)  # noqa: E731
                elif kind == "items":
                    fn = lambda: {s1.mkey(e): s1.op_frozen(o) for e, o in eko.items()}  # noqa: E731
                elif kind == "cards":
                    fn = lambda: (eko.theory_card.raw, eko.operator_card.raw)  # noqa: E731
                elif kind == "meta":
                    fn = lambda: (eko.metadata.raw, eko.mu20, eko.xgrid.tolist(), eko.permissions, eko.raw)  # noqa: E731
                elif kind == "del":
                    fn = lambda: eko.__delitem__(ep)  # noqa: E731
                elif kind == "unload":
                    fn = lambda: eko.unload()  # noqa: E731
                elif kind == "sync":
                    fn = lambda: eko.operators.sync()  # noqa: E731
                elif kind == "inv_sync":

                    def fn():
                        for inv in (eko.recipes, eko.recipes_matching, eko.parts, eko.parts_matching):
                            inv.sync()

                elif kind == "inv_get":
                    hdr = header(st[1], STORED)
                    fn = lambda: (eko.recipes if st[1] == "evolution" else eko.recipes_matching)[hdr]  # noqa: E731
                elif kind == "meta_direct":

                    def fn():
                        # the Metadata object knows nothing about access rights: it rewrites the *temporary* copy only
                        eko.metadata.xgrid = XGrid([0.3, 0.7, 1.0])
                        eko.metadata.update()

                elif kind == "dump_other":
                    nother[0] += 1
                    other = sb.dir / f"other{nother[0]}.tar"
                    fn = lambda: eko.dump(other)  # noqa: E731
                elif kind == "deepcopy":
                    nother[0] += 1
                    other = sb.dir / f"other{nother[0]}.tar"
                    fn = lambda: eko.deepcopy(other)  # noqa: E731
                else:
                    raise ValueError(f"unknown step {st}")
                ok, out = attempt(fn)
                if state == "ro" and kind in ("meta_direct", "inv_get"):  # inv_get of a header that was never stored raises legitimately
                    classes.add(f"ro:{kind}:" + ("ok" if ok else f"raised:{type(out).__name__}"))
                elif state == "ro":
                    if not ok:
                        res.fail(exc_bucket(f"{ID}/ro/read-failed/{kind}", out), f"{kind} on a read-only EKO raised {out!r}")
                    elif kind in ("get", "operator_ctx") and out != content[k]:
                        res.fail(f"{ID}/ro/wrong-value/{kind}", f"{kind} {k} returned a value different from the archived one")
                    elif kind == "items" and out != content:
                        res.fail(f"{ID}/ro/wrong-value/items", f"items() returned {sorted(out)} / values differing from the archived ones")
                    elif kind == "iter" and out != sorted(content):
                        res.fail(f"{ID}/ro/wrong-value/iter", f"iteration gives {out}, archived {sorted(content)}")
                    elif kind == "in" and out is not True:
                        res.fail(f"{ID}/ro/wrong-value/in", f"{k} in eko -> {out}")
                    elif kind == "approx" and (out is None or s1.mkey(out) != k):
                        res.fail(f"{ID}/ro/wrong-value/approx", f"approx near {k} -> {out!r}")
                elif kind in ("get", "items", "operator_ctx"):
                    if ok:
                        res.fail(f"{ID}/closed/read-not-refused/{kind}", f"{kind} on a closed EKO (mode {mode}) returned instead of raising ClosedOperator")
                    elif not isinstance(out, ClosedOperator):
                        res.fail(exc_bucket(f"{ID}/closed/read-wrong-exception/{kind}", out), repr(out))
                elif not ok:
                    classes.add(f"closed:{kind}:raised:{type(out).__name__}")
            if res.violations or not archive_ok(label):
                break
        # ---- end of session
        if not res.violations and state == "ro" and folder is not None:
            ok, out = attempt(lambda: eko.__exit__(None, None, None))
            if not ok:
                res.fail(exc_bucket(f"{ID}/ro/final-exit", out), repr(out))
            else:
                archive_ok("final-close")
        elif not res.violations and state == "ro":
            ok, out = attempt(lambda: eko.close())
            if not ok:
                res.fail(exc_bucket(f"{ID}/ro/final-close", out), repr(out))
            else:
                archive_ok("final-close")
    finally:
        res.classes = sorted(classes) + [f"write-kinds={len(attempted)}"]
        res.nontrivial = len(attempted) >= 2

"""C06 split-path evolutions compose consistently."""

import copy
import math

import numpy as np

from vf import runner_util as ru
from vf.core import CaseResult, exc_bucket
from vf.props.c05_sum_rules_e2e import input_grid

ID = "C06"
LEVEL = "exploration"
ENGINE = "R"
TECHNIQUE = "metamorphic: E(mu2<-mu1)E(mu1<-mu0) vs E(mu2<-mu0) from three fresh solves applied to generated smooth PDFs, on two grid resolutions"
RULE = (
    "Generated scale triples (mu0, mu1, mu2) with the intermediate point on the direct flavour path: inside one patch, "
    "across one matching scale (intermediate point before or after the matching), including legs that run down in scale "
    "inside a patch before a matching (also ending below their starting scale, with an inversion method configured) and their mirror images (up to the matching scale with nf+1, inverse matching, down again); LO/NLO (thorough: NNLO), iterate-exact with 30-60 iterations (quick tier: 40); grids of 15 (quick: 10) and 25-30 "
    "points on [1e-2, 1], degree 3-4; smooth toy PDFs. Three solves per grid; the split result E2(E1 f) and the direct "
    "result E f must agree at every grid point within 1e-3 of the largest flavour at that x (plus 1e-3 of the largest "
    "value overall times 1e-3 as absolute floor) on the fine grid for x <= 0.8 (1e-2 at the interior nodes above, i.e. the last one), and the discrepancy on the fine grid must be smaller "
    "than on the coarse grid (unless both are below 1e-6). Six sevenths of the cases are cheap 'coarse-only' cases (12-point grid, LO/NLO) that cover the path shapes broadly and only assert that split and direct results agree within 3e-2 at the grid points with x <= 0.4 (5x the largest discrepancy measured there on correct code), i.e. they detect plumbing-size errors. Non-trivial = both legs change a_s by more than 5%; distinct "
    "by (order, path shape, nf0, directions of the legs)."
)
ASSUMPTIONS = [
    "tolerance 1e-3 relative on >=25-point grids as stated by the property; required decrease under refinement",
    "iterate-exact with >=30 iterations so that the discretisation error of the singlet solution is below the tolerance",
    "downward matchings use inversion 'exact'",
    "n_integration_cores > 1 only shortens the run (C03)",
    "interpreted mode (NUMBA_DISABLE_JIT=1)",
]
LEVEL_TEXT = (
    "End-to-end metamorphic exploration with three solves per case on two grids; few expensive cases per run."
)


TOP_TOL = 1e-2  # full cases, interior nodes with x > 0.8
COARSE_TOL = 3e-2  # 12-point grid, x <= 0.4: measured discrepancy of correct code <= 6e-3 (interpolation error of composed operators)


def budget(tier):
    if tier == "quick":
        return dict(max_examples=28, shards=14, wall_s=240, shrink_s=0)
    return dict(max_examples=120, shards=8, wall_s=3000, shrink_s=0)


def strategy(tier):
    from hypothesis import strategies as st

    @st.composite
    def build(draw):
        quick = tier == "quick"
        order = draw(st.sampled_from((1, 1, 2) if quick else (1, 2, 2, 3)))
        masses = [1.51, 4.92, 172.5]
        # the non-monotonic shapes (scale and flavour number move in opposite directions on a leg) are drawn twice as often
        kind = draw(st.sampled_from(("inside", "cross-after", "cross-before", "down-then-match", "down-match-up-short",
                                     "down-match-up-short", "up-match-down-short", "up-match-down-short", "backward")))
        nf0 = draw(st.sampled_from((3, 4)))
        r = draw(st.sampled_from((1.0, 1.0, 0.7, 1.5)))  # matching ratio of the wall that may be crossed
        ratios = [1.0, 1.0, 1.0]
        ratios[nf0 - 3] = r
        w = masses[nf0 - 3] * r
        f1 = draw(st.floats(1.5, 3.0))
        f2 = draw(st.floats(1.5, 3.0))
        inv = None
        if kind == "inside":
            if nf0 == 3:  # use the wide nf=5 patch instead of the narrow nf=3 one
                nfp, mu0 = 5, 6.0 * draw(st.floats(1.0, 1.5))
                mu1 = mu0 * f1
                mu2 = mu1 * f2
            else:
                nfp, mu0 = 4, 1.7
                mu1 = min(mu0 * f1, 3.4)
                mu2 = min(mu1 * f2, 4.8)
            if draw(st.booleans()):
                mu0, mu2 = mu2, mu0  # downward inside the patch
            pts = [[mu0, nfp], [mu1, nfp], [mu2, nfp]]
        elif kind == "cross-after":  # intermediate point above the matching, with nf0+1
            mu0 = w / f1
            mu1 = w * draw(st.floats(1.2, 2.0))
            mu2 = mu1 * f2
            pts = [[mu0, nf0], [mu1, nf0 + 1], [mu2, nf0 + 1]]
        elif kind == "cross-before":  # intermediate point below the matching, still nf0
            mu0 = w / (f1 * 1.5)
            mu1 = w / draw(st.floats(1.1, 1.4))
            mu2 = w * f2
            pts = [[mu0, nf0], [mu1, nf0], [mu2, nf0 + 1]]
        elif kind == "down-then-match":  # origin above the wall with nf0: runs down to the wall, matches, runs up
            mu0 = w * f1
            mu1 = w * (1 + (f1 - 1) * draw(st.floats(0.2, 0.6)))
            mu2 = w * f1 * f2
            pts = [[mu0, nf0], [mu1, nf0], [mu2, nf0 + 1]]
        elif kind == "down-match-up-short":  # first leg: down to the wall, matching, up again but ending below its start
            mu0 = w * f1
            mu1 = w * (1 + (f1 - 1) * draw(st.floats(0.3, 0.8)))
            mu2 = w * f1 * f2
            pts = [[mu0, nf0], [mu1, nf0 + 1], [mu2, nf0 + 1]]
        elif kind == "up-match-down-short":  # mirrored: up to the wall with nf0+1, inverse matching, down but ending above its start
            # kept inside the nf0 patch and to a moderate total range: a long backward evolution amplifies the
            # interpolation error at large x beyond the accuracy the property is stated for (measured 2e-2 on 25 points
            # for 4.9 -> 0.9 GeV, falling to 4e-3 on 40 points)
            floor = 1.6 if nf0 == 4 else 0.0
            mu0 = max(w / min(f1, 2.0), 1.4 * floor)
            mu1 = w / (1 + (w / mu0 - 1) * draw(st.floats(0.3, 0.8)))
            mu2 = max(mu0 / min(f2, 1.5), floor)
            pts = [[mu0, nf0 + 1], [mu1, nf0], [mu2, nf0]]
            inv = "exact"
        else:  # backward across the wall: nf0+1 -> nf0
            mu0 = w * f1 * 1.3
            mu1 = w * draw(st.floats(1.1, 1.25))
            mu2 = w / f2
            pts = [[mu0, nf0 + 1], [mu1, nf0 + 1], [mu2, nf0]]
            inv = "exact"
        if inv is None and (kind == "down-match-up-short" or draw(st.booleans())):
            inv = draw(st.sampled_from(("exact", "expanded")))  # irrelevant without a downward matching, but valid
        pts = [[float(m), int(n)] for m, n in pts]
        mu_low = min(p[0] for p in pts + [[w, 0]] if p[0] > 0)
        walls_lin = [m_ * r_ for m_, r_ in zip(masses, ratios)]
        alpha_low = draw(st.floats(0.22, 0.33))
        card = dict(
            order=[order, 0], ref=[float(mu_low), ru.natural_nf(mu_low, walls_lin)], alphas=float(alpha_low), masses=masses,
            ratios=ratios, method="iterate-exact", iters=(40 if quick else draw(st.integers(30, 60))) if order > 1 else 1,
            deg=draw(st.sampled_from((3, 4))), inv=inv, cores=5 if quick else 2,
        )
        nq = draw(st.integers(2, 3))
        pdf = {}
        for q in range(1, nq + 1):
            pdf[str(q)] = {
                "sea": [draw(st.floats(0.05, 0.5)), draw(st.floats(-0.2, 0.3)), draw(st.floats(5.0, 8.0)), draw(st.floats(0.0, 2.0))],
                "val": [draw(st.floats(0.5, 3.0)), draw(st.floats(0.5, 1.0)), draw(st.floats(3.0, 5.0)), draw(st.floats(0.0, 3.0))],
            }
        pdf["21"] = {"sea": [draw(st.floats(0.5, 3.0)), draw(st.floats(-0.2, 0.2)), draw(st.floats(4.0, 7.0)), draw(st.floats(0.0, 2.0))]}
        if order <= 2 and draw(st.booleans()):  # an intrinsic component of the quark whose wall may be crossed (NLO matching knows it)
            pdf[str(nf0 + 1)] = {
                "sea": [draw(st.floats(0.02, 0.2)), draw(st.floats(0.0, 0.3)), draw(st.floats(5.0, 8.0)), draw(st.floats(0.0, 2.0))],
                "val": [draw(st.floats(0.05, 0.5)), draw(st.floats(0.5, 1.0)), draw(st.floats(3.0, 5.0)), draw(st.floats(0.0, 3.0))],
            }
        fine = draw(st.integers(25, 26 if quick else 30))
        return {"kind": kind, "points": pts, "card": card, "pdf": pdf, "grids": [10 if quick else 15, fine], "bump": draw(st.booleans())}

    def coarsen(case):
        case = dict(case)
        case["grids"] = [12]
        case["coarse_only"] = True
        card = dict(case["card"])
        card["order"] = [2 if case["bump"] else min(card["order"][0], 2), 0]  # mostly NLO: the LO matching is trivial
        card["iters"] = 20 if card["order"][0] > 1 else 1
        case["card"] = card
        return case

    # cheap coarse-grid cases cover the path shapes broadly; few full cases carry the stated accuracy claim
    # (the mirrored shape ends with a backward evolution, whose large-x error on 25 points exceeds the stated 1e-3 on
    # correct code - measured 4e-3, shrinking under refinement -, so it is only used with the coarse oracle)
    def pick(t):
        i, case = t
        return case if i == 0 and case["kind"] != "up-match-down-short" else coarsen(case)

    return st.tuples(st.integers(0, 6), build()).map(pick)


def evolve(card, p_from, p_to, xs, f):
    c = copy.deepcopy(card)
    c.update(init=p_from, mugrid=[p_to], xgrid=xs)
    ops = ru.solve(c)
    (_, (op, _e)), = ops.items()
    return np.einsum("ajbk,bk->aj", op, f)


def couplings_change(card, pts):
    from eko.runner import commons

    c = copy.deepcopy(card)
    c.update(init=pts[0], mugrid=[pts[2]], xgrid=[0.1, 1.0], deg=1)
    th, op = ru.cards(c)
    sc = commons.couplings(th, op)
    a = [float(sc.a_s(m * m, nf_to=n)) for m, n in pts]
    return abs(a[1] / a[0] - 1), abs(a[2] / a[1] - 1)


def check_case(case):
    res = CaseResult()
    card, pts = case["card"], case["points"]
    order = card["order"][0]
    res.classes = [f"order={order}", f"kind={case['kind']}", f"nf0={pts[0][1]}"]
    res.key = [order, case["kind"], pts[0][1], [pts[1][0] > pts[0][0], pts[2][0] > pts[1][0]]]
    disc, top = [], []
    try:
        d1, d2 = couplings_change(card, pts)
        res.nontrivial = bool(d1 > 0.05 and d2 > 0.05)
        cards_, grids = [], []
        for npts in case["grids"]:
            xs = [float(x) for x in np.geomspace(1e-2, 1.0, npts)]
            grids.append(xs)
            for a_, b_ in ((pts[0], pts[1]), (pts[1], pts[2]), (pts[0], pts[2])):
                c = copy.deepcopy(card)
                c.update(init=a_, mugrid=[b_], xgrid=xs, cores=1)
                cards_.append(c)
        # coarse-only cases solve their three operators one after the other in this process (state leaking between
        # solves of one process is then visible); full cases use forked workers
        outs = ru.solve_many(cards_, 1 if case.get("coarse_only") else case.get("workers", 5))
        for g, xs in enumerate(grids):
            E1, E2, Ed = (list(outs[3 * g + i].values())[0][0] for i in range(3))
            f0 = input_grid(case["pdf"], xs)
            f2 = np.einsum("ajbk,bk->aj", E2, np.einsum("ajbk,bk->aj", E1, f0))
            fd = np.einsum("ajbk,bk->aj", Ed, f0)
            scale = np.max(np.abs(fd), axis=0)  # largest flavour at each x
            floor = 1e-3 * float(np.max(scale))
            rel = np.max(np.abs(f2 - fd), axis=0) / (scale + floor)
            # coarse-only cases look at x <= 0.4: on 12 points the last interior nodes carry an interpolation error of
            # several percent on correct code (backward legs), while a plumbing error shows at every x
            # full cases: the stated accuracy is claimed for x <= 0.8; the node(s) above (only the last interior one on
            # these grids, where the toy PDFs are 1e-3 of their size) carry 1.3e-3..1.9e-3 on correct code for backward
            # legs, independent of the number of iterations, and are held to TOP_TOL instead
            last = int(np.searchsorted(xs, 0.4 if case.get("coarse_only") else 0.8, side="right"))
            disc.append((len(xs), float(np.max(rel[:last])), int(np.argmax(rel[:last]))))
            top.append(float(np.max(rel[last:-1])) if last < len(xs) - 1 else 0.0)
    except (NotImplementedError, ValueError, ru.SolveRefused) as e:
        return CaseResult(discarded=f"refused:{type(e).__name__}")
    except ru.SolveCrashed as e:  # crashes are C04's verdict
        return CaseResult(discarded="crash(decided by C04):" + str(e)[:80])
    if case.get("coarse_only"):
        (n_c, d_c, j_c), = disc
        res.classes.append("grid=coarse-only")
        if not d_c <= COARSE_TOL:
            res.fail(
                f"{ID}/split-vs-direct-coarse/kind={case['kind']}/order={order}",
                f"points {pts}: on a {n_c}-point grid split and direct evolution differ by {d_c:.3e} (relative to the largest "
                f"flavour, at grid index {j_c}), far beyond the interpolation error of such a grid (<= {COARSE_TOL})",
            )
        return res
    (n_c, d_c, _), (n_f, d_f, j_f) = disc
    if not d_f <= 1e-3:
        res.fail(
            f"{ID}/split-vs-direct/kind={case['kind']}/order={order}",
            f"points {pts}: on the {n_f}-point grid split and direct evolution differ by {d_f:.3e} (relative to the largest "
            f"flavour, at grid index {j_f}); coarse {n_c}-point grid: {d_c:.3e}",
        )
    if not top[1] <= TOP_TOL:
        res.fail(
            f"{ID}/split-vs-direct-top/kind={case['kind']}/order={order}",
            f"points {pts}: on the {n_f}-point grid split and direct evolution differ by {top[1]:.3e} at the nodes with x > 0.8 (allowed {TOP_TOL})",
        )
    if max(d_c, d_f) > 1e-6 and not d_f < d_c:
        res.fail(
            f"{ID}/no-refinement-gain/kind={case['kind']}/order={order}",
            f"points {pts}: discrepancy {d_c:.3e} on {n_c} points did not shrink on {n_f} points ({d_f:.3e})",
        )
    res.classes.append("disc_fine<1e-4" if d_f < 1e-4 else "disc_fine>=1e-4")
    return res

"""C30 QED-extended anomalous-dimension grids embed the QCD towers and carry the correct charges."""

from hypothesis import strategies as st

from vf.core import CaseResult, exc_bucket
from vf.refs import e1_qed as Q

ID = "C30"
LEVEL = "exploration"
TECHNIQUE = (
    "random complex N x nf x QED order x N3LO family x variation tuple; entry-by-entry differential between the QED "
    "grids and the QCD towers (second code path), exact zeros for the photon, charge relations between up/down "
    "entries, nf-independence of the charge-stripped functions, abelianisation link to the QCD NLO nf-slope, and "
    "exact basis-rotation algebra for the (Sigma, Sigma_Delta) / (V, V_Delta) blocks"
)
RULE = (
    "Each case draws N (box Re N in [1.2,40] x |Im N|<=40, both Talbot contours, left half-plane away from the "
    "poles, real axis), nf in 3..6 (3..5 for FHMRUVV at as^4), QED order (k,l) with k in 1..4, l in 1..2, the N3LO "
    "family flag and a 7-tuple of N3LO variations in {0,1,2} (all-equal tuples and independent ones; for the in-house family also its documented ranges gg 0-19, gq 0-15, qg 0-15, qq 0-6), and evaluates "
    "gamma_singlet_qed, gamma_valence_qed, gamma_ns_qed (4 sectors) and the QCD towers gamma_singlet / gamma_ns "
    "(3 sectors) with the same arguments. Sub-checks: (embed) slices [i,0], i=1..k, equal the QCD towers entry by "
    "entry in the documented block positions ((g,gamma,Sigma,SigmaDelta): gg,gq,qg,qq; SigmaDelta = ns+; (V,VDelta) "
    "= diag(nsV, ns-); ns_qed = ns+ / ns-), slice [0,0] is zero; (photon) row and column of the photon are exactly "
    "zero at every pure-QCD order; (charges) up/down non-singlet entries at O(aem), O(as aem) are e_u^2 : e_d^2 "
    "multiples of one function, the O(aem) one equals gamma_ns^(1,0)/C_F, at O(aem^2) gamma_q/e_q^2 = e_q^2 A + "
    "e_Sigma^2(nf) B with A = gamma^(1,1)/(2 C_F e_q^2) and B independent of q, of the +/- sector and of nf (second "
    "evaluation at another nf) and equal to the nf-slope of the QCD NLO non-singlet divided by C_F T_R; (rotation) "
    "the quark blocks of the singlet and valence grids at O(aem), O(as aem), O(aem^2) equal R diag(k_u,k_d) R^-1 "
    "(+ pure-singlet piece) built from the non-singlet grid entries with exact rational charges. Non-trivial = "
    "k >= 2; distinct by full case."
)
ASSUMPTIONS = [
    "tolerance 1e-12 relative to the compared entry (max with the largest entry of its row for exact-zero slots is "
    "not used: zeros must be exact); measured on the unchanged tree: bitwise equality for the embedding, <= 4e-16 "
    "for the charge relations",
    "block positions from the docstrings of as1/as2/as3/as4.gamma_singlet_qed and gamma_valence_qed; basis "
    "definitions Sigma_Delta = (nd/nu) Sigma_u - Sigma_d from doc/source/theory/FlavorSpace.rst (per-nf "
    "definitions), nu = nf // 2",
    "the O(aem^2) decomposition is the one quoted in the aem2 docstrings (de Florian, Sborlini, Rodrigo 2016 eqs. "
    "55-59): e_q^4 x abelian part + e_q^2 N_C sum e^2 x nf part; the nf part is obtained from QCD by C_F T_R nf -> "
    "e_q^2 N_C sum_q' e_q'^2, which is what the nf-slope relation asserts",
    "the same n3lo_ad_variation tuple is passed to the QED grid and to the QCD tower (as eko.evolution_operator "
    "does); FHMRUVV as^4 singlet pieces exist for nf<=5 only (documented NotImplementedError)",
    "distance >= 0.1 from the poles at integers <= 1",
]
LEVEL_TEXT = (
    "Seeded random exploration over N, nf, orders, both N3LO families and variation tuples; every evaluation "
    "compares two independent assemblies of the same quantity (QED grid vs QCD tower, grid vs rotation algebra) "
    "entry by entry at rounding level."
)

TOL = 1e-12
EU2, ED2 = float(Q.EU2), float(Q.ED2)
CF, TR = float(Q.CF), float(Q.TR)
QED_NS = {10102: ("p", "u"), 10103: ("p", "d"), 10202: ("m", "u"), 10203: ("m", "d")}
SLOTS = ["g", "ph", "S", "Sd"]


def _close(a, b, scale=None):
    s = max(abs(a), abs(b)) if scale is None else scale
    return abs(a - b) <= TOL * s


def check_case(case):
    import numpy as np

    import ekore.anomalous_dimensions.unpolarized.space_like as ad

    res = CaseResult()
    N = complex(*case["N"])
    k, l = case["order"]
    order = (k, l)
    nf = case["nf"]
    var = tuple(case["var"])
    fh = bool(case["fh"])
    uniform_var = len(set(var)) == 1
    res.classes = [
        f"order={k},{l}",
        f"nf={nf}",
        "pop=" + case["pop"],
        ("fhmruvv" if fh else "an3lo") if k >= 4 else "n3lo-n/a",
        "var=uniform" if uniform_var else "var=mixed",
    ]
    res.nontrivial = k >= 2
    ctx = f"N={N}, nf={nf}, order={order}, var={var}, use_fhmruvv={fh}"
    fam = "fhmruvv" if fh else "an3lo"
    try:
        S = np.asarray(ad.gamma_singlet_qed(order, N, nf, var, fh))
        V = np.asarray(ad.gamma_valence_qed(order, N, nf, var, fh))
        G = {m: np.asarray(ad.gamma_ns_qed(order, m, N, nf, var, fh)) for m in QED_NS}
    except Exception as e:  # noqa: BLE001
        return res.fail(exc_bucket(f"{ID}/call/qed", e), f"{ctx}: {e!r}")
    try:
        qs = np.asarray(ad.gamma_singlet((k, 0), N, nf, var, fh))
        qns = {m: np.asarray(ad.gamma_ns((k, 0), m, N, nf, var, fh)) for m in (10101, 10201, 10200)}
    except Exception as e:  # noqa: BLE001
        return res.fail(exc_bucket(f"{ID}/call/qcd", e), f"{ctx}: {e!r}")

    # ---- shapes
    if S.shape != (k + 1, l + 1, 4, 4) or V.shape != (k + 1, l + 1, 2, 2) or any(
        g.shape != (k + 1, l + 1) for g in G.values()
    ):
        return res.fail(f"{ID}/shape", f"{ctx}: shapes {S.shape}, {V.shape}, {[g.shape for g in G.values()]}")

    # ---- (embed) + (photon)
    for name, arr in (("singlet_qed", S), ("valence_qed", V)):
        if np.any(arr[0, 0] != 0):
            res.fail(f"{ID}/embed/{name}/as0aem0", f"{ctx}: slice [0,0] of {name} is not zero: {arr[0, 0].tolist()}")
    for m, g in G.items():
        if g[0, 0] != 0:
            res.fail(f"{ID}/embed/ns_qed/as0aem0", f"{ctx}: gamma_ns_qed[{m}][0,0] = {g[0, 0]}")
    for i in range(1, k + 1):
        lab = f"as{i}"
        q = qs[i - 1]  # [[qq, qg], [gq, gg]]
        nsp, nsm, nsv = qns[10101][i - 1], qns[10201][i - 1], qns[10200][i - 1]
        M = S[i, 0]
        # photon row and column
        if np.any(M[1, :] != 0) or np.any(M[:, 1] != 0):
            res.fail(
                f"{ID}/photon/{lab}",
                f"{ctx}: photon row/column of gamma_singlet_qed[{i},0] not zero: row {M[1].tolist()}, column "
                f"{M[:, 1].tolist()}",
            )
        want = {
            (0, 0): ("gg", q[1, 1]), (0, 2): ("gq", q[1, 0]), (2, 0): ("qg", q[0, 1]), (2, 2): ("qq", q[0, 0]),
            (3, 3): ("ns+", nsp),
        }  # fmt: skip
        for a in range(4):
            for b in range(4):
                if a == 1 or b == 1:
                    continue
                if (a, b) in want:
                    nm, ref = want[(a, b)]
                    if not _close(M[a, b], ref):
                        extra = ""
                        if (a, b) == (3, 3) and i == 4:
                            extra = f"/{fam}/var_qq{'==' if var[3] == var[4] else '!='}var_nsp"
                        res.fail(
                            f"{ID}/embed/singlet_qed/{lab}/{SLOTS[a]}{SLOTS[b]}{extra}",
                            f"{ctx}: gamma_singlet_qed[{i},0][{SLOTS[a]},{SLOTS[b]}] = {M[a, b]!r} but QCD "
                            f"{nm}^({i}) = {ref!r} (rel diff {abs(M[a, b] - ref) / max(abs(ref), 1e-300):.3e})",
                        )
                elif M[a, b] != 0:
                    res.fail(
                        f"{ID}/embed/singlet_qed/{lab}/zero",
                        f"{ctx}: gamma_singlet_qed[{i},0][{SLOTS[a]},{SLOTS[b]}] = {M[a, b]!r}, must vanish",
                    )
        W = V[i, 0]
        for (a, b), (nm, ref) in {(0, 0): ("nsV", nsv), (1, 1): ("ns-", nsm)}.items():
            if not _close(W[a, b], ref):
                res.fail(
                    f"{ID}/embed/valence_qed/{lab}/{'V' if a == 0 else 'Vd'}",
                    f"{ctx}: gamma_valence_qed[{i},0][{a},{b}] = {W[a, b]!r} but QCD {nm}^({i}) = {ref!r}",
                )
        if W[0, 1] != 0 or W[1, 0] != 0:
            res.fail(f"{ID}/embed/valence_qed/{lab}/zero", f"{ctx}: off-diagonal {W[0, 1]!r}, {W[1, 0]!r}")
        for m, (sgn, _typ) in QED_NS.items():
            ref = nsp if sgn == "p" else nsm
            if not _close(G[m][i, 0], ref):
                res.fail(
                    f"{ID}/embed/ns_qed/{lab}/ns{sgn}",
                    f"{ctx}: gamma_ns_qed[{m}][{i},0] = {G[m][i, 0]!r} but QCD ns{'+' if sgn == 'p' else '-'}^({i}) "
                    f"= {ref!r}",
                )

    # ---- (charges) in the non-singlet grid
    f01 = {}
    f11 = {}
    for sgn, mu, md in (("p", 10102, 10103), ("m", 10202, 10203)):
        for lab, idx, store in (("as0aem1", (0, 1), f01), ("as1aem1", (1, 1), f11)):
            u, d = G[mu][idx], G[md][idx]
            if not _close(u * ED2, d * EU2):
                res.fail(
                    f"{ID}/charges/ns_qed/{lab}/ratio",
                    f"{ctx}: ns{sgn} {lab}: up {u!r}, down {d!r}; up/down = {u / d if d != 0 else 'inf'} != "
                    f"e_u^2/e_d^2 = 4",
                )
            store[sgn] = u / EU2
        ref = G[mu][1, 0] / CF
        if not _close(f01[sgn], ref):
            res.fail(
                f"{ID}/charges/ns_qed/as0aem1/abelian",
                f"{ctx}: gamma_ns^(0,1)/e_u^2 = {f01[sgn]!r} but gamma_ns^(1,0)/C_F = {ref!r}",
            )
    if not _close(f01["p"], f01["m"]):
        res.fail(f"{ID}/charges/ns_qed/as0aem1/pm", f"{ctx}: O(aem) ns+ and ns- differ: {f01}")
    Bs = {}
    if l >= 2:
        es2 = float(Q.e_sigma2(nf))
        for m, (sgn, typ) in QED_NS.items():
            e2 = EU2 if typ == "u" else ED2
            Bs[m] = (G[m][0, 2] / e2 - e2 * f11[sgn] / (2 * CF)) / es2
        b0 = Bs[10102]
        for m, b in Bs.items():
            if not _close(b, b0):
                res.fail(
                    f"{ID}/charges/ns_qed/as0aem2/decomposition",
                    f"{ctx}: (gamma_q^(0,2)/e_q^2 - e_q^2 gamma^(1,1)/(2 C_F e_q^2))/e_Sigma^2 is not "
                    f"sector/charge independent: {Bs}",
                )
        nf2 = case["nf2"]
        try:
            G2 = np.asarray(ad.gamma_ns_qed((1, 2), 10102, N, nf2, var, fh))
            s0 = np.asarray(ad.gamma_ns((2, 0), 10101, N, 3, var, fh))[1]
            s1 = np.asarray(ad.gamma_ns((2, 0), 10101, N, 4, var, fh))[1]
        except Exception as e:  # noqa: BLE001
            return res.fail(exc_bucket(f"{ID}/call/nf2", e), f"{ctx}, nf2={nf2}: {e!r}")
        b2 = (G2[0, 2] / EU2 - EU2 * (G2[1, 1] / EU2) / (2 * CF)) / float(Q.e_sigma2(nf2))
        if not _close(b2, b0):
            res.fail(
                f"{ID}/charges/ns_qed/as0aem2/nf-independence",
                f"{ctx}: nf-part of gamma_ns^(0,2) per unit e_Sigma^2: {b0!r} at nf={nf}, {b2!r} at nf={nf2}",
            )
        slope = (s1 - s0) / (CF * TR)
        if not abs(b0 - slope) <= 1e-11 * max(abs(b0), abs(s0) / CF):
            res.fail(
                f"{ID}/charges/ns_qed/as0aem2/qcd-slope",
                f"{ctx}: nf-part of gamma_ns^(0,2) = {b0!r} but (gamma_ns+^(2,0)(nf=4) - gamma_ns+^(2,0)(nf=3))/"
                f"(C_F T_R) = {slope!r}",
            )

    # ---- (rotation) quark blocks of the singlet / valence grids at the QED orders
    cns = [[float(x) for x in row] for row in Q.charge_matrix_ns(nf)]
    cps = [[float(x) for x in row] for row in Q.charge_matrix_ps(nf)]

    def block_cmp(label, got, want):
        sc = max(abs(want[a][b]) for a in range(2) for b in range(2))
        for a in range(2):
            for b in range(2):
                if not abs(got[a][b] - want[a][b]) <= TOL * sc:
                    res.fail(
                        f"{ID}/rotation/{label}",
                        f"{ctx}: {label}[{a},{b}] = {got[a][b]!r} but rotation of the per-type kernels gives "
                        f"{want[a][b]!r}",
                    )

    for lab, idx, fS, fV in (("as0aem1", (0, 1), f01["p"], f01["m"]), ("as1aem1", (1, 1), f11["p"], f11["m"])):
        block_cmp(f"singlet_qed/{lab}", S[idx][2:, 2:], [[cns[a][b] * fS for b in range(2)] for a in range(2)])
        block_cmp(f"valence_qed/{lab}", V[idx], [[cns[a][b] * fV for b in range(2)] for a in range(2)])
    if l >= 2:
        try:
            from ekore.anomalous_dimensions.unpolarized.space_like import aem2

            gps = aem2.gamma_ps(N, nf)
        except Exception as e:  # noqa: BLE001
            return res.fail(exc_bucket(f"{ID}/call/aem2.gamma_ps", e), f"{ctx}: {e!r}")
        rotS = Q.diag_in_unified(nf, G[10102][0, 2], G[10103][0, 2])
        rotV = Q.diag_in_unified(nf, G[10202][0, 2], G[10203][0, 2])
        block_cmp(
            "singlet_qed/as0aem2", S[0, 2][2:, 2:], [[rotS[a][b] + cps[a][b] * gps for b in range(2)] for a in range(2)]
        )
        block_cmp("valence_qed/as0aem2", V[0, 2], rotV)
        # no gluon at pure QED orders
        for idx in ((0, 1), (0, 2)):
            if np.any(S[idx][0, :] != 0) or np.any(S[idx][:, 0] != 0):
                res.fail(f"{ID}/gluon/as0aem{idx[1]}", f"{ctx}: gluon row/column at pure-QED order {idx} not zero")
    elif np.any(S[0, 1][0, :] != 0) or np.any(S[0, 1][:, 0] != 0):
        res.fail(f"{ID}/gluon/as0aem1", f"{ctx}: gluon row/column at pure-QED order (0,1) not zero")
    return res


# ------------------------------------------------------------------------------------------ generation

POPS = ["box", "box", "box", "talbot-ns", "talbot-s", "left", "real", "edge"]


def n_from(pop, seed):
    import math

    import numpy as np

    rng = np.random.default_rng(seed)
    sgn = 1.0 if rng.integers(2) else -1.0
    if pop in ("talbot-ns", "talbot-s"):
        t = float(rng.uniform(0.5005, 0.95))
        theta = math.pi * (2 * t - 1)
        if pop == "talbot-ns":
            r, o = 0.5, 0.0
        else:
            r, o = 0.4 * 16.0 / (1.0 - float(rng.uniform(math.log(1e-7), 0.0))), 1.0
        return [o + r * theta / math.tan(theta), sgn * r * theta]
    if pop == "box":
        return [float(rng.uniform(1.2, 40.0)), float(rng.uniform(-40.0, 40.0))]
    if pop == "left":
        return [float(rng.uniform(-6.0, 1.2)), sgn * float(10 ** rng.uniform(-1.0, 1.3))]
    if pop == "real":
        return [float(rng.uniform(1.2, 40.0)), 0.0]
    raise ValueError(pop)


def _fl(lo, hi):
    return st.floats(lo, hi, allow_nan=False, allow_infinity=False)


AN3LO_VAR_MAX = (19, 15, 15, 6)
ORDERS = [(1, 1), (1, 2), (2, 1), (2, 2), (2, 2), (3, 1), (3, 2), (3, 2), (4, 1), (4, 1), (4, 2), (4, 2), (4, 2)]


@st.composite
def _case(draw):
    import numpy as np

    pop = draw(st.sampled_from(POPS))
    seed = draw(st.integers(0, 2**32 - 1))
    if pop == "edge":
        N = [draw(_fl(1.2, 40.0)), draw(_fl(-40.0, 40.0))]
    else:
        N = n_from(pop, seed)
    # discrete parameters from the seeded generator as well: Hypothesis' own integer / sampled_from draws are
    # strongly biased towards the first values (measured: nf=3 in 56 % of the cases)
    rng = np.random.default_rng([seed, 1])
    k, l = ORDERS[int(rng.integers(len(ORDERS)))]
    fh = bool(rng.integers(2)) if k >= 4 else True
    if k >= 4:
        var = draw(
            st.one_of(
                st.integers(0, 2).map(lambda v: [v] * 7),
                st.lists(st.integers(0, 2), min_size=7, max_size=7),
            )
        )
        if not fh and draw(st.booleans()):
            # documented ranges of the in-house family (N3LO_ad.rst): gg 0-19, gq 0-15, qg 0-15, qq 0-6
            var = [draw(st.integers(0, hi)) for hi in AN3LO_VAR_MAX] + [0, 0, 0]
    else:
        var = [0] * 7
    nfs = [3, 4, 5] if (k >= 4 and fh) else [3, 4, 5, 6]
    nf = int(nfs[int(rng.integers(len(nfs)))])
    others = [x for x in (3, 4, 5, 6) if x != nf]
    nf2 = int(others[int(rng.integers(3))]) if l >= 2 else nf
    return {"N": N, "pop": pop, "order": [k, l], "nf": nf, "nf2": nf2, "var": var, "fh": fh}


def strategy(tier):
    return _case()


def budget(tier):
    if tier == "quick":
        return dict(max_examples=800, shards=8, wall_s=80, shrink_s=40)
    return dict(max_examples=12000, shards=16, wall_s=800, shrink_s=120)

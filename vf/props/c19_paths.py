"""C19 flavour-number paths through the matching scales are well formed.

Exhaustive symbolic part + random numeric part, both judged by the clause-by-clause validity predicate of the
statement and by the reference path model in ``vf/refs/paths.py``.
"""

import itertools
import math

from vf.core import CaseResult, exc_bucket
from vf.refs import paths as ref

ID = "C19"
LEVEL = "exploration"
TECHNIQUE = (
    "exhaustive enumeration over (nf0, nff) x all weak orderings of symbolic scale tokens + random numeric "
    "atlases; validity predicate of the statement and reference path model"
)
RULE = (
    "Exhaustive part: every (nf0, nff) in {3..6}^2 x every weak ordering of the five scales {mu_c, mu_b, mu_t, "
    "origin, target} with the three matching scales pairwise distinct (all permutations of the walls, origin/"
    "target in every gap and on every wall), scales passed as opaque symbolic tokens that only support "
    "comparison (so the result cannot depend on numeric values); plus the same orderings with naturally sorted "
    "numeric walls and nf0 and/or nff unspecified (default nf). Random part: numeric atlases with walls drawn "
    "from a pool containing 0, inf, repeated values (coincident walls), sorted and unsorted, also built through "
    "Atlas.ffns; origin/target scales drawn from the walls themselves or free; nf in {3..6, None} (None only with "
    "sorted walls). Non-trivial = nf0 != nff, or a scale sitting on a wall, or coincident walls; distinct by case."
)
ASSUMPTIONS = [
    "reference model and predicate in vf/refs/paths.py are typed from the property statement, not from eko.matchings",
    "default nf of a scale = 3 + #(matching scales <= scale); the default flow is only defined for naturally "
    "sorted matching scales, so nf=None is generated only with (weakly) sorted walls",
    "symbolic tokens implement ordering comparisons and string formatting only (the Atlas constructor logs its "
    "walls); any arithmetic on a scale inside path construction would raise and be reported",
    "domain: nf0, nff in 3..6; scales finite and positive; matching scales in [0, inf]",
    "exact comparison (no tolerance): paths are built by slicing, no arithmetic on scales is allowed to happen",
]
LEVEL_TEXT = (
    "The symbolic part is exhaustive over the finite set of (nf0, nff) pairs and relative orderings of distinct "
    "matching scales, so within that domain the claim is decided; coincident / infinite / zero walls and default "
    "nf are explored by random generation."
)

NAMES = ("c", "b", "t", "o", "f")


class Sym:
    """Opaque scale token: total pre-order through ``rank``, identity equality, no arithmetic."""

    __slots__ = ("name", "rank")

    def __init__(self, name, rank):
        self.name = name
        self.rank = rank

    def _r(self, other):
        if isinstance(other, Sym):
            return other.rank
        if other == 0:
            return -math.inf
        if other == math.inf:
            return math.inf
        raise TypeError(f"symbolic scale compared with {other!r}")

    def __lt__(self, o):
        return self.rank < self._r(o)

    def __le__(self, o):
        return self.rank <= self._r(o)

    def __gt__(self, o):
        return self.rank > self._r(o)

    def __ge__(self, o):
        return self.rank >= self._r(o)

    def __repr__(self):
        return f"<{self.name}>"

    def __format__(self, spec):
        return f"<{self.name}>"

    __hash__ = object.__hash__


def _weak_orderings():
    """All rank maps of the five names onto 0..k-1 (surjective) with c, b, t pairwise distinct."""
    out = []
    for ranks in itertools.product(range(5), repeat=5):
        used = set(ranks)
        if used != set(range(len(used))):
            continue
        if len({ranks[0], ranks[1], ranks[2]}) != 3:
            continue
        out.append(list(ranks))
    return out


def enumerate_cases(tier):
    cases = []
    orders = _weak_orderings()
    for nf0 in range(3, 7):
        for nff in range(3, 7):
            for r in orders:
                cases.append({"kind": "sym", "nf0": nf0, "nff": nff, "rank": r})
    sorted_orders = [r for r in orders if r[0] < r[1] < r[2]]
    for nf0 in (None, 3, 4, 5, 6):
        for nff in (None, 3, 4, 5, 6):
            if nf0 is not None and nff is not None:
                continue
            for r in sorted_orders:
                cases.append({"kind": "symnum", "nf0": nf0, "nff": nff, "rank": r})
    return cases


def strategy(tier):
    from hypothesis import strategies as st

    pool = st.sampled_from([0.0, 0.5, 1.0, 2.0, 2.0, 3.0, 7.5, "inf"])
    free = st.floats(0.01, 100.0, allow_nan=False)
    nfs = st.sampled_from([None, 3, 4, 5, 6])

    @st.composite
    def build(draw):
        mode = draw(st.sampled_from(["sorted", "sorted", "unsorted", "ffns"]))
        ffns = None
        if mode == "ffns":
            ffns = draw(st.integers(3, 6))
            walls = [0.0] * (ffns - 3) + ["inf"] * (6 - ffns)
        else:
            walls = [draw(st.one_of(pool, free)) for _ in range(3)]
            if mode == "sorted":
                walls.sort(key=_num)
        is_sorted = _num(walls[0]) <= _num(walls[1]) <= _num(walls[2])
        finite = [w for w in walls if w != "inf" and w > 0]

        def scale():
            if finite and draw(st.booleans()):
                return draw(st.sampled_from(finite))
            return draw(free)

        mu0, muf = scale(), scale()
        if draw(st.integers(0, 5)) == 0:
            muf = mu0
        nf0 = draw(nfs) if is_sorted else draw(st.integers(3, 6))
        nff = draw(nfs) if is_sorted else draw(st.integers(3, 6))
        if ffns is not None:
            nf0 = ffns  # Atlas.ffns sets the origin nf itself
        return {"kind": "num", "walls": walls, "origin": [mu0, nf0], "target": [muf, nff], "ffns": ffns}

    return build()


def _num(x):
    return math.inf if x == "inf" else float(x)


def _setup(case):
    """-> walls (list of 3), origin, target as objects passed to the code, plus class labels."""
    if case["kind"] in ("sym", "symnum"):
        r = dict(zip(NAMES, case["rank"]))
        if case["kind"] == "sym":
            tok = {n: Sym(n, r[n]) for n in NAMES}
        else:
            tok = {n: 10.0 * (r[n] + 1) for n in NAMES}
        walls = [tok["c"], tok["b"], tok["t"]]
        origin = (tok["o"], case["nf0"])
        target = (tok["f"], case["nff"])
        onwall = r["o"] in (r["c"], r["b"], r["t"]) or r["f"] in (r["c"], r["b"], r["t"])
        coincident = False
    else:
        walls = [_num(w) for w in case["walls"]]
        origin = (float(case["origin"][0]), case["origin"][1])
        target = (float(case["target"][0]), case["target"][1])
        onwall = origin[0] in walls or target[0] in walls
        coincident = len(set(walls)) < 3
    return walls, origin, target, onwall, coincident


def check_case(case):
    from eko import matchings
    from eko.matchings import Atlas, Matching, Segment

    res = CaseResult()
    walls, origin, target, onwall, coincident = _setup(case)
    kind = case["kind"]

    # ---- expected values (reference model; default nf from the statement's "default flow")
    e_origin = ref.normalize(origin, walls)
    e_target = ref.normalize(target, walls)
    nf0, nff = e_origin[1], e_target[1]
    direction = "up" if nff > nf0 else "down" if nff < nf0 else "flat"
    res.nontrivial = bool(nf0 != nff or onwall or coincident)
    res.classes = [
        f"{kind}/{direction}",
        f"steps={abs(nff - nf0)}",
    ]
    if onwall:
        res.classes.append("scale-on-wall")
    if coincident:
        res.classes.append("coincident-walls")
    if kind == "num":
        if any(w == math.inf for w in walls):
            res.classes.append("inf-wall")
        if any(w == 0 for w in walls):
            res.classes.append("zero-wall")
        if case.get("ffns") is not None:
            res.classes.append("via-Atlas.ffns")
        if walls != sorted(walls):
            res.classes.append("unsorted-walls")
    if origin[1] is None:
        res.classes.append("origin-nf-default")
    if target[1] is None:
        res.classes.append("target-nf-default")

    # ---- code under test
    try:
        if kind == "num" and case.get("ffns") is not None:
            atlas = Atlas.ffns(case["ffns"], origin[0])
            got_walls = atlas.walls[1:-1]
            if [float(w) for w in got_walls] != walls:
                res.fail(f"{ID}/ffns/walls", f"Atlas.ffns({case['ffns']}) has walls {atlas.walls}")
        else:
            atlas = Atlas(list(walls), origin)
        path = atlas.path(target)
        mpath = atlas.matched_path(target)
        norm_t = atlas.normalize(target)
        dflt = None
        if target[1] is None:
            dflt = matchings.nf_default(target[0], atlas)
    except Exception as e:  # noqa: BLE001
        res.fail(exc_bucket(f"{ID}/call/{kind}", e), f"{type(e).__name__}: {e}")
        return res

    # default nf
    if tuple(atlas.origin) != tuple(e_origin) or not isinstance(atlas.origin[1], int):
        res.fail(f"{ID}/default-nf/origin", f"atlas.origin={atlas.origin!r}, expected {e_origin!r}")
    if tuple(norm_t) != tuple(e_target):
        res.fail(f"{ID}/default-nf/target", f"normalize({target!r})={norm_t!r}, expected {e_target!r}")
    if dflt is not None and dflt != nff:
        res.fail(f"{ID}/default-nf/nf_default", f"nf_default({target[0]!r})={dflt}, expected {nff} for walls {walls}")

    # path: predicate of the statement
    segs = []
    for s in path:
        if not isinstance(s, Segment):
            res.fail(f"{ID}/path/type", f"path element {s!r} is not a Segment")
            return res
        segs.append((s.origin, s.target, s.nf))
    defects = ref.path_defects(walls, origin, target, segs)
    for clause, msg in defects:
        res.fail(f"{ID}/path/{clause}/{direction}", f"{msg}; path={segs!r} walls={walls!r} {origin!r}->{target!r}")
    # path: reference model (same content, independent formulation)
    want = ref.ref_path(walls, origin, target)
    if not defects and (len(want) != len(segs) or any(
        not (ref.same(a[0], b[0]) and ref.same(a[1], b[1]) and a[2] == b[2]) for a, b in zip(want, segs)
    )):
        res.fail(f"{ID}/path/model/{direction}", f"path {segs!r} differs from the model {want!r}")

    # matched path
    wantm = ref.ref_matched_path(walls, origin, target)
    gotm = []
    for it in mpath:
        if isinstance(it, Segment):
            gotm.append(("seg", it.origin, it.target, it.nf))
        elif isinstance(it, Matching):
            gotm.append(("match", it.scale, it.hq, it.inverse))
        else:
            gotm.append(("?", it))
    # structural clauses first (finer buckets), then the model (only when nothing finer fired)
    n_before = len(res.violations)
    gsegs = [g[1:] for g in gotm if g[0] == "seg"]
    if len(gsegs) != len(segs) or any(
        not (ref.same(a[0], b[0]) and ref.same(a[1], b[1]) and a[2] == b[2]) for a, b in zip(gsegs, segs)
    ):
        res.fail(f"{ID}/matched/segments", f"segments of matched path {gsegs!r} differ from path {segs!r}")
    gm = [g for g in gotm if g[0] == "match"]
    if len(gm) != len(segs) - 1 or [g[0] for g in gotm] != (["seg", "match"] * len(segs))[:-1]:
        res.fail(f"{ID}/matched/interleaving", f"matched path layout {[g[0] for g in gotm]} for {len(segs)} segments")
    else:
        for i, g in enumerate(gm):
            a, b = segs[i], segs[i + 1]
            if g[2] != max(a[2], b[2]):
                res.fail(f"{ID}/matched/heavier-quark/{direction}", f"matching {i} names quark {g[2]} for nf {a[2]}->{b[2]}")
            if not isinstance(g[3], (bool,)) and type(g[3]).__name__ != "bool_":
                res.fail(f"{ID}/matched/inverse-type", f"inverse flag {g[3]!r} is not a bool")
            if bool(g[3]) != (b[2] < a[2]):
                res.fail(f"{ID}/matched/inverse-flag/{direction}", f"matching {i} inverse={g[3]} for nf {a[2]}->{b[2]}")
            if not ref.same(g[1], a[1]):
                res.fail(f"{ID}/matched/scale/{direction}", f"matching {i} at {g[1]!r}, step is at {a[1]!r}")
    if len(res.violations) == n_before and not defects and (len(wantm) != len(gotm) or any(
        a[0] != b[0] or len(a) != len(b)
        or not all(ref.same(x, y) if not isinstance(x, (int, bool)) else x == y for x, y in zip(a[1:], b[1:]))
        for a, b in zip(wantm, gotm)
    )):
        res.fail(f"{ID}/matched/model/{direction}", f"matched path {gotm!r} differs from the model {wantm!r}")
    return res


def budget(tier):
    if tier == "quick":
        return dict(max_examples=2000, shards=4, enum_shards=4, wall_s=60)
    return dict(max_examples=50000, shards=16, enum_shards=8, wall_s=600)


def evidence_extra(tier):
    n = len(enumerate_cases(tier))
    return {
        "exhaustive_part": {
            "exhaustive": True,
            "cases": n,
            "domain": "(nf0, nff) in {3..6}^2 x all weak orderings of {mu_c, mu_b, mu_t, origin, target} with distinct "
                      "walls (symbolic tokens), plus default-nf variants on sorted numeric walls",
        }
    }

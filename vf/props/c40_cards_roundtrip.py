"""C40 runcards and dict-like structures round-trip through their raw form; declared interpolation settings are used."""

import copy
import dataclasses
import enum
import typing

import numpy as np

from vf.core import CaseResult, exc_bucket
from vf.refs import s2_cards as sc

ID = "C40"
LEVEL = "exploration"
ENGINE = "S"
TECHNIQUE = (
    "Hypothesis-generated card settings / dict-like classes from a type grammar; oracle = safe YAML acceptance, "
    "structural field-by-field equality after raw -> safe_dump -> safe_load -> from_dict, interpolator settings"
)
RULE = (
    "(cards) settings drawn over QCD order 1-4 x QED 0-2, POLE/MSBAR, all 8 evolution methods, scale-variation and "
    "inversion methods incl. None, enum values spelled by value or by member name, N3LO variations, optional fields "
    "(use_fhmruvv, matching_order, n_integration_cores, eko_version) present/absent/None, 1-4 evolution points, grids "
    "(jittered log lists, make_grid / lambertgrid / geomspace / linspace node lists, 2-45 nodes, degree 1-5), "
    "interpolation_is_log true/false, the grid optionally assigned as XGrid(nodes, log=declared flag); 0-3 leaves replaced "
    "by np.float64/float32/int64/int32/bool_/0-d arrays either in the raw input of from_dict or by attribute assignment "
    "on the built card (tuples rebuilt). (dictlike) DictLike subclasses built with dataclasses.make_dataclass from a "
    "type grammar (int, float, str, bool, two Enums, npt.NDArray, XGrid, dict, plain dataclass, Optional[T], List[T], "
    "Tuple[scalars], nested DictLike; depth <= 2) with matching values (numpy scalars at random numeric leaves, tricky "
    "YAML strings, np.str_ strings, str-/int-mixin Enums, None for optionals incl. Optional[T] fields with a non-None "
    "default holding an explicit None), instantiated through the constructor. (eko) the cards are stored in an EKO "
    "through the public API (EKO.create.load_cards.build; half of the cases with linear interpolation; the flag "
    "optionally set by attribute assignment after construction, use_fhmruvv optionally an explicit None set by "
    "assignment), and eko.theory_card / eko.operator_card are read while the EKO is being built and after close + "
    "EKO.read / EKO.edit / both: they must equal the stored cards built directly by the harness (grid nodes, xgrid.log "
    "= configs.interpolation_is_log = declared flag, every other field), and commons.interpolator(served card) must "
    "have the declared settings. Oracle: .raw contains only "
    "dict/list/str/int/float/bool/None and yaml.safe_dump -> yaml.safe_load returns it unchanged; from_dict of the "
    "loaded data equals the original field by field (numpy leaves by value, arrays by shape / dtype kind / value, "
    "XGrid by nodes and log flag, containers by class); runner.commons.interpolator(card) (also on the reloaded card, "
    "which is what the runner reads back from the archive) has the declared degree, nodes and interpolation_is_log, also "
    "when evaluated alternately with a twin card differing only in interpolation_is_log (card, twin, card, twin or twin "
    "first), and its basis functions at an interior point equal the exact Lagrange reference of the declared type; "
    "the card built by from_dict reproduces every value of its input (numpy leaves by value, enum names as values; "
    "explicit None kept except matching_order=None which asks for the default). "
    "Non-trivial = a card differing from ekobox.cards.example in >= 3 leaf values, or any case with a numpy leaf / "
    "array field / linear (log=False) grid; distinct by the whole case."
)
ASSUMPTIONS = [
    "cards are built through from_dict (the path every caller uses); dict-like instances through their constructor",
    "supported field types = those handled by eko.io.dictlike.load_field / raw_field: scalars, Enum (value or name), "
    "npt.NDArray (>= 1-d, bool/int/float), XGrid, dict with plain content, plain dataclass, Optional, List, Tuple of "
    "scalars, nested DictLike; abstract hints (Sequence) are documented as unsupported and not generated",
    "equality is exact (YAML float repr round-trips exactly); nan equals nan",
    "'declared' interpolation settings = configs.interpolation_polynomial_degree, configs.interpolation_is_log and the "
    "xgrid nodes of the operator card",
]
LEVEL_TEXT = (
    "Generated-input exploration of the (de)serialisation layer with a structural oracle; samples the card / type "
    "space, does not exhaust it."
)


BASIS_TOL = 1e-6  # x (1 + sum |p_j|): rounding of the monomial-expanded basis; log vs linear bases differ by O(1e-2..1)


def budget(tier):
    if tier == "quick":
        return dict(max_examples=400, shards=8, wall_s=90, shrink_s=15)
    return dict(max_examples=8000, shards=16, wall_s=600, shrink_s=120)


# ----------------------------------------------------------------------------- strategies

TRICKY = ["", "s", "yes", "null", "~", "1.0", "1e3", "0x10", " lead", "a: b", "# c", "-", "é", "[x]", "multi\nline", "True"]
SCALARS = ["int", "float", "str", "bool"]


def _st_scalar(draw, st, t, allow_np=True):
    if t == "int":
        v = draw(st.integers(-(2**31) + 1, 2**31 - 1))
    elif t == "float":
        v = draw(st.one_of(st.floats(-1e6, 1e6), st.floats(allow_nan=False, allow_infinity=False), st.just(2.0)))
    elif t == "bool":
        v = draw(st.booleans())
    else:
        v = draw(st.one_of(st.sampled_from(TRICKY), st.text(max_size=6)))
        return {"v": v, "np": draw(st.sampled_from([None, None, "str_"])) if allow_np else None}
    npk = draw(st.sampled_from([None, None] + sc.NP_FOR[t])) if allow_np else None
    return {"v": v, "np": npk}


def _draw_type(draw, st, depth):
    kinds = SCALARS + ["enum_s", "enum_i", "enum_str", "enum_int", "ndarray", "ndarray", "xgrid", "dict", "plain"]
    if depth > 0:
        kinds = kinds + ["opt", "opt", "optd", "optd", "list", "tuple", "nested"]
    k = draw(st.sampled_from(kinds))
    if k == "optd":  # Optional[T] = <non-None default>: an explicit None is a value, not a request for the default
        inner = draw(st.sampled_from(SCALARS + ["enum_s", "enum_i", "enum_str", "enum_int"]))
        dflt = _draw_value(draw, st, inner)
        if "np" in dflt:
            dflt["np"] = None
        return ["optd", inner, dflt]
    if k == "opt":
        inner = _draw_type(draw, st, depth - 1)
        return inner if not isinstance(inner, str) and inner[0] == "opt" else ["opt", inner]  # Optional[Optional[T]] is Optional[T]
    if k == "list":
        return ["list", _draw_type(draw, st, depth - 1)]
    if k == "tuple":
        return ["tuple", draw(st.lists(st.sampled_from(SCALARS), min_size=1, max_size=3))]
    if k == "nested":
        return ["nested", [_draw_type(draw, st, depth - 1) for _ in range(draw(st.integers(1, 3)))]]
    return k


def _draw_value(draw, st, t):
    if isinstance(t, str):
        if t in SCALARS:
            return _st_scalar(draw, st, t)
        if t == "enum_s":
            return {"v": draw(st.sampled_from(["RED", "GREEN", "DEEP_BLUE"]))}
        if t == "enum_i":
            return {"v": draw(st.sampled_from(["LOW", "HIGH"]))}
        if t == "enum_str":
            return {"v": draw(st.sampled_from(["ALPHA", "BETA_GAMMA"]))}
        if t == "enum_int":
            return {"v": draw(st.sampled_from(["ONE", "TWO", "SEVEN"]))}
        if t == "ndarray":
            dtype = draw(st.sampled_from(["float64", "float64", "float32", "int64", "int32", "bool"]))
            shape = draw(st.lists(st.integers(1, 3), min_size=1, max_size=3))
            n = int(np.prod(shape))
            if dtype.startswith("float"):
                flat = [draw(st.floats(-1e3, 1e3, width=32)) for _ in range(n)]
            elif dtype.startswith("int"):
                flat = [draw(st.integers(-1000, 1000)) for _ in range(n)]
            else:
                flat = [draw(st.booleans()) for _ in range(n)]
            return {"dtype": dtype, "shape": shape, "flat": flat}
        if t == "xgrid":
            _, xs, _ = draw(sc.st_grid())
            return {"nodes": xs[:3] + xs[-3:] if len(xs) > 6 else xs, "log": draw(st.booleans())}
        if t == "dict":
            return {"v": draw(st.dictionaries(st.sampled_from(["my", "nice", "dict", "k"]),
                                              st.one_of(st.integers(-5, 5), st.sampled_from(TRICKY), st.booleans(),
                                                        st.none()), max_size=3))}
        if t == "plain":
            return {"i": draw(st.integers(-9, 9)), "f": draw(st.floats(-10, 10))}
        raise ValueError(t)
    if t[0] == "optd":
        return None if draw(st.booleans()) else _draw_value(draw, st, t[1])
    if t[0] == "opt":
        return None if draw(st.integers(0, 2)) == 0 else _draw_value(draw, st, t[1])
    if t[0] == "list":
        return [_draw_value(draw, st, t[1]) for _ in range(draw(st.integers(0, 3)))]
    if t[0] == "tuple":
        return [_st_scalar(draw, st, x) for x in t[1]]
    return [_draw_value(draw, st, x) for x in t[1]]


def strategy(tier):
    from hypothesis import strategies as st

    @st.composite
    def st_settings_none(draw):
        s = draw(sc.st_settings())
        if draw(st.integers(0, 3)) == 0:
            s["use_fhmruvv"] = None  # Optional[bool] = True holding an explicit None
        return s

    @st.composite
    def eko(draw):
        s = draw(st_settings_none())
        if draw(st.booleans()):
            s["is_log"] = False  # the interesting half: linear interpolation
        return dict(kind="eko", s=s, flag_by_attr=draw(st.booleans()), none_by_attr=draw(st.booleans()),
                    reopen=draw(st.sampled_from(["read", "edit", "edit-read"])))

    @st.composite
    def cards(draw):
        s = draw(st_settings_none())
        leaves = [("theory", p, k) for p, k in sc.leaf_paths(sc.raw_theory(s))]
        leaves += [("operator", p, k) for p, k in sc.leaf_paths(sc.raw_operator(s))]
        # the only free string of the cards; from_dict turns any str subclass into str, so only assignment keeps it
        leaves += [("operator", ["eko_version"], "str")] * 3
        subs = []
        for _ in range(draw(st.sampled_from([0, 1, 1, 2, 3]))):
            card, path, kind = draw(st.sampled_from(leaves))
            how = "raw" if path[0] == "xgrid" else ("attr" if kind == "str" else draw(st.sampled_from(["raw", "attr"])))
            subs.append(dict(card=card, path=path, np=draw(st.sampled_from(sc.NP_FOR[kind])), how=how))
        return dict(kind="cards", s=s, subs=subs, grid_obj=draw(st.sampled_from([False, False, True])),
                    twin_first=draw(st.booleans()))

    @st.composite
    def dictlike(draw):
        fields = []
        for _ in range(draw(st.integers(1, 4))):
            t = _draw_type(draw, st, 2)
            fields.append([t, _draw_value(draw, st, t)])
        return dict(kind="dictlike", fields=fields)

    return st.one_of(cards(), cards(), dictlike(), dictlike(), eko())


# ----------------------------------------------------------------------------- dict-like construction


class Colour(enum.Enum):
    RED = "red"
    GREEN = "green"
    DEEP_BLUE = "deep-blue"


class Level(enum.Enum):
    LOW = 1
    HIGH = 2


class Kind(str, enum.Enum):
    """Enum with a str mixin: its members are str instances."""

    ALPHA = "alpha"
    BETA_GAMMA = "beta-gamma"


class Rank(enum.IntEnum):
    """Enum with an int mixin: its members are int instances."""

    ONE = 1
    TWO = 2
    SEVEN = 7


@dataclasses.dataclass
class PlainDC:
    i: int
    f: float


def _leaf(spec):
    v = spec["v"]
    return sc.NP_MAKERS[spec["np"]](v) if spec.get("np") else v


def _ann(t, counter):
    """Annotation for a type spec (nested DictLike classes are created here, once)."""
    import numpy.typing as npt

    from eko import interpolation
    from eko.io.dictlike import DictLike

    if isinstance(t, str):
        return {"int": int, "float": float, "str": str, "bool": bool, "enum_s": Colour, "enum_i": Level, "enum_str": Kind, "enum_int": Rank,
                "ndarray": npt.NDArray, "xgrid": interpolation.XGrid, "dict": dict, "plain": PlainDC}[t]
    if t[0] in ("opt", "optd"):
        return typing.Optional[_ann(t[1], counter)]
    if t[0] == "list":
        return typing.List[_ann(t[1], counter)]
    if t[0] == "tuple":
        return typing.Tuple[tuple(_ann(x, counter) for x in t[1])]
    counter[0] += 1
    return _make_class(f"Gen{counter[0]}", "g", t[1], counter)


def _make_class(name, prefix, types, counter):
    """DictLike subclass with fields <prefix>i; fields with a default (\"optd\") are declared last, as dataclasses require."""
    from eko.io.dictlike import DictLike

    fields = []
    for i, t in enumerate(types):
        a = _ann(t, counter)
        if not isinstance(t, str) and t[0] == "optd":
            dflt = _val(t[1], None, t[2], dict(np=set(), none=set()))
            fields.append((1, (f"{prefix}{i}", a, dataclasses.field(default=dflt))))
        else:
            fields.append((0, (f"{prefix}{i}", a)))
    fields = [f for _, f in sorted(fields, key=lambda p: p[0])]
    return dataclasses.make_dataclass(name, fields, bases=(DictLike,))


def _val(t, ann, v, info):
    """Typed value for a value spec, using the classes of the annotation."""
    from eko import interpolation

    if isinstance(t, str):
        if t in SCALARS:
            if v.get("np"):
                info["np"].add(v["np"])
            return _leaf(v)
        if t == "enum_s":
            return Colour[v["v"]]
        if t == "enum_i":
            return Level[v["v"]]
        if t == "enum_str":
            info["mixin"] = True
            return Kind[v["v"]]
        if t == "enum_int":
            info["mixin"] = True
            return Rank[v["v"]]
        if t == "ndarray":
            info["array"] = True
            return np.array(v["flat"], dtype=v["dtype"]).reshape(v["shape"])
        if t == "xgrid":
            if not v["log"]:
                info["linear"] = True
            return interpolation.XGrid(v["nodes"], log=v["log"])
        if t == "dict":
            return dict(v["v"])
        if t == "plain":
            return PlainDC(v["i"], v["f"])
        raise ValueError(t)
    if t[0] == "optd":
        if v is None:
            info["none"].add("with-default:" + t[1])
            return None
        return _val(t[1], None, v, info)
    if t[0] == "opt":
        if v is None:
            info["none"].add(t[1] if isinstance(t[1], str) else t[1][0])
            return None
        if not isinstance(t[1], str) and t[1][0] == "opt":  # replayed old cases: typing collapses nested Optionals
            return _val(t[1], ann, v, info)
        inner = [a for a in typing.get_args(ann) if a is not type(None)][0]
        return _val(t[1], inner, v, info)
    if t[0] == "list":
        return [_val(t[1], typing.get_args(ann)[0], x, info) for x in v]
    if t[0] == "tuple":
        return tuple(_val(x, None, y, info) for x, y in zip(t[1], v))
    subs = {f.name: f.type for f in dataclasses.fields(ann)}
    return ann(**{f"g{i}": _val(x, subs[f"g{i}"], y, info) for i, (x, y) in enumerate(zip(t[1], v))})


# ----------------------------------------------------------------------------- oracle


def _flat(raw, prefix=""):
    out = {}
    if isinstance(raw, dict):
        for k, v in raw.items():
            out.update(_flat(v, f"{prefix}.{k}"))
    elif isinstance(raw, (list, tuple)):
        for i, v in enumerate(raw):
            out.update(_flat(v, f"{prefix}[{i}]"))
    else:
        out[prefix] = raw
    return out


def _in_tuple(obj, path):
    """Is the leaf at ``path`` (raw coordinates) held by a tuple in the object?"""
    hit = False
    for p in path:
        try:
            obj = obj[p] if isinstance(p, int) or isinstance(obj, dict) else getattr(obj, p)
        except (AttributeError, KeyError, IndexError, TypeError):
            return hit
        if isinstance(obj, tuple):
            hit = True
    return hit


def _roundtrip(res, what, obj, cls):
    """raw -> plain? -> safe YAML -> from_dict -> equal?  Returns the reloaded object or None."""
    import yaml

    try:
        raw = obj.raw
    except Exception as e:  # noqa: BLE001
        res.fail(exc_bucket(f"{ID}/{what}/raw", e), f"{type(obj).__name__}.raw raised {e!r}")
        return None
    bad = sc.non_plain(raw)
    dumped = None
    try:
        dumped = yaml.safe_dump(raw)
    except yaml.YAMLError as e:
        if not bad:
            res.fail(f"{ID}/{what}/safe_dump-refuses", f"yaml.safe_dump refused raw although all leaves look plain: {e!r}")
            return None
    if bad:
        for path, tname in bad[:3]:
            where = "inside-tuple" if _in_tuple(obj, path) else "scalar-field"
            res.fail(
                f"{ID}/raw-not-plain/{where}",
                f"{type(obj).__name__}.raw{list(path)} is a {tname} ({where}); yaml.safe_dump "
                f"{'refuses the raw data' if dumped is None else 'accepted it nevertheless'}",
            )
        return None
    loaded = yaml.safe_load(dumped)
    if not sc.plain_equal(raw, loaded):
        res.fail(f"{ID}/{what}/yaml-changes-raw", f"safe_load(safe_dump(raw)) != raw: {str(raw)[:300]} -> {str(loaded)[:300]}")
        return None
    try:
        back = cls.from_dict(loaded)
    except Exception as e:  # noqa: BLE001
        bucket = f"{ID}/{what}/from_dict"
        if "__mro__" in repr(e):
            bucket = f"{ID}/ndarray-field-load"
        res.fail(exc_bucket(bucket, e), f"{cls.__name__}.from_dict(reloaded raw) raised {e!r}; raw = {str(loaded)[:400]}")
        return None
    for d in sc.differences(obj, back, cls.__name__)[:6]:
        if "xgrid log flag" in d:
            res.fail(f"{ID}/xgrid-log-lost/{what}", f"after raw -> YAML -> from_dict: {d}")
        elif ": NoneType None -> " in d:
            tname = d.rsplit(" -> ", 1)[1].split(" ")[0]
            tname = tname if tname in ("str", "bool", "int", "float") else "enum"
            res.fail(f"{ID}/{what}/optional-none-coerced/{tname}", f"after raw -> YAML -> from_dict: {d}")
        else:
            res.fail(f"{ID}/{what}/field-differs", f"after raw -> YAML -> from_dict: {d}")
    return back


def _probe(nodes):
    """A point strictly inside the widest area (in ln x) of the grid: there log and linear bases differ most."""
    xs = sorted(nodes)
    i = max(range(len(xs) - 1), key=lambda j: xs[j + 1] / xs[j])
    return float(np.sqrt(xs[i] * xs[i + 1]))


def _ref_row(nodes, deg, is_log, x):
    """Basis function values at x from the independent exact Lagrange reference (vf/refs/i_lagrange.py)."""
    import math

    from vf.refs import i_lagrange as il

    xs = sorted(nodes)
    us = [math.log(v) for v in xs] if is_log else xs
    u = math.log(x) if is_log else x
    return [float(v) for v in il.basis_row(u, us, deg)]


def _check_interpolator(res, card, tag, declared, deg, is_log, first=True):
    """commons.interpolator(card) must carry the card's declared degree, nodes, log flag - and really use them."""
    from eko.runner import commons

    hist = "" if first else "history-dependent/"
    try:
        ip = commons.interpolator(card)
    except Exception as e:  # noqa: BLE001
        res.fail(exc_bucket(f"{ID}/interpolator/{hist}call", e), f"commons.interpolator({tag} card) raised {e!r}")
        return
    if ip.polynomial_degree != deg:
        res.fail(f"{ID}/interpolator/{hist}degree", f"{tag}: degree {ip.polynomial_degree} != declared {deg}")
        return
    nodes = np.asarray(ip.xgrid.raw)
    if nodes.shape != (len(declared),) or not np.array_equal(nodes, np.array(sorted(declared))):
        res.fail(f"{ID}/interpolator/{hist}nodes", f"{tag}: interpolator nodes differ from the declared grid")
        return
    if bool(ip.log) != bool(is_log) or bool(ip.xgrid.log) != bool(is_log):
        res.fail(
            f"{ID}/interpolator/{hist}is_log-ignored",
            f"{tag}: operator card declares interpolation_is_log={is_log} but commons.interpolator(card).log = "
            f"{ip.log}, its xgrid.log = {ip.xgrid.log} (card.xgrid.log = {card.xgrid.log})",
        )
        return
    # the flag may be right while the compiled areas belong to another interpolation type: evaluate the basis
    x = _probe(declared)
    want = np.array(_ref_row(declared, deg, is_log, x))
    try:
        got = np.array([bf.evaluate_x(x) for bf in ip])
    except Exception as e:  # noqa: BLE001
        res.fail(exc_bucket(f"{ID}/interpolator/{hist}evaluate", e), f"{tag}: evaluating the basis at x={x!r} raised {e!r}")
        return
    tol = BASIS_TOL * (1.0 + float(np.abs(want).sum()))
    if got.shape != want.shape or not np.all(np.isfinite(got)) or float(np.abs(got - want).max()) > tol:
        other = np.array(_ref_row(declared, deg, not is_log, x))
        looks = " (it matches the basis of the OTHER interpolation type)" if got.shape == other.shape and float(
            np.abs(got - other).max()) <= tol else ""
        res.fail(
            f"{ID}/interpolator/{hist}basis-values",
            f"{tag}: basis functions at x={x!r} for is_log={is_log}, degree {deg}: max deviation "
            f"{float(np.abs(got - want).max()) if got.shape == want.shape else 'shape'} from the exact Lagrange reference{looks}",
        )


def _canon(x):
    if isinstance(x, dict):
        return {k: _canon(v) for k, v in x.items()}
    if isinstance(x, (list, tuple)):
        return [_canon(v) for v in x]
    return sc._norm_leaf(x)


def _check_input_kept(res, name, s, raw_in, card):
    """The card built by from_dict carries the values of its input (a reference built by from_dict alone is blind)."""
    plain = dict(s, enum_by_name=False)
    want = _canon(sc.raw_theory(plain) if name == "theory" else sc.raw_operator(plain))
    # numeric leaves as given in the (possibly numpy-substituted) input; enums in their canonical (value) spelling
    given = _canon(raw_in)
    for path, _ in sc.leaf_paths(want):
        sc.set_path(want, path, sc.get_path(given, path))
    try:
        got = card.raw
    except Exception:  # noqa: BLE001 - reported by the round-trip oracle
        return
    if want.get("matching_order", 0) is None:
        want.pop("matching_order")  # None asks for the documented default (order - 1)
    bad = _missing(want, got, ())
    for path, w, g in bad[:3]:
        res.fail(f"{ID}/cards/input-not-kept/{path[0]}",
                 f"{type(card).__name__}.from_dict(input): input{list(path)} = {w!r} but the card holds {g!r}")


def _missing(want, got, path):
    """Entries of ``want`` that ``got`` does not reproduce (extra keys of ``got`` are defaults, allowed)."""
    out = []
    if isinstance(want, dict):
        if not isinstance(got, dict):
            return [(path, want, got)]
        for k, v in want.items():
            if k not in got:
                out.append((path + (k,), v, "<missing>"))
            else:
                out += _missing(v, got[k], path + (k,))
        return out
    if isinstance(want, list):
        if not isinstance(got, list) or len(got) != len(want):
            return [(path, want, got)]
        for i, (a, b) in enumerate(zip(want, got)):
            out += _missing(a, b, path + (i,))
        return out
    if not sc.plain_equal(want, sc._norm_leaf(got)):
        out.append((path, want, got))
    return out


def _check_eko(case):
    """Cards handed out by an EKO (fresh, reopened, edited) equal the stored ones; the interpolator built from them too."""
    import pathlib
    import shutil
    import tempfile

    from eko import interpolation
    from eko.io.runcards import OperatorCard, TheoryCard
    from eko.io.struct import EKO

    s = case["s"]
    res = CaseResult()
    res.classes = ["kind=eko", f"is_log={s['is_log']}", f"flag_by_attr={case['flag_by_attr']}", f"reopen={case['reopen']}",
                   f"use_fhmruvv={s['use_fhmruvv']}", f"none_by_attr={case['none_by_attr']}", f"grid={s['grid_kind']}"]
    res.nontrivial = (not s["is_log"]) or s["use_fhmruvv"] is None or case["flag_by_attr"]
    raw_th, raw_op = sc.raw_theory(s), sc.raw_operator(s)
    if case["flag_by_attr"]:
        raw_op["configs"]["interpolation_is_log"] = not s["is_log"]
    if case["none_by_attr"] and s["use_fhmruvv"] is None:
        raw_th.pop("use_fhmruvv")
    try:
        th, op = TheoryCard.from_dict(raw_th), OperatorCard.from_dict(raw_op)
    except Exception as e:  # noqa: BLE001
        res.fail(exc_bucket(f"{ID}/cards/from_dict-input", e), f"from_dict raised {e!r}")
        return res
    if case["flag_by_attr"]:
        op.configs.interpolation_is_log = s["is_log"]  # as tests/ekobox/test_cards.py and the tutorials do
    if case["none_by_attr"] and s["use_fhmruvv"] is None:
        th.use_fhmruvv = None
    # what the stored cards declare, built directly (not through the loader under test)
    exp_th = copy.deepcopy(th)
    exp_th.use_fhmruvv = True if s["use_fhmruvv"] == sc.ABSENT else s["use_fhmruvv"]
    exp_op = copy.deepcopy(op)
    exp_op.xgrid = interpolation.XGrid(sorted(s["xgrid"]), log=s["is_log"])
    declared = [float(x) for x in s["xgrid"]]

    def served(ev, stage):
        try:
            got_th, got_op = ev.theory_card, ev.operator_card
        except Exception as e:  # noqa: BLE001
            res.fail(exc_bucket(f"{ID}/eko/cards-call", e), f"{stage}: reading the cards of the EKO raised {e!r}")
            return
        for d in sc.differences(exp_th, got_th, "theory_card")[:4]:
            res.fail(f"{ID}/eko/served-theory-card-differs/{d.split(':')[0].split('[')[0]}", f"{stage}: stored vs served: {d}")
        for d in sc.differences(exp_op, got_op, "operator_card")[:4]:
            what = "xgrid-log" if "xgrid log flag" in d else d.split(":")[0].split("[")[0]
            res.fail(f"{ID}/eko/served-operator-card-differs/{what}", f"{stage}: stored vs served: {d}")
        # what the computation would build from the served card (runner.parts._managers)
        _check_interpolator(res, got_op, f"card served by the EKO ({stage})", declared, s["deg"], s["is_log"])

    d = pathlib.Path(tempfile.mkdtemp(prefix="c40-"))
    old_tmp = tempfile.tempdir
    try:
        (d / "tmp").mkdir()
        tempfile.tempdir = str(d / "tmp")
        path = d / "e.tar"
        with EKO.create(path) as builder:
            ev = builder.load_cards(th, op).build()
            served(ev, "while being built")
        if case["reopen"] in ("edit", "edit-read"):
            with EKO.edit(path) as ev:
                served(ev, "reopened with EKO.edit")
        if case["reopen"] in ("read", "edit-read"):
            with EKO.read(path) as ev:
                served(ev, "reopened with EKO.read" + (" after an edit session" if case["reopen"] == "edit-read" else ""))
    finally:
        tempfile.tempdir = old_tmp
        shutil.rmtree(d, ignore_errors=True)
    return res


def _check_cards(case):
    from eko import interpolation
    from eko.io.runcards import OperatorCard, TheoryCard
    from ekobox import cards as ebcards

    s = case["s"]
    res = CaseResult()
    raws = {"theory": sc.raw_theory(s), "operator": sc.raw_operator(s)}
    for sub in case["subs"]:
        if sub["how"] == "raw":
            v = sc.get_path(raws[sub["card"]], sub["path"])
            sc.set_path(raws[sub["card"]], sub["path"], sc.NP_MAKERS[sub["np"]](v))
    objs = {}
    for name, cls in (("theory", TheoryCard), ("operator", OperatorCard)):
        try:
            objs[name] = cls.from_dict(raws[name])
        except Exception as e:  # noqa: BLE001
            res.fail(exc_bucket(f"{ID}/cards/from_dict-input", e), f"{cls.__name__}.from_dict raised {e!r} on {str(raws[name])[:500]}")
            return res
    for name in ("theory", "operator"):
        _check_input_kept(res, name, s, raws[name], objs[name])
    for sub in case["subs"]:
        if sub["how"] == "attr":
            v = sc.get_path(objs[sub["card"]], sub["path"])
            sc.set_path(objs[sub["card"]], sub["path"], sc.NP_MAKERS[sub["np"]](sc._norm_leaf(v)))
    if case["grid_obj"]:
        objs["operator"].xgrid = interpolation.XGrid(objs["operator"].xgrid.raw, log=s["is_log"])
    try:
        ex = {**_flat(ebcards.example.theory().raw, "th"), **_flat(ebcards.example.operator().raw, "op")}
    except Exception as e:  # noqa: BLE001 - the example cards are valid input of from_dict
        res.fail(exc_bucket(f"{ID}/cards/example", e), f"ekobox.cards.example raised {e!r}")
        ex = {}
    mine = {**_flat(sc.raw_theory(s), "th"), **_flat(sc.raw_operator(s), "op")}
    ndiff = sum(1 for k in set(ex) | set(mine) if not sc.plain_equal(ex.get(k, "<missing>"), mine.get(k, "<missing>"))
                and not (isinstance(ex.get(k), float) and ex.get(k) != ex.get(k)))
    linear = not s["is_log"]
    res.nontrivial = ndiff >= 3 or bool(case["subs"]) or linear
    res.classes = [
        "kind=cards", f"order={s['order'][0]},{s['order'][1]}", f"scheme={s['scheme']}", f"method={s['method']}",
        f"sv={s['sv']}", f"inv={s['inv']}", f"grid={s['grid_kind']}", f"is_log={s['is_log']}", f"grid_obj={case['grid_obj']}",
        f"subs={len(case['subs'])}", f"enum_by_name={s['enum_by_name']}", f"matching_order={'given' if isinstance(s['matching_order'], list) else s['matching_order']}",
    ] + [f"np={x['np']}/{x['how']}" for x in case["subs"]]
    back_op = None
    for name, cls in (("theory", TheoryCard), ("operator", OperatorCard)):
        back = _roundtrip(res, "cards", objs[name], cls)
        if name == "operator":
            back_op = back
    declared = [float(x) for x in raws["operator"]["xgrid"]]  # after the numpy substitutions (float32 rounds)
    # history: the twin card differs only in the declared interpolation type; evaluated alternately in one process
    raw_twin = copy.deepcopy(raws["operator"])
    raw_twin["configs"]["interpolation_is_log"] = not s["is_log"]
    try:
        twin = OperatorCard.from_dict(raw_twin)
    except Exception as e:  # noqa: BLE001
        res.fail(exc_bucket(f"{ID}/cards/from_dict-input", e), f"OperatorCard.from_dict raised {e!r} on the twin card")
        twin = None
    seq = [("built", objs["operator"], s["is_log"])]
    if twin is not None:
        seq.append(("twin", twin, not s["is_log"]))
        if case.get("twin_first"):
            seq = seq[::-1]
        seq = seq + seq  # card, twin, card, twin (or twin first)
    if back_op is not None:
        seq.append(("reloaded", back_op, s["is_log"]))
    passed = {}
    for i, (tag, card, flag) in enumerate(seq):
        n0 = len(res.violations)
        # a repeat evaluation failing after the same card's first one held can only come from what happened in between
        _check_interpolator(res, card, f"{tag} (call {i + 1} of {'>'.join(t for t, _, _ in seq)})", declared, s["deg"],
                            flag, first=not passed.get(tag, False))
        passed.setdefault(tag, len(res.violations) == n0)
    return res


def _check_dictlike(case):
    res = CaseResult()
    counter = [0]
    info = dict(np=set(), array=False, linear=False, none=set(), mixin=False)
    types = [t for t, _ in case["fields"]]
    cls = _make_class("GenTop", "f", types, counter)
    subs = {f.name: f.type for f in dataclasses.fields(cls)}
    obj = cls(**{f"f{i}": _val(t, subs[f"f{i}"], v, info) for i, (t, v) in enumerate(case["fields"])})
    tops = [t if isinstance(t, str) else t[0] for t, _ in case["fields"]]
    res.classes = ["kind=dictlike"] + sorted({f"field={t}" for t in tops}) + sorted(f"np={n}" for n in info["np"]) + sorted(
        f"none-for={n}" for n in info["none"])
    res.nontrivial = bool(info["np"]) or info["array"] or info["linear"] or info["mixin"] or any(
        n.startswith("with-default") for n in info["none"])
    _roundtrip(res, "dictlike", obj, cls)
    return res


def check_case(case):
    if case["kind"] == "cards":
        return _check_cards(case)
    if case["kind"] == "eko":
        return _check_eko(case)
    return _check_dictlike(case)

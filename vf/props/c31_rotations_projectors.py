"""C31 flavour/evolution basis rotations and anomalous-dimension sector projectors (exhaustive, exact)."""

from fractions import Fraction as F

from vf.core import CaseResult, exc_bucket
from vf.refs import flavor_ref as fr

ID = "C31"
LEVEL = "exploration"
TECHNIQUE = (
    "exhaustive enumeration over {QCD,QED} x nf 3-6 x every sector label; exact Fraction algebra against "
    "distribution definitions typed from FlavorSpace.rst"
)
RULE = (
    "Exhaustive enumeration: (a) both rotation tables row by row against the documented definition of each label, "
    "mutual orthogonality, exact rank 14, one-to-one label/PID tables, intrinsic unified label lists; (b) for every "
    "(basis, nf 3-6, sector label) - 7 QCD and 24 QED labels - ad_projector acting on flavour row vectors from the "
    "right must send the sector's source distribution (documented intrinsic basis with nf active flavours) to its "
    "target and every other active distribution to zero, and must not touch inactive flavours; per (basis, nf) the "
    "diagonal sector maps must be idempotent, mutually orthogonal and sum to the identity on the active partons; "
    "ad_projectors(nf, qed) must stack exactly the per-sector projectors of the requested basis. Non-trivial = "
    "every case except the (sector, nf, basis) triples spot-checked in tests/eko/test_basis_rotation.py; distinct "
    "by the case itself."
)
ASSUMPTIONS = [
    "reference definitions of all distributions typed from doc/source/theory/FlavorSpace.rst (vf/refs/flavor_ref.py); "
    "the active basis for nf flavours is the documented intrinsic (unified) evolution basis without h+-",
    "projector entries are converted to Fractions with denominator <= 10000 (must be within 1e-12 of such a "
    "rational: they are ratios of small integers); all comparisons are then exact",
    "sector direction follows the property and the repository tests: row-vector(source = first pid of the label) @ P "
    "= row-vector(target = second pid)",
]
LEVEL_TEXT = (
    "The input space (2 bases x 4 nf x 31 sector labels + the two 14x14 tables) is finite and enumerated completely "
    "with exact arithmetic, so within the stated reading of 'active distribution' the verdict is exhaustive."
)

NFS = (3, 4, 5, 6)

# (qed, nf, label) triples already asserted by tests/eko/test_basis_rotation.py
SUITE_PINNED = {
    (0, 6, (100, 100)), (0, 6, (21, 100)), (0, 6, (10201, 0)),
    (1, 6, (100, 100)), (1, 6, (21, 100)), (1, 6, (10203, 0)), (1, 6, (10202, 0)),
    (1, 3, (10203, 0)), (1, 3, (10202, 0)), (1, 4, (10202, 0)),
}  # fmt: skip


def _labels(qed):
    return fr.QED_SECTOR_LABELS if qed else fr.QCD_SECTOR_LABELS


def enumerate_cases(tier):
    cases = []
    for qed in (0, 1):
        cases.append({"kind": "table", "qed": qed})
        cases.append({"kind": "sector-labels", "qed": qed})
        for nf in NFS:
            for lab in _labels(qed):
                cases.append({"kind": "sector", "qed": qed, "nf": nf, "label": list(lab)})
            cases.append({"kind": "algebra", "qed": qed, "nf": nf})
            cases.append({"kind": "collect", "qed": qed, "nf": nf})
    for nf in NFS:
        cases.append({"kind": "intrinsic-labels", "nf": nf})
    return cases


# --------------------------------------------------------------------------- helpers


def _projector(label, nf, qed, res, where):
    """Call the code under test; returns a 14x14 list of Fractions indexed by the code's pid order, or None."""
    from eko import basis_rotation as br

    try:
        p = br.ad_projector(tuple(label), nf, bool(qed))
    except Exception as e:  # noqa: BLE001
        res.fail(
            exc_bucket(f"{ID}/projector/call/qed={int(qed)}", e),
            f"ad_projector({tuple(label)}, nf={nf}, qed={bool(qed)}) raised {e!r} ({where})",
        )
        return None
    n = len(br.flavor_basis_pids)
    if getattr(p, "shape", None) != (n, n):
        res.fail(f"{ID}/projector/shape/qed={int(qed)}", f"{tuple(label)} nf={nf}: shape {getattr(p, 'shape', None)}")
        return None
    out = []
    for i in range(n):
        row = []
        for j in range(n):
            x = fr.to_fraction(p[i, j])
            if x is None:
                res.fail(
                    f"{ID}/projector/non-rational/qed={int(qed)}",
                    f"{tuple(label)} nf={nf}: entry [{i},{j}] = {p[i, j]!r} is not a small rational",
                )
                return None
            row.append(x)
        out.append(row)
    return out


def _row_times(vec, mat):
    """row vector (list) @ matrix (list of lists)."""
    n = len(mat[0])
    return [sum((vec[i] * mat[i][j] for i in range(len(vec)) if vec[i] != 0), F(0)) for j in range(n)]


def _fmt(d):
    return "{" + ", ".join(f"{p}: {c}" for p, c in sorted(d.items())) + "}"


def _pid_order(res):
    """Column order of the code's tables; must be a permutation of the 14 documented pids."""
    from eko import basis_rotation as br

    pids = tuple(int(p) for p in br.flavor_basis_pids)
    if sorted(pids) != sorted(fr.FLAVOR_PIDS):
        res.fail(f"{ID}/table/flavor-pids", f"flavor_basis_pids {pids} is not the documented set of 14 partons")
        return None
    return pids


# --------------------------------------------------------------------------- the checks


def _check_table(qed, res):
    from eko import basis_rotation as br

    tag = "unified" if qed else "qcd"
    names = br.unified_evol_basis if qed else br.evol_basis
    pidtab = br.unified_evol_basis_pids if qed else br.evol_basis_pids
    rot = br.rotate_flavor_to_unified_evolution if qed else br.rotate_flavor_to_evolution
    ref = fr.UNIFIED_EVOL if qed else fr.QCD_EVOL
    refpid = fr.UNIFIED_EVOL_PIDS if qed else fr.QCD_EVOL_PIDS

    # flavour-basis tables (shared by both bases; reported once under the qcd case)
    pids = _pid_order(res)
    if pids is None:
        return
    if not qed:
        if tuple(pids) != fr.FLAVOR_PIDS:
            res.fail(f"{ID}/table/flavor-order", f"flavor_basis_pids {pids} differs from the documented order")
        if len(br.flavor_basis_names) != len(pids) or any(
            fr.FLAVOR_NAMES[p] != nm for p, nm in zip(pids, br.flavor_basis_names)
        ):
            res.fail(f"{ID}/table/flavor-names", f"flavor_basis_names {br.flavor_basis_names} inconsistent with {pids}")
        if br.quark_names != fr.QUARKS_BY_MASS:
            res.fail(f"{ID}/table/quark-names", f"quark_names = {br.quark_names!r}")
        if (br.matching_hplus_pid, br.matching_hminus_pid) != (90, 91):
            res.fail(f"{ID}/table/h-pids", "matching h+- pids changed")

    # label / pid tables one-to-one and as documented
    if len(set(names)) != len(names) or len(names) != 14 or set(names) != set(ref):
        res.fail(f"{ID}/table/{tag}/labels", f"basis labels {names} are not the 14 documented distributions")
        return
    if len(pidtab) != len(names) or len(set(pidtab)) != len(pidtab):
        res.fail(f"{ID}/table/{tag}/pids", f"pid table {pidtab} is not one-to-one with {names}")
    else:
        for nm, pid in zip(names, pidtab):
            if refpid[nm] != pid:
                res.fail(f"{ID}/table/{tag}/pids", f"{nm} has pid {pid}, documented convention gives {refpid[nm]}")

    # rows against definitions
    if getattr(rot, "shape", None) != (14, 14):
        res.fail(f"{ID}/table/{tag}/shape", f"rotation table has shape {getattr(rot, 'shape', None)}")
        return
    rows = {}
    for i, nm in enumerate(names):
        row = {p: F(int(rot[i, j])) for j, p in enumerate(pids) if rot[i, j] != 0}
        if any(float(rot[i, j]) != int(rot[i, j]) for j in range(14)):
            res.fail(f"{ID}/table/{tag}/row", f"row {nm} is not integer valued")
        rows[nm] = row
        if row != fr.clean(ref[nm]):
            res.fail(
                f"{ID}/table/{tag}/row",
                f"row {nm} of the {tag} rotation is {_fmt(row)}, documented definition {_fmt(fr.clean(ref[nm]))}",
            )
    # orthogonal rows, invertible
    ortho = True
    for i, x in enumerate(names):
        for y in names[i + 1 :]:
            if fr.dot(rows[x], rows[y]) != 0:
                ortho = False
                res.fail(f"{ID}/table/{tag}/orthogonal", f"rows {x} and {y}: dot = {fr.dot(rows[x], rows[y])}")
    m = [fr.to_vec(rows[nm], pids) for nm in names]
    if fr.mat_rank(m) != 14:
        res.fail(f"{ID}/table/{tag}/invertible", f"rank {fr.mat_rank(m)} != 14")
    elif ortho:
        # the exact inverse of a matrix with orthogonal rows is the transpose scaled by the squared norms
        inv = fr.mat_inverse(m)
        for i, nm in enumerate(names):
            nrm = fr.dot(rows[nm], rows[nm])
            if any(inv[j][i] != m[i][j] / nrm for j in range(14)):
                raise AssertionError("harness: exact inverse disagrees with row/|row|^2 for orthogonal rows")


def _check_sector_labels(qed, res):
    """The label collections and the sector -> member maps of basis_rotation must describe the same sectors."""
    from eko import basis_rotation as br

    tag = "unified" if qed else "qcd"
    full = br.full_unified_labels if qed else br.full_labels
    admap = br.map_ad_to_unified_evolution if qed else br.map_ad_to_evolution
    want = set(_labels(qed))
    if len(full) != len(set(full)) or set(full) != want:
        res.fail(f"{ID}/labels/{tag}/full", f"full label tuple {full} != documented sector set {sorted(want)}")
    if set(admap) != want:
        res.fail(f"{ID}/labels/{tag}/map-keys", f"sector map keys {sorted(admap)} != {sorted(want)}")
    for lab in sorted(want & set(admap)):
        ref = [f"{s}.{t}" for s, t in fr.sector_members(lab, 6, qed)]
        if sorted(admap[lab]) != sorted(ref):
            res.fail(f"{ID}/labels/{tag}/map-members", f"sector {lab}: members {admap[lab]} != {ref}")
    nsmap = {"ns-": 10201, "ns+": 10101, "nsV": 10200, "ns-u": 10202, "ns-d": 10203, "ns+u": 10102, "ns+d": 10103}
    if dict(br.non_singlet_pids_map) != nsmap:
        res.fail(f"{ID}/labels/ns-pids", f"non_singlet_pids_map = {br.non_singlet_pids_map}")
    if not qed and tuple(br.anomalous_dimensions_basis) != tuple(br.full_labels):
        res.fail(f"{ID}/labels/qcd/ad-basis", "anomalous_dimensions_basis != full_labels")


def _check_sector(qed, nf, label, res):
    pids = _pid_order(res)
    if pids is None:
        return
    proj = _projector(label, nf, qed, res, "single sector")
    if proj is None:
        return
    members = fr.sector_members(tuple(label), nf, qed)
    act = fr.active_basis(nf, qed)
    coords = f"qed={int(qed)}"
    expect = {}
    for s, t in members:
        expect[s] = act[t]
    for nm, d in act.items():
        img = fr.from_vec(_row_times(fr.to_vec(d, pids), proj), pids)
        want = fr.clean(expect.get(nm, {}))
        if img != want:
            kind = "source" if nm in expect else "other"
            res.fail(
                f"{ID}/projector/action/{kind}/{coords}",
                f"sector {tuple(label)} nf={nf} qed={bool(qed)}: {nm} @ P = {_fmt(img)}, expected {_fmt(want)} "
                f"({nm} = {_fmt(fr.clean(d))})",
            )
    # inactive partons are neither read nor written
    active = set(fr.active_pids(nf, qed))
    for i, p in enumerate(pids):
        if p in active:
            continue
        if any(proj[i][j] != 0 for j in range(14)) or any(proj[j][i] != 0 for j in range(14)):
            res.fail(f"{ID}/projector/inactive/{coords}", f"sector {tuple(label)} nf={nf}: parton {p} is touched")


def _check_algebra(qed, nf, res):
    pids = _pid_order(res)
    if pids is None:
        return
    diag = {}
    for lab in _labels(qed):
        if not fr.is_diagonal(lab, qed):
            continue
        p = _projector(lab, nf, qed, res, "needed for the completeness relation")
        if p is None:
            return  # the root cause is already reported under the call bucket
        diag[lab] = p
    coords = f"qed={int(qed)}"
    labs = list(diag)
    for x in labs:
        for y in labs:
            prod = fr.mat_mul(diag[x], diag[y])
            want = diag[x] if x == y else [[F(0)] * 14 for _ in range(14)]
            if prod != want:
                what = "idempotent" if x == y else "orthogonal"
                res.fail(f"{ID}/algebra/{what}/{coords}", f"nf={nf}: P{x} P{y} != {'P' + str(x) if x == y else 0}")
    tot = [[sum((diag[lab][i][j] for lab in labs), F(0)) for j in range(14)] for i in range(14)]
    active = set(fr.active_pids(nf, qed))
    for i, p in enumerate(pids):
        for j, q in enumerate(pids):
            want = 1 if (i == j and p in active) else 0
            if tot[i][j] != want:
                res.fail(
                    f"{ID}/algebra/completeness/{coords}",
                    f"nf={nf}: sum of diagonal sector maps has entry [{p},{q}] = {tot[i][j]}, expected {want}",
                )
                return


def _check_collect(qed, nf, res):
    import numpy as np
    from eko import basis_rotation as br

    labs = _labels(qed)
    try:
        stack = br.ad_projectors(nf, bool(qed))
    except Exception as e:  # noqa: BLE001
        res.fail(
            exc_bucket(f"{ID}/ad_projectors/call/qed={int(qed)}", e),
            f"ad_projectors(nf={nf}, qed={bool(qed)}) raised {e!r}",
        )
        return
    stack = np.asarray(stack)
    if stack.shape != (len(labs), 14, 14):
        res.fail(
            f"{ID}/ad_projectors/shape/qed={int(qed)}",
            f"ad_projectors(nf={nf}, qed={bool(qed)}) has shape {stack.shape}, the basis has {len(labs)} sectors",
        )
        return
    order = br.full_unified_labels if qed else br.full_labels
    for k, lab in enumerate(order):
        try:
            single = br.ad_projector(lab, nf, bool(qed))
        except Exception:  # noqa: BLE001 - reported by the sector case of that label
            continue
        if not np.array_equal(stack[k], single, equal_nan=True):
            res.fail(f"{ID}/ad_projectors/content/qed={int(qed)}", f"nf={nf}: entry {k} is not ad_projector({lab})")


def _check_intrinsic_labels(nf, res):
    from eko import basis_rotation as br

    try:
        labs = br.intrinsic_unified_evol_labels(nf)
    except Exception as e:  # noqa: BLE001
        res.fail(exc_bucket(f"{ID}/intrinsic-labels/call", e), f"nf={nf}: {e!r}")
        return
    want = set(fr.intrinsic_unified(nf))
    if len(labs) != len(set(labs)) or set(labs) != want:
        res.fail(f"{ID}/intrinsic-labels", f"nf={nf}: {labs} != documented basis {sorted(want)}")


def check_case(case):
    res = CaseResult()
    kind = case["kind"]
    if kind == "table":
        res.classes = ["table-" + ("unified" if case["qed"] else "qcd")]
        _check_table(case["qed"], res)
    elif kind == "sector-labels":
        res.classes = ["sector-labels"]
        _check_sector_labels(case["qed"], res)
    elif kind == "sector":
        qed, nf, label = case["qed"], case["nf"], tuple(case["label"])
        res.classes = [f"sector-{'qed' if qed else 'qcd'}-nf{nf}", "offdiag" if not fr.is_diagonal(label, qed) else "diag"]
        res.nontrivial = (qed, nf, label) not in SUITE_PINNED
        _check_sector(qed, nf, label, res)
    elif kind == "algebra":
        res.classes = [f"algebra-{'qed' if case['qed'] else 'qcd'}"]
        _check_algebra(case["qed"], case["nf"], res)
    elif kind == "collect":
        res.classes = [f"collect-{'qed' if case['qed'] else 'qcd'}"]
        _check_collect(case["qed"], case["nf"], res)
    elif kind == "intrinsic-labels":
        res.classes = ["intrinsic-labels"]
        _check_intrinsic_labels(case["nf"], res)
    else:
        raise ValueError(kind)
    return res


def budget(tier):
    return dict(enum_shards=4, wall_s=60)

"""C42 reshaping an operator (flavour rotation, x-grid re-interpolation) commutes with applying it."""

import math
import warnings

import numpy as np

from vf.core import CaseResult, exc_bucket

ID = "C42"
LEVEL = "exploration"
ENGINE = "I"
TECHNIQUE = (
    "Hypothesis-built operators, rotations and grids; oracle = plain numpy contraction of the un-reshaped operator "
    "(flavour), analytic polynomial images through a coefficient-space operator and an exact-rational reference "
    "interpolation matrix (x-grid)"
)
RULE = (
    "Flavour cases: random 14 x k x 14 x k operators (k 3-8, with or without error tensor) and 14 x k inputs; "
    "flavor_reshape with target and/or input rotation drawn from {unimodular/scaled integer matrices built from <= 12 "
    "elementary row operations keeping cond <= 100, the evolution and unified-evolution rotations typed from "
    "FlavorSpace.rst, identity, identity + 1e-9..5e-6 perturbation}, and to_evol / to_uni_evol on source / target / "
    "both; oracle: reshaped . (I f) == T (op . f) by explicit einsum. X-grid cases: operator grid of 5-12 points "
    "(log, x_min 1e-9..0.1 boosted below 1e-7; 1 in 6 linear), degree 1-4, operator = V D V^+ acting on Chebyshev "
    "coefficients (14 flavours, random D) so that polynomial inputs of degree <= deg have polynomial outputs, new "
    "target grid (random inside the range / subset / equal / nodes below 1e-7 moved up by 1.5-3 / relative jitter "
    "1e-7..8e-6) and/or new input grid (jittered-step grid covering the range / superset with area mid-points / equal "
    "/ nodes below 1e-7 moved down by 1.5-3 / jitter), drawn independently, or (1 case in 4) ONE new grid running from "
    "x_min to 1 used on both sides (rebuilt with other steps / superset / subset / interior nodes moved); oracle: "
    "xgrid_reshape(op) applied to the polynomial sampled on the new input grid == the analytic output polynomial at the "
    "new target nodes; in addition a generic random operator is compared with "
    "R_target . op . R_input built from the exact reference basis. Non-trivial = a rotation that is not the identity, "
    "or a new grid that differs from the old one; distinct by the whole case."
)
ASSUMPTIONS = [
    "flavour tolerance 1e-10 * scale, scale = entrywise |T| |op| |I^-1| |I| |f| (largest magnitude entering the cancellation)",
    "x-grid tolerance 1e-9 * scale + 64 eps * S, scale = |R_target| |op| |R_input| |f| with the reference interpolation "
    "matrices (the Lebesgue-type conditioning of the statement, DESIGN) and S the same contraction with the exact "
    "magnitude of the monomial terms of the active Lagrange polynomials in place of one R (rounding of a basis stored as "
    "monomial coefficients, see C34; its size relative to the first term is histogrammed in the evidence classes; generated grids have <= 14 "
    "points, bounded step ratios, degree <= 4 and no nearly coincident nodes)",
    "new target grids lie inside [x_min, 1] of the operator grid and new input grids cover it (outside its grid an "
    "interpolation basis is identically zero, so nothing is representable there)",
    "all grids of one case share the interpolation mode (log or linear), input grids have at least degree+1 points",
    "evolution / unified-evolution rotations are taken from vf/refs/flavor_ref.py (typed from FlavorSpace.rst), row "
    "order as documented for evol_basis / unified_evol_basis; C31 decides eko's tables themselves",
    "error tensors: only presence/shape/finiteness is asserted (the property does not say how errors propagate)",
]
LEVEL_TEXT = (
    "Generated-input exploration with reference-model oracles (explicit contraction, analytic polynomial images, exact "
    "interpolation matrices); rotations, operators and grids are sampled, not exhausted."
)

EVOL_ORDER = ["ph", "S", "g", "V", "V3", "V8", "V15", "V24", "V35", "T3", "T8", "T15", "T24", "T35"]
UNI_ORDER = ["g", "ph", "S", "Sdelta", "V", "Vdelta", "Td3", "Vd3", "Tu3", "Vu3", "Td8", "Vd8", "Tu8", "Vu8"]
NF = 14
KAPPA = 64.0
EPS = 2.220446049250313e-16


def budget(tier):
    if tier == "quick":
        return dict(max_examples=400, shards=8, wall_s=80, shrink_s=20)
    return dict(max_examples=6000, shards=16, wall_s=800, shrink_s=60)


# --------------------------------------------------------------------------- generation


def strategy(tier):
    from hypothesis import strategies as st

    fl = lambda a, b: st.floats(a, b, allow_nan=False, allow_infinity=False)  # noqa: E731
    seed = st.integers(0, 2**31 - 1)
    row = st.integers(0, NF - 1)

    shared_rng = st.shared(st.integers(0, 2**32 - 1).map(np.random.default_rng), key="rng")

    def pick(draw, options):
        # Categorical choice.  Hypothesis' integers / sampled_from / one_of are far from uniform when a shard only gets
        # ~50-100 examples (measured: 18% of integers(0, 2**32) are exactly 0, 50% are = 0 mod 3), so the index is offset by
        # a numpy Generator seeded with a Hypothesis-drawn integer: uniform for every non-degenerate seed, still
        # shrinkable (seed -> 0, index -> 0).
        rng = draw(shared_rng)
        return options[(draw(st.integers(0, len(options) - 1)) + int(rng.integers(len(options)))) % len(options)]

    elem_op = st.one_of(
        st.tuples(st.just("add"), row, row, st.sampled_from([-2, -1, 1, 2])),
        st.tuples(st.just("swap"), row, row, st.just(0)),
        st.tuples(st.just("scale"), row, row, st.sampled_from([-1, 2, 3, -2])),
    ).map(list)
    @st.composite
    def rot(draw):
        t = pick(draw, ["ops", "ops", "ops", "evol", "uni", "identity", "near-identity"])
        if t == "ops":
            return {"type": "ops", "ops": draw(st.lists(elem_op, min_size=1, max_size=12))}
        if t == "near-identity":
            return {"type": t, "delta": math.exp(draw(fl(math.log(1e-9), math.log(5e-6)))), "seed": draw(seed)}
        return {"type": t}

    @st.composite
    def flavor(draw):
        api = pick(draw, ["flavor_reshape", "flavor_reshape", "to_evol", "to_uni_evol"])
        side = pick(draw, ["target", "input", "both"])
        case = {
            "kind": "flavor", "api": api, "side": side, "k": draw(st.integers(3, 8)), "seed": draw(seed),
            "with_error": draw(st.booleans()),
        }  # fmt: skip
        if api == "flavor_reshape":
            case["target"] = draw(rot()) if side in ("target", "both") else None
            case["input"] = draw(rot()) if side in ("input", "both") else None
        return case

    @st.composite
    def xgrid(draw):
        log = pick(draw, [True] * 5 + [False])
        n = draw(st.integers(5, 12))
        deg = pick(draw, [1, 2, 3, 4])
        steps = draw(st.lists(fl(0.6, 1.4), min_size=n - 1, max_size=n - 1))
        e = draw(st.one_of(fl(1.0, 9.0), fl(7.2, 9.0)))
        grid = _build(log, 10.0**-e, steps)
        side = pick(draw, ["target", "input", "both", "same"])

        def unit_list(m):
            return draw(st.lists(fl(0.0, 1.0), min_size=m, max_size=m))

        def inside(ts):  # map [0,1] into [x_min, 1] of the operator grid
            lo = grid[0]
            if log:
                return [min(max(math.exp(math.log(lo) * (1.0 - t)), lo), 1.0) for t in ts]
            return [min(max(lo + (1.0 - lo) * t, lo), 1.0) for t in ts]

        tgt = inp = None
        if side in ("target", "both"):
            tk = pick(draw, ["random", "random-same-length", "subset", "equal", "lowshift", "lowshift", "jitter"])
            if tk == "random":
                g = inside(unit_list(draw(st.integers(2, 12))))
            elif tk == "random-same-length":
                g = inside(unit_list(n))
            elif tk == "subset":
                keep = draw(st.lists(st.booleans(), min_size=n, max_size=n))
                g = [x for x, k in zip(grid, keep) if k]
                g = g if len(g) >= 2 else grid[:1] + grid[-1:]
            elif tk == "equal":
                g = list(grid)
            elif tk == "lowshift":
                f = draw(fl(1.5, 3.0))
                g = [min(x * f, 1.0) if (x < 1e-7 or k == 0) else x for k, x in enumerate(grid)]
            else:
                ds = draw(st.lists(fl(1e-7, 8e-6), min_size=n, max_size=n))
                g = [x * (1.0 + d) if k == 0 else x * (1.0 - d) for k, (x, d) in enumerate(zip(grid, ds))]
            g = sorted(set(g))
            if len(g) < 2:
                g = grid[:1] + grid[-1:]
            tgt = {"kind": tk, "grid": g}
        if side in ("input", "both"):
            ik = pick(draw, ["random", "random-same-length", "superset", "equal", "lowshift", "lowshift", "jitter"])
            if ik in ("random", "random-same-length"):
                # built like the operator grid (bounded step ratios: the basis is *constructed* on this grid), from a
                # lowest point at or below the operator's x_min up to 1
                m = n if ik == "random-same-length" else draw(st.integers(max(deg + 1, 2), 14))
                lo = grid[0] / draw(st.sampled_from([1.0, 1.0, 1.7, 3.0]))
                g = _build(log, lo, draw(st.lists(fl(0.6, 1.4), min_size=m - 1, max_size=m - 1)))
            elif ik == "superset":
                extra = draw(st.lists(st.tuples(st.integers(0, n - 2), fl(0.3, 0.7)), min_size=1, max_size=4))
                g = list(grid) + [_between(log, grid[i], grid[i + 1], t) for i, t in extra]
                # (in linear mode x_min/2 would be a node nearly coincident with x_min: an ill-conditioned basis)
                g += [grid[0] / draw(st.sampled_from([1.0, 2.0]))] if log else []
            elif ik == "equal":
                g = list(grid)
            elif ik == "lowshift":
                f = draw(fl(1.5, 3.0))
                g = [x / f if (x < 1e-7 or k == 0) else x for k, x in enumerate(grid)]
            else:
                ds = draw(st.lists(fl(1e-7, 8e-6), min_size=n, max_size=n))
                g = [x * (1.0 - d) if k == 0 else (1.0 if k == n - 1 else x * (1.0 + d if k % 2 else 1.0 - d)) for k, (x, d) in enumerate(zip(grid, ds))]
            g = sorted(set(min(x, 1.0) for x in g))
            # an input grid needs degree+1 points: pad with operator nodes (keeps the range covered)
            for x in grid:
                if len(g) >= max(deg + 1, 2):
                    break
                if x not in g:
                    g = sorted(g + [x])
            inp = {"kind": ik, "grid": g}
        if side == "same":
            # ONE new grid for output and input (the usual "move the whole operator to another grid"): it has to lie inside
            # the operator's range (target side) and to cover it (input side), i.e. to run from exactly x_min to 1
            sk = pick(draw, ["rebuilt", "rebuilt-same-length", "superset", "subset", "interior-moved"])
            if sk in ("rebuilt", "rebuilt-same-length"):
                m = n if sk == "rebuilt-same-length" else draw(st.integers(max(deg + 1, 2), 14))
                g = _build(log, grid[0], draw(st.lists(fl(0.6, 1.4), min_size=m - 1, max_size=m - 1)))
                g[0] = grid[0]
            elif sk == "superset":
                extra = draw(st.lists(st.tuples(st.integers(0, n - 2), fl(0.3, 0.7)), min_size=1, max_size=4))
                g = list(grid) + [_between(log, grid[i], grid[i + 1], t) for i, t in extra]
            elif sk == "subset":
                keep = draw(st.lists(st.booleans(), min_size=n - 2, max_size=n - 2))
                g = grid[:1] + [x for x, k in zip(grid[1:-1], keep) if k] + grid[-1:]
            else:
                ts = draw(st.lists(fl(0.2, 0.8), min_size=n - 2, max_size=n - 2))
                # every interior node moves by at most 21% of the adjacent step (gaps shrink to >= 58%)
                g = grid[:1] + [
                    _between(log, grid[k + 1], grid[k + 2], (t - 0.5) * 0.7) if t >= 0.5
                    else _between(log, grid[k], grid[k + 1], 1.0 - (0.5 - t) * 0.7)
                    for k, t in enumerate(ts)
                ] + grid[-1:]  # fmt: skip
            g = sorted(set(min(max(x, grid[0]), 1.0) for x in g))
            for x in grid:  # degree+1 points are needed to build a basis on it
                if len(g) >= max(deg + 1, 2):
                    break
                if x not in g:
                    g = sorted(g + [x])
            tgt = {"kind": "same:" + sk, "grid": g}
            inp = {"kind": "same:" + sk, "grid": list(g)}
        return {
            "kind": "xgrid", "log": log, "grid": grid, "deg": min(deg, n - 1), "side": side, "target": tgt, "input": inp,
            "seed": draw(seed), "with_error": draw(st.booleans()),
        }  # fmt: skip

    @st.composite
    def any_case(draw):
        return draw(flavor()) if pick(draw, [0, 0, 1, 1, 1]) == 0 else draw(xgrid())

    return any_case()


def _between(log, a, b, t):
    return math.exp(math.log(a) + t * (math.log(b) - math.log(a))) if log else a + t * (b - a)


def _build(log, xmin, steps):
    cum = [0.0]
    for s in steps:
        cum.append(cum[-1] + s)
    if log:
        span = -math.log(xmin)
        grid = [math.exp(-span * (1.0 - c / cum[-1])) for c in cum]
    else:
        grid = [xmin + (1.0 - xmin) * c / cum[-1] for c in cum]
    grid[-1] = 1.0
    return grid


# --------------------------------------------------------------------------- flavour


def build_rotation(spec):
    """Harness-side rotation matrix (float array) from its JSON description; None stays None."""
    from vf.refs import flavor_ref as fr

    if spec is None:
        return None
    t = spec["type"]
    if t == "identity":
        return np.eye(NF)
    if t == "evol":
        return np.array([[float(v) for v in r] for r in fr.basis_matrix(fr.QCD_EVOL, EVOL_ORDER)])
    if t == "uni":
        return np.array([[float(v) for v in r] for r in fr.basis_matrix(fr.UNIFIED_EVOL, UNI_ORDER)])
    if t == "near-identity":
        rng = np.random.default_rng(spec["seed"])
        return np.eye(NF) + spec["delta"] * rng.uniform(-1.0, 1.0, (NF, NF))
    m = np.eye(NF)
    for op, i, j, s in spec["ops"]:
        new = m.copy()
        if op == "add":
            if i == j:
                continue
            new[i] += s * new[j]
        elif op == "swap":
            new[[i, j]] = new[[j, i]]
        else:
            new[i] *= s
        if np.linalg.cond(new) <= 100.0:  # by construction: an operation that would exceed the bound is skipped
            m = new
    return m


def check_flavor(case):
    from eko.io import manipulate
    from eko.io.items import Operator

    res = CaseResult()
    api, side, k = case["api"], case["side"], case["k"]
    rng = np.random.default_rng(case["seed"])
    op = rng.uniform(-1.0, 1.0, (NF, k, NF, k))
    err = rng.uniform(0.0, 1e-3, (NF, k, NF, k)) if case["with_error"] else None
    f = rng.uniform(-1.0, 1.0, (NF, k))
    if api == "flavor_reshape":
        T, I = build_rotation(case["target"]), build_rotation(case["input"])
        kinds = [f"{s}:{(case[s] or {}).get('type', 'none')}" for s in ("target", "input")]
    else:
        R = build_rotation({"type": "evol" if api == "to_evol" else "uni"})
        T = R if side in ("target", "both") else None
        I = R if side in ("input", "both") else None
        kinds = [f"target:{'yes' if T is not None else 'no'}", f"input:{'yes' if I is not None else 'no'}"]
    Tm = np.eye(NF) if T is None else T
    Im = np.eye(NF) if I is None else I
    trivial = np.array_equal(Tm, np.eye(NF)) and np.array_equal(Im, np.eye(NF))
    near = any(
        m is not None and not np.array_equal(m, np.eye(NF)) and np.allclose(m, np.eye(NF)) for m in (T, I)
    )  # coordinate of the bucket only
    res.nontrivial = not trivial
    res.classes = [f"flavor/{api}", f"side={side}", f"error={case['with_error']}"] + [f"flavor/{x}" for x in kinds]
    elem = Operator(operator=op.copy(), error=None if err is None else err.copy())
    try:
        with warnings.catch_warnings():
            warnings.simplefilter("ignore")
            if api == "flavor_reshape":
                new = manipulate.flavor_reshape(
                    elem, targetpids=None if T is None else T.copy(), inputpids=None if I is None else I.copy()
                )
            elif api == "to_evol":
                new = manipulate.to_evol(elem, source=I is not None, target=T is not None)
            else:
                new = manipulate.to_uni_evol(elem, source=I is not None, target=T is not None)
    except Exception as e:  # noqa: BLE001 - invertible rotations are in the domain
        res.fail(exc_bucket(f"{ID}/flavor/{api}/call", e), f"{kinds}: {e!r}")
        return res
    nop = np.asarray(new.operator)
    if nop.shape != op.shape:
        res.fail(f"{ID}/flavor/{api}/shape", f"{nop.shape} != {op.shape}")
        return res
    if (new.error is None) != (err is None) or (err is not None and np.asarray(new.error).shape != op.shape):
        res.fail(f"{ID}/flavor/{api}/error-tensor", f"error in: {err is not None}, error out: {new.error is not None}")
    elif err is not None and not np.all(np.isfinite(new.error)):
        res.fail(f"{ID}/flavor/{api}/error-tensor", "non-finite error tensor")
    # reshaped . (I f)  ==  T (op . f)
    lhs = np.einsum("ajbk,bk->aj", nop, Im @ f)
    rhs = Tm @ np.einsum("ajbk,bk->aj", op, f)
    Iinv = np.linalg.inv(Im)
    scale = np.abs(Tm) @ np.einsum("ajbk,bk->aj", np.abs(op), np.abs(Iinv) @ (np.abs(Im) @ np.abs(f)))
    dev = np.abs(lhs - rhs)
    bad = ~np.isfinite(lhs) | (dev > 1e-10 * scale)
    if bad.any():
        idx = tuple(int(v) for v in np.unravel_index(int(np.argmax(np.where(np.isfinite(dev), dev / scale, np.inf))), dev.shape))
        res.fail(
            f"{ID}/flavor/{api}/allclose-identity={near}",
            f"{kinds} side={side} k={k}: reshaped.(I f)[{idx}] = {float(lhs[idx])!r}, T(op.f)[{idx}] = {float(rhs[idx])!r}, |dev| {dev[idx]:.3e} > "
            f"1e-10 * {scale[idx]:.3e}",
        )
    return res


# --------------------------------------------------------------------------- x-grid


def _cheb(z, deg):
    """Chebyshev T_0..T_deg at the points z (array) -> (len(z), deg+1)."""
    out = np.empty((len(z), deg + 1))
    out[:, 0] = 1.0
    if deg >= 1:
        out[:, 1] = z
    for m in range(2, deg + 1):
        out[:, m] = 2.0 * z * out[:, m - 1] - out[:, m - 2]
    return out


def check_xgrid(case):
    from eko import interpolation as ip
    from eko.io import manipulate
    from eko.io.items import Operator
    from vf.refs import i_lagrange as L

    res = CaseResult()
    log, grid, deg, side = case["log"], case["grid"], case["deg"], case["side"]
    n = len(grid)
    tgt = None if case["target"] is None else case["target"]["grid"]
    inp = None if case["input"] is None else case["input"]["grid"]
    tk = "none" if tgt is None else case["target"]["kind"]
    ik = "none" if inp is None else case["input"]["kind"]
    differs = (tgt is not None and tgt != grid) or (inp is not None and inp != grid)
    res.nontrivial = bool(differs)
    res.classes = [
        "xgrid", f"log={log}", f"deg={deg}", f"side={side}", f"xgrid/target={tk}", f"xgrid/input={ik}",
        f"xmin<1e-7={grid[0] < 1e-7}", f"error={case['with_error']}",
    ]  # fmt: skip
    var = (lambda xs: np.log(np.array(xs, dtype=float))) if log else (lambda xs: np.array(xs, dtype=float))
    u_old = var(grid)
    out_x = grid if tgt is None else tgt
    in_x = grid if inp is None else inp
    u_out, u_in = var(out_x), var(in_x)
    c0, w = 0.5 * (u_old[0] + u_old[-1]), 0.5 * (u_old[-1] - u_old[0])
    V = _cheb((u_old - c0) / w, deg)  # (n, deg+1)
    Vp = np.linalg.pinv(V)  # (deg+1, n), Vp V = 1
    rng = np.random.default_rng(case["seed"])
    D = rng.uniform(-1.0, 1.0, (NF, deg + 1, NF, deg + 1))
    coef = rng.uniform(-1.0, 1.0, (NF, deg + 1))
    op_poly = np.einsum("jm,ambn,nk->ajbk", V, D, Vp)
    op_gen = rng.uniform(-1.0, 1.0, (NF, n, NF, n))
    err = rng.uniform(0.0, 1e-3, (NF, n, NF, n)) if case["with_error"] else None

    # reference interpolation matrices (exact basis), independent of the code under test
    Rt, Mt = np.eye(n), np.zeros((n, n))
    Ri, Mi = np.eye(n), np.zeros((n, n))
    if tgt is not None:
        Rt, Mt = (np.array(m) for m in L.interp_matrix_with_magnitude([float(v) for v in u_old], deg, [float(v) for v in u_out]))
    if inp is not None:
        Ri, Mi = (np.array(m) for m in L.interp_matrix_with_magnitude([float(v) for v in u_in], deg, [float(v) for v in u_old]))
    close = any(
        g is not None and g != grid and len(g) == n and np.allclose(g, grid) for g in (tgt, inp)
    )  # coordinate of the bucket only

    xg = ip.XGrid(grid, log=log)
    xt = None if tgt is None else ip.XGrid(tgt, log=log)
    xi = None if inp is None else ip.XGrid(inp, log=log)

    def reshape(opt):
        elem = Operator(operator=opt.copy(), error=None if err is None else err.copy())
        with warnings.catch_warnings():
            warnings.simplefilter("ignore")
            return manipulate.xgrid_reshape(elem, xg, deg, targetgrid=xt, inputgrid=xi)

    want_shape = (NF, len(out_x), NF, len(in_x))
    for name, opt in (("polynomial", op_poly), ("generic-vs-reference", op_gen)):
        try:
            new = reshape(opt)
        except Exception as e:  # noqa: BLE001 - grids are inside the documented domain
            res.fail(exc_bucket(f"{ID}/xgrid/call", e), f"target={tk} input={ik} deg={deg} n={n}: {e!r}")
            return res
        nop = np.asarray(new.operator)
        if nop.shape != want_shape:
            res.fail(f"{ID}/xgrid/shape", f"{nop.shape} != {want_shape} (target={tk}, input={ik})")
            return res
        if (new.error is None) != (err is None) or (err is not None and np.asarray(new.error).shape != want_shape):
            res.fail(f"{ID}/xgrid/error-tensor", f"error in: {err is not None}, out: {new.error is not None}, target={tk} input={ik}")
        elif err is not None and not np.all(np.isfinite(new.error)):
            res.fail(f"{ID}/xgrid/error-tensor", "non-finite error tensor")
        if name == "polynomial":
            f_in = np.einsum("bm,lm->bl", coef, _cheb((u_in - c0) / w, deg))  # polynomial sampled on the (new) input grid
            got = np.einsum("aibl,bl->ai", nop, f_in)
            want = np.einsum("ambn,bn,im->ai", D, coef, _cheb((u_out - c0) / w, deg))  # analytic image at the (new) output nodes
        else:
            f_in = rng.uniform(-1.0, 1.0, (NF, len(in_x)))
            got = np.einsum("aibl,bl->ai", nop, f_in)
            want = np.einsum("ij,ajbk,kl,bl->ai", Rt, opt, Ri, f_in)
        contract = lambda a, b: np.einsum("ij,ajbk,kl,bl->ai", a, np.abs(opt), b, np.abs(f_in))  # noqa: E731
        scale = contract(np.abs(Rt), np.abs(Ri))
        # rounding of a basis stored as monomial coefficients (see C34): <= KAPPA eps M per matrix entry
        tol = 1e-9 * scale + KAPPA * EPS * (contract(Mt, np.abs(Ri)) + contract(np.abs(Rt), Mi))
        dev = np.abs(got - want)
        bad = ~np.isfinite(got) | (dev > tol)
        if name == "polynomial":
            r = float(np.max((tol - 1e-9 * scale) / (1e-9 * scale)))
            res.classes.append(f"cancellation-term/1e-9scale={'<=0.01' if r <= 0.01 else '<=0.1' if r <= 0.1 else '<=1' if r <= 1 else '>1'}")
        if bad.any():
            idx = tuple(int(v) for v in np.unravel_index(int(np.argmax(np.where(np.isfinite(dev), dev / tol, np.inf))), dev.shape))
            res.fail(
                # one root cause, one bucket: a different grid that numpy.allclose calls equal to the operator grid
                f"{ID}/xgrid/allclose-grid-treated-as-equal" if close else f"{ID}/xgrid/{name}",
                f"[{name}] log={log} n={n} deg={deg} target={tk} input={ik}: reshaped.f[{idx}] = {float(got[idx])!r} at x={out_x[idx[1]]!r}, "
                f"expected {float(want[idx])!r}, |dev| {dev[idx]:.3e} > tol {tol[idx]:.3e} (1e-9 * {scale[idx]:.3e} + cancellation)",
            )
    return res


def check_case(case):
    if case["kind"] == "flavor":
        return check_flavor(case)
    return check_xgrid(case)

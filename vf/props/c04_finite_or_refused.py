"""C04 every supported configuration yields a finite EKO; others fail cleanly."""

import math

import numpy as np

from vf import runner_util as ru
from vf.core import CaseResult, exc_bucket

ID = "C04"
LEVEL = "exploration"
ENGINE = "R"
TECHNIQUE = "configuration-product sampling (Hypothesis) of tiny end-to-end solves; outcome predicate + documented-availability table"
RULE = (
    "Each case is one configuration drawn from the product QCD order 1-4 x QED order 0-2 (em_running on/off) x 8 solution "
    "methods x scale variation {none, exponentiated xif!=1, expanded xif!=1} x inversion {exact, expanded} x {unpolarised, "
    "polarised, time-like, polarised+time-like} x path {single segment, up across one threshold, down across one "
    "threshold; in a third of the cases with the target exactly on the crossed matching scale or exactly at the initial scale} x initial nf 3-6, on a 2-3 point grid with couplings in the perturbative range. Outcome must be either an "
    "archive whose operator and error entries are all finite, or NotImplementedError / ValueError with a non-empty "
    "message; any other exception or a non-finite entry is a violation. Configurations whose ingredients the docs declare "
    "unavailable (TimeLike.rst: time-like AD only up to NNLO; pQCD.rst/Matching.rst: polarised AD and matching only up to "
    "NNLO; polarised+time-like; DGLAP.rst: QED only with iterate-exact) must be refused, not computed (documented "
    "exception: time-like matching beyond NLO). Non-trivial = anything except (unpolarised, QCD-only, iterate-exact, no "
    "sv); distinct by the configuration tuple."
)
ASSUMPTIONS = [
    "documented-availability table typed from TimeLike.rst, pQCD.rst, Matching.rst, DGLAP.rst (see UNAVAILABLE in the module)",
    "QED x polarised / time-like silently using the unpolarised space-like kernels is undocumented either way and is only recorded as a class, not asserted",
    "couplings placed so that alpha_s <= ~0.35 at the lowest scale on the path (perturbative range)",
    "interpreted mode (NUMBA_DISABLE_JIT=1)",
]
LEVEL_TEXT = (
    "Random sampling of the configuration product through the full runner with an outcome predicate. The thorough tier "
    "draws several thousand configurations; neither tier enumerates the full product."
)


def budget(tier):
    if tier == "quick":
        return dict(max_examples=256, shards=16, wall_s=100, shrink_s=40)
    return dict(max_examples=6000, shards=16, wall_s=2400, shrink_s=200)


def strategy(tier):
    from hypothesis import strategies as st

    @st.composite
    def build(draw):
        qcd = draw(st.sampled_from((1, 2, 3, 4)))
        qe = draw(st.sampled_from((0, 0, 0, 1, 2)))
        method = draw(st.sampled_from(ru.METHODS + ["iterate-exact"] * (8 if qe else 0)))
        flags = draw(st.sampled_from(((False, False),) * 3 + ((True, False), (False, True), (True, True))))
        path = draw(st.sampled_from(("single", "up", "down")))
        svm = draw(st.sampled_from((None, "exponentiated", "expanded")))
        nf0 = draw(st.sampled_from((3, 4, 5, 6)))
        if path == "up" and nf0 == 6:
            nf0 = 5
        if path == "down" and nf0 == 3:
            nf0 = 4
        nff = nf0 + {"single": 0, "up": 1, "down": -1}[path]
        base = draw(
            ru.st_tiny_card(orders=(qcd,), qed=(qe,), methods=(method,), sv=(svm,), flags=(flags,),
                            nf0_choices=(nf0,), n_extra_targets=(1, 1), grid_pts=(2, 3), iters=(1, 2), weird_nf=0.15)
        )
        mu = base["mugrid"][0][0]
        walls = ru.walls_of(base)
        if draw(st.booleans()):
            mu = ru.scale_in_patch(draw, st, nff, walls, lo=1.0, hi=300.0)
        # boundary values of the path shapes: a target exactly on the crossed matching scale (zero-length last segment)
        # or exactly at the initial scale
        edge = draw(st.integers(0, 2))
        if edge == 0 and path != "single":
            w = walls[min(nf0, nff) - 3]
            mu = math.sqrt((base["ratios"][min(nf0, nff) - 3] ** 2) * (base["masses"][min(nf0, nff) - 3] ** 2))
            for cand in (mu, float(np.nextafter(mu, 0.0)), float(np.nextafter(mu, 1e9))):
                if cand * cand == (base["ratios"][min(nf0, nff) - 3] ** 2) * (base["masses"][min(nf0, nff) - 3] ** 2):
                    mu = cand
        elif edge == 1 and path == "single":
            mu = base["init"][0]
        base["mugrid"] = [[float(mu), int(nff)]]
        # make sure the coupling is perturbative also on the (possibly new) wall of the path
        if svm is not None:
            base["xif"] = draw(st.sampled_from([0.5, 2.0, 0.7071067811865476, 1.4142135623730951]))
        if path == "down":
            base["inv"] = draw(st.sampled_from(("exact", "expanded")))
        if qcd == 4 or qe == 2:
            base["xgrid"] = base["xgrid"][-2:]
            base["deg"] = 1
        # re-anchor the coupling at the lowest scale of the final path
        scales = [base["init"][0], mu, base["ref"][0]]
        for a, b in ((nf0, nff), (nf0, base["ref"][1])):
            for nfw in range(min(a, b), max(a, b)):
                scales.append(walls[nfw - 3])
        lowest = min(scales) * (min(base["xif"], 1.0) if svm is not None else 1.0)
        base["alphas"] = float(ru.lo_alpha(draw(st.floats(0.1, 0.3)), lowest, base["ref"][0]))
        return {"path": path, "card": base, "edge": bool((edge == 0 and path != "single") or (edge == 1 and path == "single"))}

    return build()


def unavailable(c):
    """Reason why the docs declare the configuration unavailable (None if available)."""
    qcd, qe = c["order"]
    nf_lo = min([c["init"][1]] + [n for _, n in c["mugrid"]])
    crossing = any(n != c["init"][1] for _, n in c["mugrid"])
    mo = c["matching_order"][0] if c["matching_order"] is not None else qcd - 1
    if qe > 0 and c["method"] != "iterate-exact":
        return "QED with a method other than iterate-exact"
    if qe > 0:
        # the QED kernels ignore the polarised / time-like flags (undocumented either way): observation only
        return None
    if c["pol"] and c["tl"]:
        return "polarised+time-like"
    if c["tl"] and qcd >= 4:
        return "time-like AD beyond NNLO"
    if c["pol"] and qcd >= 4:
        return "polarised AD beyond NNLO"
    if c["pol"] and crossing and mo >= 3:
        return "polarised matching beyond NNLO"
    return None


PROBE_N = (complex(2.3, 0.7), complex(4.1, -1.9), complex(1.6, 3.2))


def silently_zero(c):
    """Name of an accepted top-order ingredient that vanishes identically at three generic N (None if fine).

    Calls the same ekore entry points as ``quad_ker_qcd`` / ``quad_ker_ome`` (pure QCD only)."""
    import ekore.anomalous_dimensions.polarized.space_like as ad_ps
    import ekore.anomalous_dimensions.unpolarized.space_like as ad_us
    import ekore.anomalous_dimensions.unpolarized.time_like as ad_ut
    import ekore.operator_matrix_elements.polarized.space_like as ome_ps
    import ekore.operator_matrix_elements.unpolarized.space_like as ome_us
    import ekore.operator_matrix_elements.unpolarized.time_like as ome_ut

    order = tuple(c["order"])
    if order[1] > 0 or (c["pol"] and c["tl"]):
        return None
    nf = c["init"][1]
    top = order[0] - 1
    tot_s = tot_ns = 0.0
    for n in PROBE_N:
        if c["pol"]:
            gs = ad_ps.gamma_singlet(order, n, nf)
            gn = ad_ps.gamma_ns(order, 10101, n, nf)
        elif c["tl"]:
            gs = ad_ut.gamma_singlet(order, n, nf)
            gn = ad_ut.gamma_ns(order, 10101, n, nf)
        else:
            gs = ad_us.gamma_singlet(order, n, nf, tuple(c["n3lo"]), c["use_fhmruvv"])
            gn = ad_us.gamma_ns(order, 10101, n, nf, tuple(c["n3lo"]), c["use_fhmruvv"])
        tot_s += float(np.abs(gs[top]).sum())
        tot_ns += abs(gn[top])
    if tot_s == 0.0:
        return f"singlet anomalous dimension order {order[0]}"
    if tot_ns == 0.0:
        return f"non-singlet anomalous dimension order {order[0]}"
    crossing = [n for _, n in c["mugrid"] if n != c["init"][1]]
    mo = tuple(c["matching_order"]) if c["matching_order"] is not None else (order[0] - 1, 0)
    if crossing and mo[0] >= 1:
        nfl = min(c["init"][1], crossing[0])
        L = 0.3
        tot = 0.0
        for n in PROBE_N:
            if c["pol"]:
                A = ome_ps.A_singlet(mo, n, nfl, L)
            elif c["tl"]:
                A = ome_ut.A_singlet(mo, n, L)
            else:
                A = ome_us.A_singlet(mo, n, nfl, L, False)
            tot += float(np.abs(A[mo[0] - 1]).sum())
        if tot == 0.0 and not (c["tl"] and mo[0] >= 2):  # documented exception: time-like matching beyond NLO
            return f"singlet matching order {mo[0]}"
    return None


def check_case(case):
    res = CaseResult()
    card = case["card"]
    c = ru.full(card)
    qcd, qe = c["order"]
    cfg = [qcd, qe, c["em_running"], c["method"], c["sv"], c["inv"], c["pol"], c["tl"], case["path"], c["init"][1]]
    res.key = cfg
    res.classes = [f"order={qcd},{qe}", f"method={c['method']}", f"sv={c['sv']}", f"flags=pol{int(c['pol'])}tl{int(c['tl'])}",
                   f"path={case['path']}", f"nf0={c['init'][1]}", f"target-on-edge={case.get('edge', False)}"]
    res.nontrivial = not (not c["pol"] and not c["tl"] and qe == 0 and c["method"] == "iterate-exact" and c["sv"] is None)
    why = unavailable(c)
    cfgs = f"order={c['order']} method={c['method']} sv={c['sv']} xif={c['xif']} inv={c['inv']} pol={c['pol']} tl={c['tl']} path={case['path']} nf0={c['init'][1]}"
    try:
        ops = ru.solve(card)
    except (NotImplementedError, ValueError) as e:
        res.classes.append("outcome=refused")
        if not str(e).strip():
            res.fail(f"{ID}/empty-message/{type(e).__name__}", f"{cfgs}: refusal without a message")
        if why is None:
            res.classes.append("refused-but-not-in-unavailable-table")
        return res
    except Exception as e:  # noqa: BLE001
        res.classes.append("outcome=crash")
        res.fail(exc_bucket(f"{ID}/crash", e), f"{cfgs}: {type(e).__name__}: {e}")
        return res
    res.classes.append("outcome=archive")
    if qe > 0 and (c["pol"] or c["tl"]):
        res.classes.append("observation:QEDxpol/tl computed (undocumented)")
    for k, (op, err) in sorted(ops.items()):
        if not np.all(np.isfinite(op)):
            res.fail(f"{ID}/non-finite/operator/order={qcd},{qe}/method={c['method']}", f"{cfgs}: non-finite operator entries at {k}")
        if err is not None and not np.all(np.isfinite(err)):
            res.fail(f"{ID}/non-finite/error/order={qcd},{qe}/method={c['method']}", f"{cfgs}: non-finite error entries at {k}")
    n = len(c["xgrid"])
    ident = np.zeros((14, n, 14, n))
    for p in range(14):
        for j in range(n):
            ident[p, j, p, j] = 1.0
    if qe == 0:
        ident[0] = 0.0
    trivial = all(np.allclose(op, ident, rtol=0, atol=1e-14) for op, _ in ops.values())  # nothing had to be computed (zero-length path)
    if trivial:
        res.classes.append("outcome=identity-shortcut")
    try:
        zero = None if trivial else silently_zero(c)  # an identity shortcut never consulted the ingredients
    except (NotImplementedError, ValueError):
        zero = None  # the probed ingredient refuses for the probe's flavour number: undecided, not a silent zero
        res.classes.append("probe-refused")
    if zero:
        res.fail(f"{ID}/silently-zero/{zero}", f"{cfgs}: accepted, but the top-order ingredient '{zero}' is identically zero")
    if why is not None and not trivial:
        res.fail(
            f"{ID}/silently-computed/{why}",
            f"{cfgs}: documented as unavailable ({why}) but an archive was produced instead of a NotImplementedError/ValueError",
        )
    return res

"""C35 numerical Mellin inversion of the interpolation basis along the solver's path reproduces the x-space basis."""

import math

import numpy as np

from vf.core import CaseResult, exc_bucket

ID = "C35"
LEVEL = "exploration"
ENGINE = "I"
TECHNIQUE = (
    "Hypothesis-built log grids and inversion points; scipy.quad of Re[QuadKerBase(u).integrand(areas)] over the "
    "Talbot parameter vs an exact-rational product-form Lagrange basis typed from Interpolation.rst"
)
CUT = 1e-5
TOL = 1e-5
# sub-check 'solver-cut' (u in [0.5, 1-mellin_cut]): calibrated bounds = 4 x the worst deviation of the unchanged tree per
# group (see ASSUMPTIONS): node 2.0e-3, top 8.9e-5, point 2.0e-2, near-one 8.8e-2
SOLVER_TOL = {"node": 8e-3, "top": 4e-4, "point": 8e-2, "near-one": 0.35}
TOP_BAND = (0.012, 0.052)  # -ln x of the 'top' group: x in (0.95, 0.988]
RULE = (
    "Log grids of 4-12 points, geometric with <= 25% jitter of the log spacing, x_min in [1e-6, 0.1], last point 1, "
    "degree 1-4 <= points-1; per case one contour id (singlet-like 100/21/90/22/101 -> offset 1, non-singlet-like "
    "10101/10200/10204/200/10103 -> offset 0) and up to 4 inversion points: nodes (never x=1), and for degree >= 2 "
    "points inside an area (fraction 0.02-0.98 of its log width), just below a node (log distance 1e-9..1e-2 of the "
    "area width; 1e-3..1e-2 below x=1), just above a node, and 'top' points x = 1-t, t log-uniform in [0.012, 0.05]; every basis function j of the grid is inverted at every point: "
    f"int_0.5^(1-{CUT:g}) Re[integrand] du (scipy quad, epsrel 1e-10) must equal p_j(x) within {TOL:g}, p_j(x) from the exact "
    "reference basis (0/1 at nodes) and eko's own evaluate_x. Sub-check 'solver-cut': the part of the same integral "
    "over the range the runner integrates, u in [0.5, 1-mellin_cut] (default read from Operator.__init__, 0.05), must "
    "equal p_j(x) within a calibrated bound per group (node / top: 0.012 <= -ln x < 0.052 / near-one: -ln x < 0.012 / "
    "point: the rest). Non-trivial = (degree >= 2 and a point that is not a node) or a singlet-like "
    "contour; distinct by the whole case."
)
ASSUMPTIONS = [
    f"absolute tolerance {TOL:g} on values of size <= Lebesgue constant (DESIGN); measured worst deviation 4e-9 over 3 seeds of the quick tier",
    f"integration over the Talbot parameter up to 1-{CUT:g} instead of the runner's 1-mellin_cut=0.95 (DESIGN 5.1: the cut is a "
    "solver accuracy setting, not part of the representation); DESIGN planned 1-1e-3, whose truncation error just "
    "below a node is 1.3e-5 (measured, scales with cut^2: 1.3e-7 at 1e-4, <= 3e-9 at 1e-6), i.e. above the tolerance, so "
    "the harness integrates further out; this only makes the oracle more exact",
    "scipy.integrate.quad (QUADPACK, epsabs 1e-13, epsrel 1e-10, limit 400) is trusted",
    "reference x-space values come from vf.refs.i_lagrange (exact rationals on the float log-nodes), not from eko's "
    "evaluate_x (C34 ties the two together)",
    "points with 0 < -ln x < 1e-4 are not generated: below x=1 the integrand decays like 1/N only (no neighbouring area "
    "cancels the boundary term) and the integration truncated at 1-CUT is off by 2*CUT = 2e-5 there (measured at "
    "x = 1-5e-9), a limitation of the quadrature oracle, not of the representation; the runner never inverts there (its "
    "highest inversion point below 1 is the last-but-one node)",
    "solver-cut bounds are calibrated, not derived: 4 x the worst deviation of the unchanged tree, measured per group over "
    "6 generator seeds x 400 cases (5832 points), one thorough run (4800 cases) and targeted scans of 960 + 900 grids with "
    "the step jitter at its bounds: nodes 2.0e-3 (degree 1, 12 points, lowest node, singlet contour; 5.9e-4 over the "
    "generated cases) -> bound 8e-3; top band x in (0.95, 0.988] 8.9e-5 (grid-independent: 1.7e-11 at x=0.95, 5e-8 at 0.97, "
    "8.9e-5 at 0.988) -> bound 4e-4; other non-node points 2.0e-2 (just below a node / coarse cells at small x) -> bound "
    "8e-2; points with -ln x < 0.012 8.8e-2 -> bound 0.35 (there the truncated integral of the unchanged tree is itself "
    "inaccurate: 3.0e-4 at x=0.99, 1.8e-3 at 0.993, 5.7e-3 at 0.995, 1.8e-2 at 0.997, 5.7e-2 at 0.999, so 'top' points are "
    "drawn from t >= 0.012 only); the runner inverts at nodes only, so only the node bound describes computed operators",
    "degree-1 grids are inverted at nodes only (the property claims arbitrary points for degree >= 2 only)",
    "interpreted mode (NUMBA_DISABLE_JIT=1); QuadKerBase is plain Python, Path a jitclass, log_evaluate_Nx njit",
]
LEVEL_TEXT = (
    "Generated-input exploration: the N-space representation, the Talbot path/jacobian/prefactor and the integrand "
    "assembly are exercised together on sampled grids and points against an exact x-space reference; grids and "
    "points are sampled, not exhausted."
)

SINGLET_LIKE = [100, 21, 90, 22, 101]
NS_LIKE = [10101, 10200, 10204, 200, 10103]


def budget(tier):
    if tier == "quick":
        return dict(max_examples=240, shards=12, wall_s=80, shrink_s=30)
    return dict(max_examples=4800, shards=16, wall_s=800, shrink_s=120)


def strategy(tier):
    from hypothesis import strategies as st

    fl = lambda a, b: st.floats(a, b, allow_nan=False, allow_infinity=False)  # noqa: E731

    @st.composite
    def case(draw):
        n = draw(st.integers(4, 12))
        deg = draw(st.integers(1, min(4, n - 1)))
        lmin = draw(fl(math.log(1e-6), math.log(0.1)))
        steps = draw(st.lists(fl(0.75, 1.25), min_size=n - 1, max_size=n - 1))
        cum = [0.0]
        for s in steps:
            cum.append(cum[-1] + s)
        logs = [lmin * (1.0 - c / cum[-1]) for c in cum]
        grid = [math.exp(v) for v in logs]
        grid[-1] = 1.0
        mode0 = draw(st.sampled_from(SINGLET_LIKE[:1] * 3 + SINGLET_LIKE[1:] + NS_LIKE[:1] * 3 + NS_LIKE[1:]))
        kinds = ["node"] if deg == 1 else ["top", "node", "inside", "inside", "below", "above", "top"]
        pts = []
        for _ in range(draw(st.integers(2, 4))):
            kind = draw(st.sampled_from(kinds))
            i = draw(st.integers(0, n - 2))  # area (x_i, x_i+1]; as a node: x_i (never the last one)
            a, b = math.log(grid[i]), math.log(grid[i + 1])
            if kind == "node":
                x = grid[i]
            elif kind == "top":
                # upper 5% of the range, where the solver's truncated path is most sensitive to the contour radius
                x = 1.0 - math.exp(draw(fl(math.log(0.012), math.log(0.05))))
            elif kind == "inside":
                x = math.exp(a + draw(fl(0.02, 0.98)) * (b - a))
            elif kind == "below":
                frac = math.exp(draw(fl(math.log(1e-9), math.log(1e-2))))
                if i == n - 2:
                    # below x=1 there is no next area whose lower-boundary term cancels the 1/N tail of the integrand:
                    # the truncated integration (not the representation) is off by ~2*CUT unless -ln x >> 1/|N(1-CUT)|
                    frac = max(frac, 1e-3)
                x = math.exp(b - frac * (b - a))
            else:
                x = math.exp(a + math.exp(draw(fl(math.log(1e-9), math.log(1e-2)))) * (b - a))
            x = min(max(x, grid[0]), math.nextafter(1.0, 0.0))
            pts.append([kind, x])
        return {"grid": grid, "deg": deg, "mode0": mode0, "points": pts}

    return case()


def solver_cut():
    """The runner's default truncation of the Talbot parameter, read from the code under test."""
    import inspect

    from eko.evolution_operator import Operator

    return float(inspect.signature(Operator.__init__).parameters["mellin_cut"].default)


def invert(areas, logx, mode0, is_log=True, cut=None):
    """Mellin inversion with the solver's own path and integrand, integrated by QUADPACK.

    Returns (integral over u in [0.5, 1-cut], integral over [0.5, 1-CUT], quad error estimate): the first is what the
    solver's integration range gives, the second the (practically) complete inversion.
    """
    from scipy import integrate

    from eko.evolution_operator.quad_ker import QuadKerBase

    cut = solver_cut() if cut is None else cut

    def f(u):
        return float(np.real(QuadKerBase(u, is_log, logx, mode0).integrand(areas)))

    with np.errstate(over="ignore", invalid="ignore"):
        head, e1 = integrate.quad(f, 0.5, 1.0 - cut, epsabs=1e-13, epsrel=1e-10, limit=400)[:2]
        tail, e2 = integrate.quad(f, 1.0 - cut, 1.0 - CUT, epsabs=1e-13, epsrel=1e-10, limit=400)[:2]
    return head, head + tail, e1 + e2


def check_case(case):
    from eko import interpolation as ip
    from vf.refs import i_lagrange as L

    res = CaseResult()
    grid, deg, mode0 = case["grid"], case["deg"], case["mode0"]
    n = len(grid)
    singlet = mode0 in SINGLET_LIKE
    kinds = sorted({k for k, _ in case["points"]})
    res.nontrivial = bool((deg >= 2 and any(k != "node" for k in kinds)) or singlet)
    res.classes = [f"deg={deg}", f"n={n}", f"contour={'singlet' if singlet else 'non-singlet'}", f"mode0={mode0}"] + [
        f"point={k}" for k in kinds
    ]
    res.classes.append(f"xmin={'<1e-4' if grid[0] < 1e-4 else '<1e-2' if grid[0] < 1e-2 else '>=1e-2'}")
    where = f"contour={'singlet' if singlet else 'non-singlet'}"

    try:
        disp = ip.InterpolatorDispatcher(ip.XGrid(grid, log=True), deg, mode_N=True)
        areas = [bf.areas_representation for bf in disp]
    except Exception as e:  # noqa: BLE001 - valid grid
        res.fail(exc_bucket(f"{ID}/construct", e), repr(e))
        return res
    nodes = [float(v) for v in np.log(np.array(grid, dtype=float))]
    ref = L.RefBasis(nodes, deg)

    worst = 0.0
    cut = solver_cut()
    worst_cut = {}
    for kind, x in case["points"]:
        logx = float(np.log(np.float64(x)))
        if kind == "node":
            k = grid.index(x)
            want = [1.0 if j == k else 0.0 for j in range(n)]
        else:
            want = [float(p) for p in ref.row(logx)]
        for j in range(n):
            try:
                val_cut, val, err = invert(areas[j], logx, mode0, cut=cut)
            except Exception as e:  # noqa: BLE001 - the integrand must be evaluable on the whole path
                res.fail(exc_bucket(f"{ID}/integrand/{where}", e), f"j={j} x={x!r} deg={deg}: {e!r}")
                return res
            if not math.isfinite(val) or abs(val - want[j]) > TOL:
                res.fail(
                    f"{ID}/inversion/{where}",
                    f"grid n={n} deg={deg} mode0={mode0} x={x!r} ({kind}) j={j}: inverted {val!r} (quad err {err:.1e}), "
                    f"x-space p_j(x) = {want[j]!r}, |dev| {abs(val - want[j]):.3e} > {TOL:g}",
                )
                return res  # one message per case
            worst = max(worst, abs(val - want[j]))
            # the literal statement: the value eko's own x-space evaluation gives for the same basis function
            try:
                own = float(disp[j].evaluate_x(x))
            except Exception as e:  # noqa: BLE001
                res.fail(exc_bucket(f"{ID}/evaluate_x", e), f"j={j} x={x!r}: {e!r}")
                return res
            if not abs(val - own) <= TOL:
                res.fail(
                    f"{ID}/inversion-vs-evaluate_x/{where}",
                    f"grid n={n} deg={deg} mode0={mode0} x={x!r} ({kind}) j={j}: inverted {val!r}, evaluate_x {own!r} "
                    f"(reference {want[j]!r})",
                )
                return res
            # sub-check 'solver-cut': the same inversion over the range the solver integrates, u in [0.5, 1-mellin_cut]
            grp = "node" if kind == "node" else "top" if TOP_BAND[0] <= -logx < TOP_BAND[1] else "near-one" if -logx < TOP_BAND[0] else "point"
            dcut = abs(val_cut - want[j])
            worst_cut[grp] = max(worst_cut.get(grp, 0.0), dcut)
            if not dcut <= SOLVER_TOL[grp]:
                res.fail(
                    f"{ID}/solver-cut/{grp}",
                    f"grid n={n} deg={deg} mode0={mode0} x={x!r} ({kind}) j={j}: integral over u in [0.5, {1 - cut:g}] = "
                    f"{val_cut!r}, x-space p_j(x) = {want[j]!r} (complete inversion {val!r}), |dev| {dcut:.3e} > "
                    f"{SOLVER_TOL[grp]:g}",
                )
                return res
    for grp, d in worst_cut.items():
        if d <= 1e-5:
            res.classes.append(f"solver-cut/{grp}/dev<=1e-05")
        else:  # 1-2-5 bins: the evidence shows how much of the calibrated bound is used
            dec = 10.0 ** math.floor(math.log10(d))
            res.classes.append(f"solver-cut/{grp}/dev<={next(m for m in (1, 2, 5, 10) if d <= m * dec) * dec:.0e}")
    res.classes.append(f"worst-dev={'<=1e-9' if worst <= 1e-9 else '<=1e-7' if worst <= 1e-7 else '<=1e-6' if worst <= 1e-6 else '<=1e-5'}")
    return res

"""C15 running couplings solve their RGEs (single fixed-flavour patch).

Oracle: scipy DOP853 (rtol 1e-13) on the coupled RGE with literature beta coefficients (vf.refs.q1_rge);
scaling law for the expanded solutions; monotonicity; value at the reference point.
"""

import math

from hypothesis import strategies as st

from vf.core import CaseResult, exc_bucket
from vf.strategies import floats, log_floats

ID = "C15"
LEVEL = "exploration"
TECHNIQUE = (
    "generated (order, nf, couplings, scales) x independent DOP853 integration of the coupled RGE with literature "
    "beta coefficients; measured scaling exponent of expanded-minus-reference under a -> lambda*a; monotonicity"
)
RULE = (
    "Hypothesis draws alpha_s(ref) in [0.08,0.35], alpha_em in [0.001,0.01], mu_ref log-uniform in [2,200] GeV and a "
    "seed from which QCD order 1-4, QED order 0-2, alpha_em running on/off, nf 3-6 are picked uniformly, "
    "and a target in the same nf patch (far up / far down "
    "in [1,2000] GeV, below m_tau, or within 1e-8..1e-2 of the reference in ln mu^2), pulled back by construction so "
    "that the LO alpha_s at the target is <= 0.40; masses given either as an FFNS atlas (0/inf) or as finite walls "
    "with nf_to = nf_ref. Each case evaluates both methods (exact vs ODE, expanded scaling under 9 lambdas, "
    "monotonicity on a 5-point ladder, value at the reference). Non-trivial = (QCD order >= 2 and "
    "|ln(mu^2/mu_ref^2)| >= 1) or QED order > 0; distinct by the full case."
)
ASSUMPTIONS = [
    "reference = scipy solve_ivp DOP853, rtol 1e-13, on the truncated coupled RGE with the C20 literature tables "
    "(Herzog et al. 2017, Surguladze 1996); lepton number 2/3 below/above m_tau = 1.777 GeV typed independently",
    "mixed terms beta^(2,1) a_s^2 a_em and beta^(1,2) a_em^2 a_s enter as soon as the QED order is >= 1 "
    "(eko.beta docstring); with fixed alpha_em only beta_0 -> beta_0 + a_em beta^(2,1) (pQCD.rst order=(n,m))",
    "exact method: relative tolerance 5e-6 on a_s and a_em (the solver is run with rtol=1e-6; probe over 300 "
    "configurations: worst 3e-7)",
    "value at the reference point: |a - alpha/(4 pi)| <= 1e-15 relative (two roundings of the unit conversion)",
    "expanded method: expanded - reference ~ lambda^p under joint scaling of both reference couplings at fixed "
    "scales, lambda = 2^-k, k = 0..8; a difference is usable if it exceeds 1e-12 relative (100x the measured 3e-15 "
    "worst-case accuracy of the DOP853 reference against a 30-digit mpmath Taylor integration, rounded up to 1e-14); "
    "p is measured on the last pair of the constant-sign tail (>= 3 usable lambdas, so a zero crossing of the "
    "difference cannot fake an exponent); required p >= n_qcd+1-0.25, or >= min(n_qcd+1,3)-0.25 when alpha_em runs "
    "(statement: 'beyond second order in the couplings'); a shorter tail -> that sub-check is trivial for the case "
    "(calibration, 600 cases: worst margin to the threshold 0.21 at N3LO, > 0.6 elsewhere); any non-finite expanded "
    "value is a violation",
    "targets within numpy.isclose of the reference are returned unchanged by design (documented 'very short "
    "segment' shortcut): for them only the 5e-6 bound is asserted, not the scaling law",
    "monotonicity is asserted on ladder points >= 0.1 apart in ln mu^2 whose reference alpha_s is <= 0.40 "
    "(perturbative range), for both methods",
    "targets whose reference alpha_s exceeds 1 are outside the domain (discarded, counted)",
]
LEVEL_TEXT = (
    "Generated exploration of the whole configuration grid (4 QCD x 3 QED orders, running on/off, nf 3-6, both "
    "methods) against an independent high-precision integration of the defining equations; no exhaustiveness claim "
    "over the continuous inputs."
)

LAMBDAS = [2.0**-k for k in range(9)]
TOL_EXACT = 5e-6
A_MAX_LO = 0.40 / (4 * math.pi)
A_MONO = 0.40 / (4 * math.pi)
REF_ACC = 1e-14
MASSES_VFNS = [1.51, 4.92, 172.5]


def budget(tier):
    if tier == "quick":
        return dict(max_examples=400, shards=8, wall_s=80, shrink_s=20)
    return dict(max_examples=6000, shards=16, wall_s=600, shrink_s=120)


@st.composite
def _case(draw):
    import numpy as np

    # uniform discrete configuration: numpy Generator seeded by a Hypothesis-drawn integer (Hypothesis' own
    # small-sample distribution over integers/sampled_from is clumped at ~50 examples per shard)
    alphas = draw(floats(0.08, 0.35))
    alphaem = draw(floats(0.001, 0.01))
    mu_ref = draw(log_floats(2.0, 200.0))
    # (seeded by every value drawn so far, so that Hypothesis re-using one of them still changes the configuration)
    rng = np.random.default_rng(
        [draw(st.integers(0, 2**32 - 1)), int(alphas * 2**52), int(alphaem * 2**56), int(mu_ref * 2**40)]
    )
    n = int(rng.integers(1, 5))
    m = int(rng.integers(0, 3))
    run = bool(rng.integers(0, 2)) if m > 0 else False
    nf = int(rng.integers(3, 7))
    modes = ["up", "down", "any", "tau", "near"] if m > 0 else ["up", "down", "any", "near"]
    mode = modes[int(rng.integers(0, len(modes)))]
    if mode == "up":
        mu_to = mu_ref * draw(log_floats(1.05, 2000.0 / 2.0))
        mu_to = min(mu_to, 2000.0)
    elif mode == "down":
        mu_to = max(1.0, mu_ref / draw(log_floats(1.05, 200.0)))
    elif mode == "any":
        mu_to = draw(log_floats(1.0, 2000.0))
    elif mode == "tau":
        mu_to = draw(floats(1.0, 1.7769))
    else:
        u = draw(log_floats(1e-8, 1e-2)) * (1.0 if rng.integers(0, 2) else -1.0)
        mu_to = mu_ref * math.exp(u / 2)
    # keep the LO coupling at the target perturbative (construction, not rejection)
    a_ref = alphas / (4 * math.pi)
    beta0 = 11.0 - 2.0 * nf / 3.0
    u = 2 * math.log(mu_to / mu_ref)
    u_min = (a_ref / A_MAX_LO - 1.0) / (beta0 * a_ref)
    if u < u_min:
        mu_to = mu_ref * math.exp(0.999 * u_min / 2)
    walls = "ffns" if rng.integers(0, 2) else "vfns"
    return dict(order=[n, m], em_running=run, nf=nf, alphas=alphas, alphaem=alphaem, mu_ref=mu_ref, mu_to=mu_to,
                walls=walls)


def strategy(tier):
    return _case()


def _couplings(case, method, lam=1.0):
    import numpy as np
    from eko.couplings import Couplings
    from eko.quantities.couplings import CouplingEvolutionMethod, CouplingsInfo
    from eko.quantities.heavy_quarks import QuarkMassScheme

    nf = case["nf"]
    if case["walls"] == "ffns":
        masses = [0.0] * (nf - 3) + [np.inf] * (6 - nf)
    else:
        masses = [x**2 for x in MASSES_VFNS]
    info = CouplingsInfo.from_dict(
        dict(alphas=case["alphas"] * lam, alphaem=case["alphaem"] * lam, ref=(case["mu_ref"], nf),
             em_running=case["em_running"])
    )
    return Couplings(
        couplings=info,
        order=tuple(case["order"]),
        method=CouplingEvolutionMethod(method),
        masses=masses,
        hqm_scheme=QuarkMassScheme.POLE,
        thresholds_ratios=[1.0, 1.0, 1.0],
    )


def _ladder(case):
    """mu^2 values from the reference to the target, >= 0.1 apart in ln mu^2 (at most 5 steps)."""
    mu2r, mu2t = case["mu_ref"] ** 2, case["mu_to"] ** 2
    u = math.log(mu2t / mu2r)
    k = int(min(5, abs(u) // 0.1))
    if k < 1:
        return []
    return [mu2r] + [mu2r * math.exp(u * i / k) for i in range(1, k)] + [mu2t]


def check_case(case):
    import numpy as np

    from vf.refs import q1_rge

    n, m = case["order"]
    run = bool(case["em_running"]) and m > 0
    nf = case["nf"]
    order = (n, m)
    mu2r, mu2t = case["mu_ref"] ** 2, case["mu_to"] ** 2
    u = math.log(mu2t / mu2r)
    a_ref = [case["alphas"] / q1_rge.FOURPI, case["alphaem"] / q1_rge.FOURPI]
    tag = f"qcd={n}/qed={m}/run={int(run)}"

    res = CaseResult()
    res.nontrivial = (n >= 2 and abs(u) >= 1.0) or m > 0
    crosses_tau = q1_rge.lepton_number(mu2r) != q1_rge.lepton_number(mu2t)
    res.classes = [
        f"order={n},{m}", f"run={int(run)}", f"nf={nf}", case["walls"],
        "u<-1" if u <= -1 else "u>1" if u >= 1 else "|u|<1e-2" if abs(u) < 1e-2 else "|u|<1",
    ]
    if m > 0 and crosses_tau:
        res.classes.append("crosses-mtau" + ("-running" if run else ""))

    try:
        ref = q1_rge.evolve(order, nf, run, a_ref, mu2r, mu2t)
    except q1_rge.NonPerturbative:
        return CaseResult(discarded="reference alpha_s > 1 on the way to the target")
    res.classes.append("alphas(target)>0.35" if ref[0] * q1_rge.FOURPI > 0.35 else "alphas(target)<=0.35")

    # ---- exact method and value at the reference
    objs = {}
    for method in ("exact", "expanded"):
        try:
            objs[method] = _couplings(case, method)
            at_ref = np.array(objs[method].a(mu2r, nf), dtype=float)
        except Exception as e:  # noqa: BLE001
            res.fail(exc_bucket(f"{ID}/call/{method}/{tag}", e), f"a(mu_ref^2, nf) raised {e!r}")
            objs.pop(method, None)
            continue
        for i, nm in enumerate(("a_s", "a_em")):
            if not abs(at_ref[i] - a_ref[i]) <= 1e-15 * a_ref[i]:
                res.fail(f"{ID}/ref-value/{method}/{nm}",
                         f"{nm}(mu_ref^2) = {at_ref[i]!r} differs from alpha/(4pi) = {a_ref[i]!r}")

    if "exact" in objs:
        try:
            got = np.array(objs["exact"].a(mu2t, nf), dtype=float)
        except Exception as e:  # noqa: BLE001
            res.fail(exc_bucket(f"{ID}/call/exact/{tag}", e), f"a(mu_to^2, nf) raised {e!r}")
            got = None
        if got is not None:
            for i, nm in enumerate(("a_s", "a_em")):
                if not abs(got[i] - ref[i]) <= TOL_EXACT * abs(ref[i]):
                    res.fail(f"{ID}/exact-vs-ode/{nm}/qed={min(m, 1)}/run={int(run)}",
                             f"{nm}: code {got[i]!r} vs DOP853 reference {ref[i]!r} "
                             f"(rel {abs(got[i] - ref[i]) / abs(ref[i]):.3e} > {TOL_EXACT}); nf={nf}, u={u:.4f}")

    # ---- expanded method: scaling of the difference to the reference
    need = (min(n + 1, 3) if run else n + 1) - 0.25
    diffs = {"a_s": [], "a_em": []}
    for lam in LAMBDAS:
        try:
            got = np.array(_couplings(case, "expanded", lam).a(mu2t, nf), dtype=float)
        except Exception as e:  # noqa: BLE001
            res.fail(exc_bucket(f"{ID}/call/expanded/{tag}", e), f"lambda={lam}: a(mu_to^2, nf) raised {e!r}")
            continue
        if not np.all(np.isfinite(got)):
            which = "+".join(nm for nm, v in zip(("a_s", "a_em"), got) if not math.isfinite(v))
            res.fail(f"{ID}/expanded-nonfinite/{which}/run={int(run)}",
                     f"expanded solution is not finite: {got.tolist()} at lambda={lam}, nf={nf}, u={u:.4f}, "
                     f"alpha_s(ref)={case['alphas'] * lam}, alpha_em(ref)={case['alphaem'] * lam}")
            continue
        try:
            rl = q1_rge.evolve(order, nf, run, [a_ref[0] * lam, a_ref[1] * lam], mu2r, mu2t)
        except q1_rge.NonPerturbative:
            continue
        for i, nm in enumerate(("a_s", "a_em")):
            d = got[i] - rl[i]
            if abs(d) > 100 * REF_ACC * abs(rl[i]):
                diffs[nm].append((lam, d))
    skipped = abs(mu2t - mu2r) <= 1e-8 + 1e-5 * abs(mu2t)
    for nm, lst in diffs.items():
        if nm == "a_em" and not run:
            continue  # a_em is constant: checked below
        if skipped:
            # the code deliberately returns the origin value for |mu2_to - mu2_from| within np.isclose (documented
            # "skip a very short segment"); the difference is then beta0 a^2 u by design: only the 5e-6 bound applies
            res.classes.append("scaling-skipped-short-segment")
            break
        # asymptotic regime: tail (smallest lambdas) of constant sign, at least 3 long; exponent on its last pair
        tail = []
        for lam, d in reversed(lst):
            if tail and (d > 0) != (tail[-1][1] > 0):
                break
            tail.append((lam, d))
        if len(tail) < 3:
            res.classes.append(f"scaling-{nm}-trivial")
            continue
        (l2, d2), (l1, d1) = tail[0], tail[1]
        p = math.log(d1 / d2) / math.log(l1 / l2)
        res.classes.append(f"scaling-{nm}-measured")
        if not p >= need:
            res.fail(f"{ID}/expanded-order/{nm}/qcd={n}/qed={min(m, 1)}/run={int(run)}",
                     f"{nm}: expanded - reference scales like lambda^{p:.2f} (lambda {l1}->{l2}: {d1:.3e}->{d2:.3e}), "
                     f"required >= {need}; nf={nf}, u={u:.4f}")
    if not run and "expanded" in objs:
        try:
            got = np.array(objs["expanded"].a(mu2t, nf), dtype=float)
            if not abs(got[1] - a_ref[1]) <= 1e-15 * a_ref[1]:
                res.fail(f"{ID}/fixed-aem-moved", f"a_em {got[1]!r} != reference {a_ref[1]!r} with fixed alpha_em")
        except Exception as e:  # noqa: BLE001
            res.fail(exc_bucket(f"{ID}/call/expanded/{tag}", e), f"a(mu_to^2, nf) raised {e!r}")

    # ---- monotonic decrease with the scale (perturbative range)
    ladder = _ladder(case)
    if ladder:
        try:
            refs = [a_ref[0]] + [q1_rge.evolve(order, nf, run, a_ref, mu2r, q)[0] for q in ladder[1:]]
        except q1_rge.NonPerturbative:
            refs = None
        if refs is not None:
            for method, obj in objs.items():
                try:
                    vals = [float(obj.a(q, nf)[0]) for q in ladder]
                except Exception as e:  # noqa: BLE001
                    res.fail(exc_bucket(f"{ID}/call/{method}/{tag}", e), f"ladder raised {e!r}")
                    continue
                pts = sorted(
                    (q, v) for q, v, r in zip(ladder, vals, refs) if r <= A_MONO and math.isfinite(v)
                )
                if len(pts) >= 2:
                    res.classes.append("monotonic-checked")
                for (q1, v1), (q2, v2) in zip(pts, pts[1:]):
                    if not v2 < v1:
                        res.fail(f"{ID}/monotonic/{method}/run={int(run)}",
                                 f"a_s does not decrease: a_s({q1!r})={v1!r} <= a_s({q2!r})={v2!r}; nf={nf}")
                        break
    return res

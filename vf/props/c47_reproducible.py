"""C47 solving is reproducible across fresh processes with different hash seeds."""

import json
import os
import pathlib
import shutil
import subprocess
import tarfile

import numpy as np

from vf import core
from vf import runner_util as ru
from vf.core import CaseResult

ID = "C47"
LEVEL = "exploration"
ENGINE = "R"
TECHNIQUE = "differential: the same generated runcard solved in two fresh processes with different PYTHONHASHSEED / cwd / TMPDIR; byte comparison of every archive member"
RULE = (
    "Generated tiny runcards (1-5 targets, fixed and threshold-crossing paths, in half of the cases also the initial point "
    "itself and / or a point exactly on a matching scale as targets (zero-length pieces), LO/NLO, QCD and QED, 2-3 point grids). Each "
    "is solved twice in fresh sub-processes with different PYTHONHASHSEED values (drawn), different working directories "
    "and different TMPDIR. The two tar archives must have the same member names and, for every regular file (operators, "
    "errors, part and recipe headers, cards, metadata), byte-identical content; tar mtimes / ownership are not part of the "
    "claim. Non-trivial = an archive with >=2 parts (a matching or several targets); distinct by (order, nf0, target nfs, "
    "seeds)."
)
ASSUMPTIONS = [
    "tar member metadata (mtime, uid) is not compared, only names and file contents",
    "two runs per case; a hash-seed dependence that needs a particular pair of seeds is found only if that pair is drawn",
    "interpreted mode (NUMBA_DISABLE_JIT=1)",
]
LEVEL_TEXT = (
    "Differential exploration across fresh interpreter processes with an exact byte oracle; the hash seed, cwd and temp "
    "directory are varied, the OS scheduler is not controlled."
)


def budget(tier):
    if tier == "quick":
        return dict(max_examples=16, shards=16, wall_s=90, shrink_s=0)
    return dict(max_examples=96, shards=16, wall_s=1200, shrink_s=0)


def strategy(tier):
    from hypothesis import strategies as st

    @st.composite
    def build(draw):
        qed = draw(st.sampled_from((0, 0, 0, 1)))
        base = draw(
            ru.st_tiny_card(orders=(1, 1, 2), qed=(qed,), methods=("iterate-exact",) if qed else ("iterate-exact", "truncated", "decompose-exact"),
                            n_extra_targets=(1, 3), grid_pts=(2, 3), iters=(1, 2), weird_nf=0.3)
        )
        if base["order"][0] >= 2 or qed:
            base["xgrid"] = base["xgrid"][-2:]
            base["deg"] = 1
        if qed:
            base["mugrid"] = base["mugrid"][:2]
        # zero-length pieces: a target equal to the initial point and / or a target exactly on a matching scale
        extra = draw(st.integers(0, 3))
        if extra in (1, 3):
            base["mugrid"] = [list(base["init"])] + base["mugrid"][: 2 if qed else 3]
        if extra in (2, 3):
            import math

            q = draw(st.integers(0, 1))
            w2 = (base["ratios"][q] ** 2) * (base["masses"][q] ** 2)
            w = math.sqrt(w2)
            for cand in (w, float(np.nextafter(w, 0.0)), float(np.nextafter(w, 1e9))):
                if cand * cand == w2:
                    w = cand
            base["mugrid"] = base["mugrid"][: 2 if qed else 3] + [[float(w), 3 + q + draw(st.integers(0, 1))]]
        if any(n < base["init"][1] for _, n in base["mugrid"]) and base["inv"] is None:
            base["inv"] = "expanded"
        walls = ru.walls_of(base)
        lowest = min([base["init"][0], base["ref"][0]] + [m for m, _ in base["mugrid"]] + walls[:2])
        base["alphas"] = float(ru.lo_alpha(draw(st.floats(0.1, 0.3)), lowest, base["ref"][0]))
        s1 = draw(st.integers(0, 4294967295))
        s2 = draw(st.integers(0, 4294967295).filter(lambda v: v != s1))
        return {"card": base, "hashseeds": [s1, s2]}

    return build()


def members(path):
    out = {}
    with tarfile.open(path) as tar:
        for m in tar.getmembers():
            name = os.path.normpath(m.name)
            if m.isfile():
                out[name] = tar.extractfile(m).read()
            else:
                out[name] = None
    return out


def check_case(case):
    res = CaseResult()
    card = case["card"]
    c = ru.full(card)
    res.classes = [f"order={c['order'][0]},{c['order'][1]}", f"targets={len(c['mugrid'])}"]
    res.key = [c["order"], c["init"][1], [n for _, n in c["mugrid"]], case["hashseeds"]]
    d = ru.fresh_dir("vf-c47-")
    try:
        (d / "case.json").write_text(json.dumps(card))
        outs = []
        for i, hs in enumerate(case["hashseeds"]):
            cwd = d / f"cwd{i}"
            tmp = d / f"tmp{i}"
            cwd.mkdir()
            tmp.mkdir()
            env = dict(os.environ)
            env.update(PYTHONHASHSEED=str(hs), TMPDIR=str(tmp), NUMBA_DISABLE_JIT="1",
                       PYTHONPATH=os.pathsep.join([str(core.VERIF), str(core.DEPS)]))
            p = subprocess.run([core.PY, "-m", "vf.solve_cli", str(d / "case.json"), str(cwd / f"out{i}.tar")],
                               cwd=str(cwd), env=env, capture_output=True, text=True)
            if p.returncode == 3:
                return CaseResult(discarded="refused")
            if p.returncode != 0:
                return CaseResult(discarded="crash(decided by C04):" + (p.stderr.strip().splitlines() or ["?"])[-1][:80])
            outs.append(members(cwd / f"out{i}.tar"))
        a, b = outs
        nparts = sum(1 for n in a if n.startswith("parts") and n.endswith(".lz4"))
        res.nontrivial = nparts >= 2
        res.classes.append(f"parts={min(nparts, 6)}")
        if sorted(a) != sorted(b):
            only_a = sorted(set(a) - set(b))[:5]
            only_b = sorted(set(b) - set(a))[:5]
            res.fail(f"{ID}/member-names", f"member names differ between hash seeds {case['hashseeds']}: only first {only_a}, only second {only_b}")
            return res
        for n in sorted(a):
            if a[n] != b[n]:
                kind = n.split("/")[0] if "/" in n else n
                res.fail(f"{ID}/content/{kind}", f"member {n} differs between hash seeds {case['hashseeds']}")
    finally:
        shutil.rmtree(d, ignore_errors=True)
    return res

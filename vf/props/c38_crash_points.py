"""C38 failed or interrupted runs never leave a corrupt or partial archive (fault enumeration)."""

import contextlib
import hashlib
import json
import pathlib
import shutil
import tempfile

import numpy as np

from vf import runner_util as ru
from vf.core import CaseResult, exc_bucket
from vf.refs import s2_faults as sf

ID = "C38"
LEVEL = "fault_enumeration"
ENGINE = "S"
TECHNIQUE = (
    "recording run numbers every write primitive / computation step (wrapped from the harness process); one re-run per "
    "(scenario, site, fault kind) with that single fault injected; post-conditions on the target path + recovery run"
)
RULE = (
    "Two scenarios: (solve) eko.solve of a tiny LO card with one threshold crossing into a fresh path; (edit) EKO.edit of "
    "that archive: overwrite the operator, add a second one, rewrite the metadata, close. A recording run wraps "
    "Path.write_text/write_bytes/mkdir/unlink/rmdir/rename/replace/touch, os.replace/rename, open(...,'w'|'wb') as seen by "
    "the eko modules and the returned object's write/close, yaml.dump/safe_dump, np.save/savez, lz4.frame.compress, "
    "tarfile.open, the archive file object's write/close, TarFile.add/addfile/extractall/makefile/makedir, "
    "shutil.rmtree/copytree/copy*/move, tempfile.mkdtemp, recipes.create, parts.evolve, parts.match, operators.retrieve, "
    "operators.join and marked points of the user's code in the with body, and numbers the calls (sites, listed in the "
    "evidence). Quick tier: every site x every applicable kind (error = OSError(ENOSPC)/RuntimeError before the call, half = "
    "half of the bytes/entries then ENOSPC, interrupt = KeyboardInterrupt before, interrupt-after = KeyboardInterrupt "
    "right after the completed call) - exhaustive. Thorough tier adds fault sequences: run 1 fails at site j, the "
    "recovery run fails at site k (all j<k, kind error, computation steps memoised), the third run is clean. "
    "Post-conditions after a failed run: the target path does not exist (new EKO) / is sha256-identical to the "
    "pre-session archive and loads to the same content (edited EKO); the next un-faulted run on the same path succeeds "
    "and yields the reference content (operators bitwise, cards, metadata). Non-trivial = the fault fires after at "
    "least one successful write to the file system; distinct by (scenario, sites, kinds)."
)
ASSUMPTIONS = [
    "faults are injected at Python-level call sites; a partial write inside one C-level write is modelled by the 'half' "
    "variant, not by killing the process (DESIGN section 5)",
    "commit point: a fault at a site after the last write to the target directory (the removal of the scratch directory "
    "once the archive has been completely written) may also leave the complete new archive (equal to the reference "
    "content) - a failed clean-up cannot undo a finished dump; counted in class 'post-commit'. Set STRICT_POST_COMMIT "
    "to apply the literal post-condition there as well",
    "a fault that is swallowed (the session returns normally) must leave the complete reference archive",
    "leaked scratch directories (eko-* under TMPDIR) are not part of the property; the check removes them per case",
    "thorough tier, sequences only: parts.evolve / parts.match / operators.join return results memoised from an "
    "un-faulted run (they are deterministic, C47), so that 10^4 three-run sequences fit the budget",
]
LEVEL_TEXT = (
    "Fault enumeration: every write primitive and computation step executed by a small solve and by an edit session is "
    "numbered in a recording run and failed one at a time in each applicable way; exhaustive over the enumerated sites "
    "of these two scenarios (not over all cards or archive sizes), at Python call-site granularity."
)

STRICT_POST_COMMIT = False

CARD = dict(order=[1, 0], init=[1.2, 3], mugrid=[[3.0, 4]], xgrid=[0.2, 0.6, 1.0], iters=1, masses=[1.5, 4.5, 173.0])
EP_OLD = (9.0, 4)
EP_NEW = (16.0, 4)
SCENARIOS = ("solve", "edit")
_WRITE_ZONES = ("S", "T")
_STATE = {}


def budget(tier):
    if tier == "quick":
        return dict(enum_shards=16, wall_s=120)
    return dict(enum_shards=16, wall_s=900)


# ----------------------------------------------------------------------------- scenarios


def _edit_arrays():
    n = len(CARD["xgrid"])
    a = (np.arange(14 * n * 14 * n, dtype=float).reshape(14, n, 14, n) + 0.5) / 7.0
    return a, a * 1e-3, a[::-1].copy() * 3.0


def _body_solve(plan, target, memo):
    import eko

    th, op = ru.cards(CARD)
    plan.active = True
    eko.solve(th, op, target)


def _body_edit(plan, target, memo):
    from eko.io.items import Operator
    from eko.io.struct import EKO

    a, ea, b = _edit_arrays()
    plan.active = True
    plan.user("before EKO.edit")
    with EKO.edit(target) as ev:
        plan.user("body: opened")
        ev[EP_OLD] = Operator(operator=a, error=ea)
        plan.user("body: after overwrite")
        ev[EP_NEW] = Operator(operator=b)
        plan.user("body: after add")
        ev.update()
        plan.user("body: end")


_BODY = {"solve": _body_solve, "edit": _body_edit}


def _run(scenario, plan, target, memo=None):
    """Run the scenario under the plan. Returns the exception that ended it or None."""
    with sf.installed(plan):
        undo = []
        if memo is not None and scenario == "solve":
            from eko.runner import operators as r_operators
            from eko.runner import parts as r_parts

            for mod, name in ((r_parts, "evolve"), (r_parts, "match"), (r_operators, "join")):
                wrapped = getattr(mod, name)
                orig = wrapped.__wrapped__
                store = memo.setdefault(name, {})

                def make(orig, store, name):
                    def cached(*a):
                        key = repr(a[1]) if name != "join" else "join"
                        if key not in store:
                            store[key] = orig(*a)
                        return store[key]

                    return cached

                # keep the counting wrapper, replace what it calls
                new = sf._generic(plan, f"{'parts' if mod is r_parts else 'operators'}.{name}", make(orig, store, name),
                                  (lambda eko, rec: sf._rec(rec)) if name != "join" else (lambda c: f"{len(c)} components"),
                                  sf.STEP_KINDS, step=True)
                undo.append((mod, name, wrapped))
                setattr(mod, name, new)
        try:
            _BODY[scenario](plan, pathlib.Path(target), memo)
            return None
        except BaseException as e:  # noqa: BLE001 - the faults include KeyboardInterrupt
            plan.active = False
            if not isinstance(e, Exception) and not sf.is_injected(e):
                raise
            return e
        finally:
            plan.active = False
            for mod, name, wrapped in undo:
                setattr(mod, name, wrapped)


@contextlib.contextmanager
def _case_dirs():
    d = pathlib.Path(tempfile.mkdtemp(prefix="c38-"))
    old = tempfile.tempdir
    try:
        (d / "out").mkdir()
        (d / "tmp").mkdir()
        tempfile.tempdir = str(d / "tmp")
        yield d / "out", d / "tmp"
    finally:
        tempfile.tempdir = old
        shutil.rmtree(d, ignore_errors=True)


def _sha_file(p):
    return hashlib.sha256(pathlib.Path(p).read_bytes()).hexdigest()


def _arr(a):
    if a is None:
        return None
    a = np.asarray(a)
    return [str(a.dtype), list(a.shape), hashlib.sha256(np.ascontiguousarray(a).tobytes()).hexdigest()]


def _content(path):
    """Canonical JSON text of everything an archive holds, or ('unreadable', reason)."""
    from eko.io.struct import EKO

    try:
        ev = EKO.read(pathlib.Path(path))
    except Exception as e:  # noqa: BLE001 - an unreadable archive is a verdict here
        return "unreadable: " + repr(e)[:300]
    try:
        ops = {}
        for ep, op in ev.items():
            ops[f"{float(ep[0])!r},{int(ep[1])}"] = [_arr(op.operator), _arr(op.error)]
        doc = dict(
            ops=ops,
            theory=ev.theory_card.raw,
            operator=ev.operator_card.raw,
            metadata=ev.metadata.raw,
            parts=sorted(p.name for p in ev.paths.parts.iterdir()),
        )
        return json.dumps(doc, sort_keys=True, default=repr)
    except Exception as e:  # noqa: BLE001
        return "unreadable: " + repr(e)[:300]
    finally:
        shutil.rmtree(ev.metadata.path, ignore_errors=True)


def _reference(scenario):
    """Recording run (per process): site log, reference final content, base archive bytes."""
    if scenario in _STATE:
        return _STATE[scenario]
    if scenario == "edit":
        base = _reference("solve")["final_bytes"]
    with _case_dirs() as (out, tmp):
        target = out / "eko.tar"
        pre = None
        if scenario == "edit":
            target.write_bytes(base)
            pre = _content(target)
        plan = sf.Plan({}, out, tmp)
        exc = _run(scenario, plan, target)
        if exc is not None:
            raise RuntimeError(f"harness: the un-faulted {scenario} scenario failed") from exc
        final = _content(target)
        if final.startswith("unreadable"):
            raise RuntimeError(f"harness: reference archive of {scenario}: {final}")
        log = plan.log
        twrites = [s["idx"] for s in log if s["zone"] == "T"]
        writes = [s["idx"] for s in log if s["zone"] in _WRITE_ZONES]
        ref = dict(
            log=log,
            final=final,
            final_bytes=target.read_bytes(),
            pre=pre,
            base=base if scenario == "edit" else None,
            first_t=min(twrites),
            last_t=max(twrites),
            first_write=min(writes),
        )
    _STATE[scenario] = ref
    return ref


# ----------------------------------------------------------------------------- cases


def enumerate_cases(tier):
    cases = []
    for sc in SCENARIOS:
        log = _reference(sc)["log"]
        for s in log:
            for kind in s["kinds"]:
                cases.append(dict(scenario=sc, faults=[dict(run=1, site=s["idx"], kind=kind)],
                                  label=f"{s['prim']} {s['what']}"))
    if tier == "thorough":
        for sc in SCENARIOS:
            log = _reference(sc)["log"]
            for j in log:
                # sites reached only while the first failure is being handled (none on a tree without such code)
                for m in (1, 2):
                    cases.append(dict(scenario=sc, label=f"{j['prim']} {j['what']} + handler site",
                                      faults=[dict(run=1, site=j["idx"], kind="error"),
                                              dict(run=1, site=j["idx"] + m, kind="error")]))
                for k in log:
                    if j["idx"] < k["idx"]:
                        cases.append(dict(scenario=sc, label=f"{j['prim']} {j['what']} -> {k['prim']} {k['what']}",
                                          faults=[dict(run=1, site=j["idx"], kind="error"),
                                                  dict(run=2, site=k["idx"], kind="error")]))
    return cases


def evidence_extra(tier):
    out = {}
    for sc in SCENARIOS:
        out[f"sites_{sc}"] = [f"{s['idx']}: {s['prim']} {s['what']} [{s['zone']}] kinds={','.join(s['kinds'])}"
                              for s in _reference(sc)["log"]]
    out["explanation"] = (
        "exhaustive over the enumerated sites x applicable fault kinds of the two scenarios"
        + ("; plus all fault sequences (run 1 site j, run 2 site k, j<k, kind error)" if tier == "thorough" else "")
    )
    return out


def _phase(ref, idx):
    if idx < ref["first_t"]:
        return "body"
    if idx <= ref["last_t"]:
        return "close"
    return "cleanup"


def check_case(case):
    sc = case["scenario"]
    faults = case["faults"]
    ref = _reference(sc)
    res = CaseResult(key=[sc, [[f["run"], f["site"], f["kind"]] for f in faults]])
    res.classes = [f"scenario={sc}", f"nfaults={len(faults)}"]
    memo = _STATE.setdefault("memo", {}) if len(faults) > 1 else None
    last_run = max(f["run"] for f in faults) + 1
    nontrivial = False
    with _case_dirs() as (out, tmp):
        target = out / "eko.tar"
        if sc == "edit":
            target.write_bytes(ref["base"])
            pre_sha = _sha_file(target)
        for run_no in range(1, last_run + 1):
            fl = {f["site"]: f["kind"] for f in faults if f["run"] == run_no}
            plan = sf.Plan(fl, out, tmp)
            plan.lenient = True  # replays on a tree whose numbering moved: unsupported kind -> "error"
            exc = _run(sc, plan, target, memo)
            fired = plan.fired
            if fired:
                idx, kind, label = fired[0]
                site = plan.log[idx]
                phase = _phase(ref, idx)
                post_commit = idx > ref["last_t"] or (idx == ref["last_t"] and kind == "interrupt-after")
                if run_no == 1:
                    res.classes += [f"kind={kind}", f"prim={site['prim'].split('(')[0]}", f"zone={site['zone']}",
                                    f"phase={phase}"]
                    if post_commit:
                        res.classes.append("post-commit")
                    if f"{site['prim']} {site['what']}" != case.get("label", "").split(" -> ")[0].split(" + ")[0]:
                        res.classes.append("label-drift")
                if idx > ref["first_write"]:
                    nontrivial = True
            # ---------------------------------------------------------------- verdicts
            if exc is None:
                got = _content(target) if target.exists() else "absent"
                if got != ref["final"]:
                    what = "fault-swallowed" if fired else "rerun-differs"
                    res.fail(
                        f"{ID}/{sc}/{what}" + (f"/phase={phase}" if fired else ""),
                        f"run {run_no} returned normally" + (f" although {fired[0][1]} was injected at site {fired[0][0]} "
                        f"({fired[0][2]})" if fired else " (no fault)") + f", but the archive is not the reference content: "
                        f"{_diff(got, ref['final'])}; faults={faults}",
                    )
                if fired:
                    res.classes.append("outcome=swallowed")
                break  # the session succeeded: nothing left to recover from
            if not fired:
                res.fail(
                    exc_bucket(f"{ID}/{sc}/rerun-fails", exc),
                    f"un-faulted run {run_no} after the failed run(s) {faults[:run_no - 1]} raised {exc!r}",
                )
                break
            res.classes.append(f"outcome={type(exc).__name__}")
            literal, why = _literal_holds(sc, target, ref, pre_sha if sc == "edit" else None)
            if not literal:
                committed = False
                if post_commit and not STRICT_POST_COMMIT and target.exists():
                    committed = _content(target) == ref["final"]
                if committed:
                    res.classes.append("post-commit:new-archive-complete")
                    if sc == "solve":
                        break  # a complete archive exists; running solve again is refused by design (OutputExistsError)
                else:
                    res.fail(
                        f"{ID}/{sc}/{'partial-archive-left' if sc == 'solve' else 'previous-archive-lost'}/phase={phase}",
                        f"{kind} injected at site {idx} ({label}) of run {run_no}; the session raised {exc!r}; afterwards "
                        f"{why}; faults={faults}",
                    )
                    break  # later runs would only repeat this root cause
        else:
            raise RuntimeError("harness: run loop fell through")
    if not any(c.startswith("kind=") for c in res.classes):
        res.classes.append("fault-not-reached")
        nontrivial = False
    res.nontrivial = nontrivial
    return res


def _literal_holds(sc, target, ref, pre_sha):
    if sc == "solve":
        if target.exists():
            c = _content(target)
            state = "a complete archive" if c == ref["final"] else f"a partial/corrupt archive ({c[:120]})"
            return False, f"the target path exists ({target.stat().st_size} bytes, {state}), so a new run is refused"
        return True, ""
    if not target.exists():
        return False, "the target path no longer exists: the previous complete archive is lost"
    if _sha_file(target) != pre_sha:
        c = _content(target)
        state = "the complete new content" if c == ref["final"] else (
            "the previous content re-packed" if c == ref["pre"] else f"a partial/corrupt archive ({c[:120]})")
        return False, f"the archive differs from the pre-session archive (sha256) and holds {state}"
    c = _content(target)
    if c != ref["pre"]:
        return False, f"the archive is byte-identical but does not load to the previous content: {c[:200]}"
    return True, ""


def _diff(got, want):
    if got == want:
        return "equal"
    if not got.startswith("{"):
        return got[:200]
    a, b = json.loads(got), json.loads(want)
    out = []
    for k in sorted(set(a) | set(b)):
        if a.get(k) != b.get(k):
            if k == "ops":
                out.append(f"ops: points {sorted(a[k])} vs {sorted(b[k])}, differing "
                           f"{[p for p in a[k] if a[k].get(p) != b[k].get(p)]}")
            else:
                out.append(f"{k} differs")
    return "; ".join(out)[:400]

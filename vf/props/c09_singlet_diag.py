"""C09 singlet solutions reduce to the non-singlet ones for commuting (diagonal) anomalous dimensions."""

import math

from hypothesis import strategies as st

from vf.core import CaseResult, exc_bucket

ID = "C09"
LEVEL = "exploration"
TECHNIQUE = (
    "second code path: singlet.dispatcher on diagonal towers vs non_singlet.dispatcher on each diagonal entry "
    "(rounding-level equality, O(1/iterations^2) midpoint convergence, O(a^max_order) truncation rate, "
    "working-order scaling exponent where the two sectors are documented to use different formulas)"
)
RULE = (
    "Hypothesis draws order n in 1..4, nf in 3..6, a coupling pair in [0.002, 0.05] in either order, a diagonal "
    "complex tower diag(x_k, y_k) with |x_k| in [0.02,1] x 10^k and |y_k - x_k| in [0.15,1] x 10^k, one of the eight methods, ev_op_iterations "
    "(iterate: 1..400 log-distributed; perturbative: 1..20) and ev_op_max_order n..12. Compared per method: "
    "decompose-exact/-expanded and truncated: diagonal entries equal the NS kernel of the same method to 1e-10; "
    "ordered-truncated: equal to NS truncated to 1e-10 (one formula in the singlet sector, DGLAP.rst) and to NS "
    "ordered-truncated to the working order (scaling exponent >= n-0.25); iterate-exact/-expanded (one discretised "
    "path ordering, DGLAP.rst): identical to each other, within 2 x the leading mid-point-rule error (sum over steps of "
    "da^3 |F''|/24, F = gamma/beta) of NS exact for step h = L/iterations <= 0.5 and shrinking by >= 3 when iterations double; perturbative-exact/-expanded vs NS "
    "exact/expanded: error O(a^max_order) (exponent >= max_order-0.25 for max_order <= 7), not larger at "
    "max_order+3 (couplings <= 0.035) and <= 1e-7 max(1,a_max/0.03)^12 at (max_order 12, 20 iterations). "
    "Off-diagonal entries <= 1e-12 ||E|| always. Non-trivial = order >= 2 and relative eigenvalue gap of every "
    "gamma_k >= 5 %; distinct by the full case."
)
ASSUMPTIONS = [
    "non_singlet.dispatcher is the second implementation; both dispatchers are called with EvoMethods members as "
    "the real caller (Operator.ev_method) does",
    "rounding-level tolerance 1e-10 relative per diagonal entry (DESIGN section 2); towers with a relative eigenvalue "
    "gap of gamma_0 below 1e-2 are discarded (closed 2x2 exponential divides by the gap)",
    "DESIGN 5.1: singlet ordered-truncated is documented to share the formula of truncated, hence rounding-level "
    "equality with NS *truncated* and working-order agreement with NS ordered-truncated; by the same documentation "
    "singlet iterate-expanded is the discretised exact solution and is compared with NS exact (NS iterate-expanded "
    "is the expanded closed form, which differs at the working order)",
    "midpoint rule: the leading error of the exponent is sum_steps da^3 F''(a_mid)/24 with F = gamma/beta (literature "
    "beta), evaluated by central differences; measured error / estimate = 0.27 .. 1.03 on 2600 corner-biased entries "
    "of the unchanged tree, bound = 2 x estimate; only used for h <= 0.5 and predicted error <= 0.3",
    "perturbative bound at (12, 20): truncation error scales like a^12; 1e-7 at a_max <= 0.03 is 3 x the largest "
    "value measured on corner-biased towers of the unchanged tree; monotonicity in max_order is only asserted in "
    "steps of 3 and for a_max <= 0.035 (single steps are not monotone for correct code: measured increases up to "
    "x2.7 at a = 0.05, where the U series barely converges)",
    "beta coefficients for the step-size bound come from the literature table of c20_coefficients",
    "scaling exponents: differences below 100 x 3e-14 (rounding noise of the two closed-form kernels, measured 4e-14) "
    "are not used; same decision rule as C08 (vf/refs/k2_scaling.py)",
]
LEVEL_TEXT = (
    "Exploration by generated inputs: all eight singlet methods at all orders are compared, on random diagonal "
    "towers, with the independent non-singlet code path. Equalities are to rounding; discretised/truncated methods "
    "are held to their documented convergence behaviour. Not a proof: finite sample of towers."
)

METHODS = [
    "iterate-exact",
    "iterate-expanded",
    "perturbative-exact",
    "perturbative-expanded",
    "truncated",
    "ordered-truncated",
    "decompose-exact",
    "decompose-expanded",
]
TOL = 1e-10
SAFETY = 2.0  # measured error / leading-order estimate: 0.27 .. 1.03 on the unchanged tree
FLOOR = 3e-14  # rounding noise of the closed-form kernels (measured 4e-14 when E is close to 1)


def budget(tier):
    if tier == "quick":
        return dict(max_examples=1600, shards=16, wall_s=70, shrink_s=30)
    return dict(max_examples=20000, shards=16, wall_s=700, shrink_s=120)


def strategy(tier):
    from vf import strategies as S
    from vf.refs import k2_gen as G

    @st.composite
    def build(draw):
        n = draw(st.sampled_from([1, 2, 2, 3, 3, 3, 4, 4, 4, 4]))
        method = METHODS[draw(st.integers(0, 10**6)) % len(METHODS)]
        case = {
            "order": n,
            "nf": draw(st.integers(3, 6)),
            "a": draw(G.couplings(0.05)),
            "method": method,
            "tower": draw(G.diag_tower(n)),
        }
        if method.startswith("iterate"):
            case["its"] = int(round(draw(S.log_floats(1, 400))))
        elif method.startswith("perturbative"):
            case["its"] = draw(st.integers(1, 20))
            case["max_order"] = draw(st.integers(max(n, 2), 12))
        return case

    return build()


def _method(name):
    from eko.kernels import EvoMethods

    return EvoMethods[name.upper().replace("-", "_")]


class _RepoError(Exception):
    pass


def check_case(case):
    import numpy as np

    from eko.kernels import non_singlet as ns
    from eko.kernels import singlet as s
    from vf.refs import k2_gen as G
    from vf.refs import k2_ode as R
    from vf.refs import k2_scaling as SC

    n, nf, mname = case["order"], case["nf"], case["method"]
    a0, a1 = case["a"]
    g = G.build(case["tower"])
    diag = [np.array([g[k][i, i] for k in range(n)]) for i in range(2)]
    order = (n, 0)
    its = int(case.get("its", 1))
    mo = int(case.get("max_order", 10))
    L = abs(math.log(a1 / a0))
    amax = max(a0, a1)
    blabel = "(ordered-)truncated" if mname.endswith("truncated") else mname
    tail = f"method={blabel}/order={n}"
    res = CaseResult(classes=[f"{mname}/order={n}"])

    if G.eig_gap(g[0]) < 1e-2:
        return CaseResult(discarded="gamma_0 with (nearly) degenerate eigenvalues")
    res.nontrivial = n >= 2 and all(G.eig_gap(gk) >= 0.05 for gk in g)

    def sing(method_name, lam=1.0, its_=None, mo_=None):
        try:
            return np.asarray(
                s.dispatcher(
                    order,
                    _method(method_name),
                    g,
                    lam * a1,
                    lam * a0,
                    nf,
                    its if its_ is None else its_,
                    ((mo if mo_ is None else mo_), 0),
                )
            )
        except Exception as e:  # noqa: BLE001 - exceptions of the code under test are verdicts
            raise _RepoError(exc_bucket(f"{ID}/call/singlet/{tail}", e), repr(e)) from e

    def nons(method_name, lam=1.0):
        try:
            return np.array(
                [complex(ns.dispatcher(order, _method(method_name), diag[i], lam * a1, lam * a0, nf)) for i in range(2)]
            )
        except Exception as e:  # noqa: BLE001
            raise _RepoError(exc_bucket(f"{ID}/call/non-singlet/{tail}", e), repr(e)) from e

    def rel(E, v):
        """largest relative deviation of the diagonal of E from the NS values v."""
        return float(max(abs(E[i, i] - v[i]) / abs(v[i]) for i in range(2)))

    def offdiag(E, what):
        nrm = R.fro(E)
        off = max(abs(E[0, 1]), abs(E[1, 0]))
        if not np.all(np.isfinite(E)):
            res.fail(f"{ID}/non-finite/{tail}", f"{what}: non-finite entries {E.tolist()}")
            return False
        if off > 1e-12 * nrm:
            res.fail(f"{ID}/offdiag/{tail}", f"{what}: off-diagonal entry {off:.3e} on diagonal input (||E||={nrm:.3e})")
        return True

    where = f"nf={nf}, a0={a0}, a1={a1}, its={its}, max_order={mo}"
    try:
        E = sing(mname)
        if not offdiag(E, f"singlet {mname}"):
            return res
        if n == 1 or mname in ("decompose-exact", "decompose-expanded", "truncated", "ordered-truncated"):
            partner = "truncated" if mname == "ordered-truncated" else mname
            d = rel(E, nons(partner))
            if d > TOL:
                res.fail(
                    f"{ID}/diag-vs-ns/{tail}",
                    f"singlet {mname} on diagonal input differs from non-singlet {partner} by {d:.3e} relative "
                    f"(> {TOL}) at order {n}, {where}",
                )
            if mname == "ordered-truncated" and n >= 2:
                # different formulas in the two sectors: agreement to the working order only
                v = SC.exponent_verdict(lambda lam: rel(sing(mname, lam), nons(mname, lam)), n, FLOOR)
                res.classes.append("ot-verdict=" + v["status"])
                if v["status"] in ("low", "nan"):
                    res.fail(
                        f"{ID}/working-order-vs-ns-ordered-truncated/order={n}",
                        f"singlet ordered-truncated vs non-singlet ordered-truncated at order {n} ({where}): "
                        f"{SC.fmt(v)}",
                    )
        elif mname.startswith("iterate"):
            other = "iterate-expanded" if mname == "iterate-exact" else "iterate-exact"
            if not np.array_equal(E, sing(other)):
                res.fail(f"{ID}/iterate-exact-vs-expanded/order={n}", f"singlet {mname} and {other} differ ({where})")
            exact = nons("iterate-exact")
            h = L / its
            edges = np.geomspace(a0, a1, its + 1)
            est = [R.midpoint_error_estimate(R.qcd_generator(list(diag[i]), nf), edges) for i in range(2)]
            errs = [abs(E[i, i] - exact[i]) / abs(exact[i]) for i in range(2)]
            err = max(errs)
            pred = SAFETY * max(est)
            if h <= 0.5 and pred <= 0.3:
                res.classes.append("iterate-asymptotic")
                if any(errs[i] > SAFETY * est[i] + 1e-12 for i in range(2)):
                    res.fail(
                        f"{ID}/iterate-bound/order={n}",
                        f"singlet {mname} vs non-singlet exact: errors {errs[0]:.3e}, {errs[1]:.3e} exceed {SAFETY} x "
                        f"the leading mid-point error {est[0]:.3e}, {est[1]:.3e} (h={h:.3g}, L={L:.3g}; {where})",
                    )
                if its <= 200:
                    err2 = rel(sing(mname, its_=2 * its), exact)
                    if err2 > 1e-11 and err2 > err / 3.0:
                        res.fail(
                            f"{ID}/iterate-rate/order={n}",
                            f"singlet {mname}: error {err:.3e} at {its} iterations, {err2:.3e} at {2 * its} "
                            f"(ratio {err / err2:.2f} < 3, second-order midpoint rule expected; {where})",
                        )
            else:
                res.classes.append("iterate-coarse")
        else:  # perturbative-*
            target = nons(mname)  # NS perturbative-exact = exact closed form, perturbative-expanded = expanded one
            err = rel(E, target)
            if mo <= 7:
                v = SC.exponent_verdict(lambda lam: rel(sing(mname, lam), nons(mname, lam)), mo, FLOOR)
                res.classes.append("pert-rate=" + v["status"])
                if v["status"] in ("low", "nan"):
                    res.fail(
                        f"{ID}/perturbative-rate/method={mname}/order={n}",
                        f"singlet {mname} with max_order {mo} vs non-singlet {mname} at order {n} ({where}): error "
                        f"does not vanish like a^{mo}: {SC.fmt(v)}",
                    )
            if amax <= 0.035 and mo + 3 <= 12:
                err3 = rel(sing(mname, mo_=mo + 3), target)
                if err3 > 1e-12 and err3 > err:
                    res.fail(
                        f"{ID}/perturbative-monotone/method={mname}/order={n}",
                        f"singlet {mname}: error {err:.3e} at max_order {mo} grows to {err3:.3e} at {mo + 3} ({where})",
                    )
            e12 = rel(sing(mname, its_=20, mo_=12), target)
            bound = 1e-7 * max(1.0, amax / 0.03) ** 12
            if e12 > bound:
                res.fail(
                    f"{ID}/perturbative-limit/method={mname}/order={n}",
                    f"singlet {mname} at (max_order 12, 20 iterations) is {e12:.3e} from non-singlet {mname} "
                    f"(bound {bound:.3e}; {where})",
                )
    except _RepoError as e:
        res.fail(e.args[0], e.args[1])
    return res

"""C17 coupling evaluations are independent of the evaluation history (stateful, fresh-object differential)."""

import json
import math
import time

from vf.core import CaseResult, exc_bucket
from vf.refs import paths as refpaths

ID = "C17"
LEVEL = "exploration"
TECHNIQUE = (
    "Hypothesis RuleBasedStateMachine driving one Couplings object (queries, in-place mutation of returned "
    "values, repeats); every answer compared bitwise with a freshly constructed object"
)
RULE = (
    "Each case is a history: a drawn Couplings configuration (QCD order 1-4, QED order 0-2, alpha_em running "
    "on/off, exact/expanded, POLE/MSBAR matching tables, heavy masses x matching ratios in [0.7,2] or an FFNS "
    "atlas, reference 2-200 GeV in any nf 3-6 or unspecified) followed by 1-30 steps drawn by the state machine: "
    "query a(scale, nf) / a_s / a_em with the scale taken from a pool (each matching scale, the reference scale, "
    "m_tau^2, each of them shifted by relative 0, +-1e-9, +-3e-6, +-1e-4, and free log-uniform scales in "
    "[2.5, 1e6] GeV^2) and nf in {None,3..6}; mutate the most recently returned array in place (zero, scale, "
    "negate, NaN); repeat an earlier query. Non-trivial = the history contains a query repeated after a mutation "
    "of a returned value AND a query whose path crosses at least one matching scale (nf_to != nf_ref by the "
    "independent path model); distinct by history."
)
ASSUMPTIONS = [
    "the answer of a freshly constructed Couplings object with the same constructor arguments defines the "
    "expected value (the computation is deterministic: scipy Radau / closed formulas), so equality is bitwise",
    "unspecified nf (None) is only queried when the matching scales are naturally sorted (default flow defined)",
    "couplings stay perturbative on the generated domain (alpha_s(M_Z)-equivalent 0.10-0.12, scales >= 2.5 GeV^2, "
    "lowest matching scale about 0.9 GeV^2); values are compared whatever they are (also NaN bit patterns)",
    "scalar accessors a_s / a_em are compared as the float they return",
]
LEVEL_TEXT = (
    "Generated histories of up to 30 steps against the fresh-object oracle; the history space is unbounded, so the "
    "claim is 'held on N generated non-trivial histories', which is what exploration means."
)

MTAU2 = 1.777**2
EPS = [0.0, 0.0, 1e-9, -1e-9, 3e-6, -3e-6, 1e-4, -1e-4]
MUTS = ["zero", "scale", "neg", "nan", "first"]


# --------------------------------------------------------------------------- construction


def make(config):
    from eko.couplings import Couplings
    from eko.quantities.couplings import CouplingEvolutionMethod, CouplingsInfo
    from eko.quantities.heavy_quarks import QuarkMassScheme

    info = CouplingsInfo.from_dict(
        dict(
            alphas=config["alphas"],
            alphaem=config["alphaem"],
            ref=(config["ref"][0], config["ref"][1]),
            em_running=config["em_running"],
        )
    )
    return Couplings(
        info,
        order=tuple(config["order"]),
        method=CouplingEvolutionMethod(config["method"]),
        masses=[_num(m) for m in config["masses2"]],
        hqm_scheme=QuarkMassScheme(config["scheme"]),
        thresholds_ratios=list(config["ratios2"]),
    )


def _num(x):
    return math.inf if x == "inf" else float(x)


def walls_of(config):
    out = []
    for m, r in zip(config["masses2"], config["ratios2"]):
        m = _num(m)
        out.append(m * r if m not in (0.0, math.inf) else m)
    return out


def pool_of(config):
    pts = [w for w in walls_of(config) if 0 < w < math.inf]
    pts.append(config["ref"][0] ** 2)
    pts.append(MTAU2)
    return pts


def config_strategy():
    from hypothesis import strategies as st

    @st.composite
    def build(draw):
        qcd = draw(st.integers(1, 4))
        qed = draw(st.sampled_from([0, 0, 1, 2]))
        method = draw(st.sampled_from(["expanded", "expanded", "exact"]))
        ref = math.exp(draw(st.floats(math.log(2.0), math.log(200.0))))
        if draw(st.integers(0, 3)) == 0:
            ref = draw(st.sampled_from([91.2, 1.777, 4.5, 10.0]))
        # LO-like running of alpha_s(M_Z) in [0.10, 0.12] to the reference, so every config is perturbative
        amz = draw(st.floats(0.10, 0.12))
        alphas = amz / (1 + amz * 23 / (12 * math.pi) * math.log(ref**2 / 91.2**2))
        ffns = draw(st.integers(0, 5)) == 0
        if ffns:
            nf = draw(st.integers(3, 6))
            masses2 = [0.0] * (nf - 3) + ["inf"] * (6 - nf)
            ratios2 = [1.0, 1.0, 1.0]
            nf_ref = nf
        else:
            mc = draw(st.floats(1.35, 1.7))
            mb = draw(st.floats(4.0, 5.0))
            mt = draw(st.floats(150.0, 180.0))
            masses2 = [mc**2, mb**2, mt**2]
            ratios2 = [draw(st.sampled_from([1.0, draw(st.floats(0.7, 2.0))])) ** 2 for _ in range(3)]
            nf_ref = draw(st.sampled_from([None, 3, 4, 5, 6]))
            if draw(st.integers(0, 4)) == 0:
                # reference sitting exactly on a matching scale
                k = draw(st.integers(0, 1))
                ref = math.sqrt(masses2[k] * ratios2[k])
        cfg = dict(
            order=[qcd, qed],
            method=method,
            alphas=alphas,
            alphaem=draw(st.sampled_from([0.007496252, 0.0078])),
            ref=[ref, nf_ref],
            em_running=draw(st.booleans()) if qed > 0 else False,
            scheme=draw(st.sampled_from(["pole", "msbar"])),
            masses2=masses2,
            ratios2=ratios2,
        )
        w = walls_of(cfg)
        if not (w[0] <= w[1] <= w[2]) and cfg["ref"][1] is None:
            cfg["ref"][1] = draw(st.integers(3, 6))
        return cfg

    return build()


# --------------------------------------------------------------------------- replaying a history


class Replayer:
    """Executes steps on one long-lived object and compares every answer with a fresh object.

    Used both by the state machine (step by step) and by ``check_case`` (plain replay)."""

    def __init__(self, config):
        self.config = config
        self.res = CaseResult()
        self.steps = []
        self.queries = []  # executed query steps (for "rep")
        self.last = None  # most recently returned array
        self.crossing = False
        self.mut_seen_at = None
        self.repeat_after_mut = False
        self.seen_before_mut = set()
        self.seen = set()
        self.walls = walls_of(config)
        self.sorted = self.walls[0] <= self.walls[1] <= self.walls[2]
        self.classes = set()
        self.obj = None
        try:
            self.obj = make(config)
        except Exception as e:  # noqa: BLE001
            self.res.fail(exc_bucket(f"{ID}/construct", e), f"{e!r} for {config}")

    # ---- one step
    def step(self, s):
        self.steps.append(s)
        if self.obj is None:
            return
        kind = s[0]
        if kind == "rep":
            if not self.queries:
                return
            q = self.queries[s[1] % len(self.queries)]
            self.classes.add("repeat")
            self._query(q)
        elif kind in ("a", "as", "aem"):
            self._query(s)
        elif kind == "mut":
            self._mutate(s[1])
        else:
            raise ValueError(f"unknown step {s}")

    def _mutate(self, how):
        import numpy as np

        if self.last is None or not isinstance(self.last, np.ndarray):
            return
        self.classes.add("mutation")
        arr = self.last
        if how == "zero":
            arr[:] = 0.0
        elif how == "scale":
            arr *= 3.0
        elif how == "neg":
            arr *= -1.0
        elif how == "nan":
            arr[:] = np.nan
        elif how == "first":
            arr[0] = 0.123
        else:
            raise ValueError(how)
        if self.mut_seen_at is None:
            self.mut_seen_at = len(self.steps)
        self.seen_before_mut = set(self.seen)

    def _query(self, q):
        import numpy as np

        kind, scale, nf = q
        if nf is None and not self.sorted:
            raise ValueError("nf=None with unsorted walls is outside the domain (generator bug)")
        if nf is not None and self.config["ref"][1] is not None:
            for seg in refpaths.ref_path(self.walls, (self.config["ref"][0] ** 2, self.config["ref"][1]), (scale, nf))[:-1]:
                if seg[1] in (0.0, math.inf):
                    raise ValueError("query crosses a matching scale at 0/inf: outside the domain (generator bug)")
        self.queries.append(list(q))
        key = (kind, scale, nf)
        if self.mut_seen_at is not None and (scale, nf) in {(k[1], k[2]) for k in self.seen_before_mut}:
            self.repeat_after_mut = True
        self.seen.add(key)
        # classification with the independent path model
        ref_pt = (self.config["ref"][0] ** 2, self.config["ref"][1])
        if self.sorted or (nf is not None and ref_pt[1] is not None):
            nf_ref = refpaths.normalize(ref_pt, self.walls)[1]
            nf_to = refpaths.normalize((scale, nf), self.walls)[1]
            if nf_ref != nf_to:
                self.crossing = True
                self.classes.add("crossing")
                self.classes.add("downward" if nf_to < nf_ref else "upward")
        if abs(scale / ref_pt[0] - 1) < 2e-5:
            self.classes.add("short-segment@ref")
        if any(0 < w < math.inf and abs(scale / w - 1) < 2e-5 for w in self.walls):
            self.classes.add("scale@wall")
        if abs(scale / MTAU2 - 1) < 2e-4 or (scale - MTAU2) * (ref_pt[0] - MTAU2) < 0:
            self.classes.add("mtau-crossing")

        bucket_cfg = f"method={self.config['method']}/qed={'on' if self.config['order'][1] else 'off'}"
        try:
            got = self._call(self.obj, kind, scale, nf)
        except Exception as e:  # noqa: BLE001
            self.res.fail(exc_bucket(f"{ID}/call/{kind}", e), f"{e!r} at step {len(self.steps)} of {self.steps}")
            return
        try:
            want = self._call(make(self.config), kind, scale, nf)
        except Exception as e:  # noqa: BLE001
            self.res.fail(exc_bucket(f"{ID}/fresh-call/{kind}", e), f"fresh object raised {e!r} for {q}")
            return
        if kind == "a":
            self.last = got
            ok = (
                isinstance(got, np.ndarray)
                and got.shape == want.shape
                and got.dtype == want.dtype
                and got.tobytes() == want.tobytes()
            )
        else:
            ok = np.float64(got).tobytes() == np.float64(want).tobytes()
        if not ok:
            after = "after-mutation" if self.mut_seen_at is not None else "no-mutation"
            self.res.fail(
                f"{ID}/history-dependent/{after}/{bucket_cfg}",
                f"step {len(self.steps)} {q}: long-lived object returned {got!r}, fresh object {want!r}; "
                f"history={json.dumps(self.steps)}",
            )
        # a returned array must not alias internal state: identity checks are cheap and exact
        if kind == "a" and isinstance(got, np.ndarray):
            if got is self.obj.a_ref or np.shares_memory(got, self.obj.a_ref):
                self.res.fail(f"{ID}/alias/a_ref", f"step {len(self.steps)} {q}: returned array shares memory with a_ref")
            for v in self.obj.cache.values():
                if np.shares_memory(got, v):
                    self.res.fail(f"{ID}/alias/cache", f"step {len(self.steps)} {q}: returned array shares memory with a cache entry")
                    break

    @staticmethod
    def _call(obj, kind, scale, nf):
        if kind == "a":
            return obj.a(scale, nf)
        if kind == "as":
            return obj.a_s(scale, nf)
        return obj.a_em(scale, nf)

    # ---- verdict
    def finish(self):
        res = self.res
        res.nontrivial = bool(self.repeat_after_mut and self.crossing)
        cfg = self.config
        res.classes = sorted(self.classes) + [
            f"method={cfg['method']}",
            f"order={cfg['order'][0]},{cfg['order'][1]}",
            f"len={10 * (len(self.steps) // 10)}+",
            "nontrivial" if res.nontrivial else "trivial",
        ]
        if cfg["masses2"][2] == "inf" or cfg["masses2"][0] == 0.0:
            res.classes.append("ffns-atlas")
        if not self.sorted:
            res.classes.append("unsorted-walls")
        return res

    def case(self):
        return {"config": self.config, "steps": self.steps}


def check_case(case):
    rp = Replayer(case["config"])
    for s in case["steps"]:
        rp.step(list(s))
    return rp.finish()


def minimise(case, bucket):
    """Greedy one-step-at-a-time removal keeping the given bucket failing (replay-based, no Hypothesis)."""
    steps = list(case["steps"])
    i = len(steps) - 1
    while i >= 0:
        trial = steps[:i] + steps[i + 1:]
        r = check_case({"config": case["config"], "steps": trial})
        if any(v.bucket == bucket for v in r.violations):
            steps = trial
        i -= 1
    return {"config": case["config"], "steps": steps}


# --------------------------------------------------------------------------- the state machine


def run_custom(tier, seed, shard, nshards, record):
    import hypothesis
    from hypothesis import HealthCheck, Phase, settings
    from hypothesis import strategies as st
    from hypothesis.stateful import RuleBasedStateMachine, initialize, precondition, rule, run_state_machine_as_test

    b = budget(tier)
    n = max(1, b["histories"] // nshards)
    t0 = time.time()
    wall = b["wall_s"]
    acc = getattr(record, "__self__", None)
    minimised = set()
    over = []
    done = [0]

    class _BudgetOver(Exception):
        pass

    class Machine(RuleBasedStateMachine):
        def __init__(self):
            super().__init__()
            self.rp = None

        @initialize(config=config_strategy())
        def setup(self, config):
            if time.time() - t0 > wall:
                # budget exhausted: abort the whole generation (reported as inconclusive for the rest)
                over.append(True)
                raise _BudgetOver()
            self.rp = Replayer(config)
            self.pool = pool_of(config)

        def _nf(self, nf):
            cfg = self.rp.config
            if cfg["masses2"][0] == 0.0 or cfg["masses2"][2] == "inf":
                # FFNS atlas: another nf would mean evolving to a matching scale at 0 or infinity
                return cfg["ref"][1] if nf is not None else None
            if nf is None and not self.rp.sorted:
                return 4
            return nf

        @rule(
            kind=st.sampled_from(["a", "a", "a", "as", "aem"]),
            i=st.integers(0, 4),
            eps=st.sampled_from(EPS),
            nf=st.sampled_from([None, 3, 4, 5, 6]),
        )
        def query_pool(self, kind, i, eps, nf):
            base = self.pool[i % len(self.pool)]
            self.rp.step([kind, base * (1.0 + eps), self._nf(nf)])

        @rule(
            kind=st.sampled_from(["a", "a", "as"]),
            lg=st.floats(math.log(2.5), math.log(1e6)),
            nf=st.sampled_from([None, 3, 4, 5, 6]),
        )
        def query_free(self, kind, lg, nf):
            self.rp.step([kind, math.exp(lg), self._nf(nf)])

        @precondition(lambda self: self.rp is not None and self.rp.last is not None)
        @rule(how=st.sampled_from(MUTS))
        def mutate(self, how):
            self.rp.step(["mut", how])

        @precondition(lambda self: self.rp is not None and len(self.rp.queries) > 0)
        @rule(k=st.integers(0, 29))
        def repeat(self, k):
            self.rp.step(["rep", k])

        def teardown(self):
            if self.rp is None or not self.rp.steps:
                return
            res = self.rp.finish()
            case = self.rp.case()
            record(case, res)
            done[0] += 1
            for v in res.violations:
                if v.bucket in minimised or "history-dependent" not in v.bucket and "alias" not in v.bucket:
                    continue
                minimised.add(v.bucket)
                small = minimise(case, v.bucket)
                record(small, check_case(small))

    stg = settings(
        max_examples=n,
        stateful_step_count=30,
        deadline=None,
        database=None,
        suppress_health_check=list(HealthCheck),
        print_blob=False,
        phases=[Phase.generate],
        report_multiple_bugs=False,
    )
    try:
        run_state_machine_as_test(hypothesis.seed(seed * 1000 + shard)(Machine), settings=stg)
    except BaseException:
        if not over:
            raise
        if acc is not None:
            acc.budget_skipped += max(1, n - done[0])


def budget(tier):
    if tier == "quick":
        return dict(histories=200, custom_shards=8, wall_s=60)
    return dict(histories=3000, custom_shards=16, wall_s=600)

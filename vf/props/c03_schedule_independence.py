"""C03 EKOs do not depend on parallel schedule, target order or co-computed targets (bitwise)."""

import copy
import itertools

import numpy as np

from vf import runner_util as ru
from vf.core import CaseResult, exc_bucket

ID = "C03"
LEVEL = "exploration"
ENGINE = "R"
TECHNIQUE = "differential: one generated runcard solved under varied worker counts, target orders and target subsets; bitwise comparison"
RULE = (
    "Generated base tiny runcard with 1-3 targets (LO/NLO/NNLO, fixed and threshold-crossing paths, 2-4 point grids, scale variation none / expanded / exponentiated with xif in {0.5, 2}, in half of the cases one target exactly on a matching scale with the lower nf and one beyond it, each also solved alone). "
    "A third of the cards use linear interpolation. Variants of the same card: n_integration_cores in {1, 2, 3, -13, -14} (16 CPUs -> 3 and 2 workers), every "
    "permutation of the target list, every non-empty subset of the targets (a drawn selection of up to 5 (quick) / 9 (thorough) variants per "
    "base, always containing >=2 different worker counts). For every target, operator and error arrays must be "
    "tobytes()-identical in every variant that contains it. Non-trivial = >=2 variants with different worker counts and "
    "a computed (non-identity) operator; distinct by (order, nf0, target nfs, grid size, variant set)."
)
ASSUMPTIONS = [
    "the harness does not own the OS scheduler: it varies worker counts (multiprocessing.Pool sizes), orders and subsets and "
    "relies on the runs themselves for interleavings (DESIGN section 5)",
    "bitwise comparison (tobytes), as the property states",
    "interpreted mode (NUMBA_DISABLE_JIT=1); os.cpu_count()=16 so negative core counts map to 3 and 2 workers",
]
LEVEL_TEXT = (
    "Differential exploration over generated cards and schedule-related variants with an exact (bitwise) oracle; specific "
    "OS-level interleavings inside the worker pool are not controlled."
)

CORES = (1, 2, 3, -13, -14)


def budget(tier):
    if tier == "quick":
        return dict(max_examples=16, shards=16, wall_s=100, shrink_s=0)
    return dict(max_examples=128, shards=16, wall_s=1800, shrink_s=0)


def strategy(tier):
    from hypothesis import strategies as st

    @st.composite
    def build(draw):
        base = draw(
            ru.st_tiny_card(orders=(1, 1, 2, 3), methods=("iterate-exact", "truncated", "perturbative-exact"),
                            n_extra_targets=(1, 3), grid_pts=(2, 4), iters=(1, 2), weird_nf=0.3,
                            sv=(None, None, "expanded", "exponentiated"))
        )
        if base["sv"] is not None and base["xif"] == 1.0:
            base["xif"] = draw(st.sampled_from((0.5, 2.0)))
        base["is_log"] = draw(st.sampled_from((True, True, False)))  # what a worker process needs must travel with the job
        # half of the cases: one target sits exactly on a matching scale with the lower nf and another one lies beyond
        # that wall, so that the same segment is the final part of one target and an intermediate part of the other;
        # the on-wall target is then also solved alone
        wall_case = draw(st.integers(0, 1)) == 0
        if wall_case:
            import math

            q = draw(st.integers(0, 1))
            w2 = (base["ratios"][q] ** 2) * (base["masses"][q] ** 2)
            w = math.sqrt(w2)
            for cand in (w, float(np.nextafter(w, 0.0)), float(np.nextafter(w, 1e9))):
                if cand * cand == w2:
                    w = cand
            base["init"] = [float(w / draw(st.floats(1.4, 2.0))), 3 + q]
            on_wall = [float(w), 3 + q + (0 if draw(st.integers(0, 2)) else 1)]
            beyond = [float(w * draw(st.floats(1.3, 2.0))), 4 + q]
            base["mugrid"] = [on_wall, beyond] if draw(st.booleans()) else [beyond, on_wall]
            if draw(st.integers(0, 2)) > 0:
                base["sv"], base["xif"] = "expanded", draw(st.sampled_from((0.5, 2.0)))
                on_wall[1] = 3 + q
            base["ref"] = [base["init"][0] * min(base["xif"], 1.0), 3 + q]
        if base["order"][0] >= 2:
            base["xgrid"] = base["xgrid"][-2:] if tier == "quick" else base["xgrid"][-3:]
            base["deg"] = min(base["deg"], len(base["xgrid"]) - 1)
        if any(n < base["init"][1] for _, n in base["mugrid"]) and base["inv"] is None:
            base["inv"] = "expanded"
        walls = ru.walls_of(base)
        lowest = min([base["init"][0], base["ref"][0]] + [m for m, _ in base["mugrid"]] + walls[:2]) * min(base["xif"], 1.0)
        base["alphas"] = float(ru.lo_alpha(draw(st.floats(0.1, 0.3)), lowest, base["ref"][0]))
        nt = len(base["mugrid"])
        idx = list(range(nt))
        pool = [{"cores": k, "targets": idx} for k in CORES[1:]]
        pool += [{"cores": 1, "targets": list(p)} for p in itertools.permutations(idx) if list(p) != idx]
        for r in range(1, nt):
            pool += [{"cores": 1, "targets": list(s)} for s in itertools.combinations(idx, r)]
        pool += [{"cores": draw(st.sampled_from(CORES[1:])), "targets": list(reversed(idx))}]
        nsel = min(len(pool), 4 if tier == "quick" else 8)
        sel = draw(st.permutations(pool))[:nsel]
        if not any(v["cores"] != 1 for v in sel):
            sel[0] = {"cores": 2, "targets": idx}
        variants = [{"cores": 1, "targets": idx}] + list(sel)
        if wall_case:
            for i in (0, 1):
                alone = {"cores": 1, "targets": [i]}
                if alone not in variants:
                    variants.append(alone)
        return {"base": base, "variants": variants}

    return build()


def workers(k):
    return k if k > 0 else max(16 + k, 1)


def check_case(case):
    res = CaseResult()
    base = case["base"]
    c = ru.full(base)
    n = len(c["xgrid"])
    res.classes = [f"order={c['order'][0]}", f"targets={len(c['mugrid'])}", f"variants={len(case['variants'])}", f"sv={c['sv']}", f"interpolation={'log' if c['is_log'] else 'linear'}"]
    outs = []
    for v in case["variants"]:
        card = copy.deepcopy(base)
        card["cores"] = v["cores"]
        card["mugrid"] = [base["mugrid"][i] for i in v["targets"]]
        try:
            outs.append(ru.solve(card))
        except (NotImplementedError, ValueError) as e:
            return CaseResult(discarded=f"refused:{type(e).__name__}")
        except Exception as e:  # noqa: BLE001 - crashes are C04's verdict
            return CaseResult(discarded=exc_bucket("crash(decided by C04)", e))
        res.classes.append(f"workers={workers(v['cores'])}")
    ref = outs[0]
    computed = any(
        not np.array_equal(o[0][8], np.eye(14)[8][None, :, None] * np.eye(n)[:, None, :]) for o in ref.values()
    )
    wk = {workers(v["cores"]) for v in case["variants"]}
    res.nontrivial = bool(computed and len(wk) >= 2)
    res.key = [c["order"], c["init"][1], [t[1] for t in c["mugrid"]], n, sorted((v["cores"], tuple(v["targets"])) for v in case["variants"])]
    for v, out in zip(case["variants"][1:], outs[1:]):
        want = {(base["mugrid"][i][0] ** 2, base["mugrid"][i][1]) for i in v["targets"]}
        if set(out) != want:
            res.fail(f"{ID}/points", f"variant {v}: stored points {sorted(out)} != requested {sorted(want)}")
            continue
        kind = "cores" if v["cores"] != 1 else ("subset" if len(v["targets"]) < len(base["mugrid"]) else "order")
        for k in sorted(out):
            a, b = ref[k], out[k]
            same_op = a[0].tobytes() == b[0].tobytes()
            same_err = (a[1] is None and b[1] is None) or (a[1] is not None and b[1] is not None and a[1].tobytes() == b[1].tobytes())
            if not same_op:
                res.fail(f"{ID}/operator-differs/{kind}", f"variant {v}: operator at {k} differs from the single-core in-order run (max abs {np.max(np.abs(a[0] - b[0])):.3e})")
            elif not same_err:
                res.fail(f"{ID}/error-differs/{kind}", f"variant {v}: error array at {k} differs from the single-core in-order run")
    return res

"""C13 evolution integrals equal their defining integrals / Taylor truncations; N3LO cubic roots are roots."""

import math

from hypothesis import strategies as st

from vf import strategies as vs
from vf.core import CaseResult, exc_bucket

ID = "C13"
LEVEL = "exploration"
TECHNIQUE = (
    "Hypothesis-generated (a0,a1,nf | random positive b's); oracle = mpmath.quad (30 digits) of the defining "
    "integral a^k/beta_trunc(a) with literature beta coefficients; generic series inversion for the expanded forms; "
    "polynomial residual + mpmath.polyroots for the cubic roots"
)
RULE = (
    "Cases: kind 'phys' = order n in 2..4, nf in 3..6 with the literature beta coefficients (Herzog et al. 2017), "
    "kind 'rand' = order 2..4 with random positive beta0 in [4,12], b1 in [0.3,30], b2 in [0.3,1000], b3 in "
    "[1,5000] (log-uniform), kind 'pert' (order 4 only) = physical b's each scaled by an independent factor in "
    "[0.8,1.2]. Coupling pairs in [0.001,0.1], either order: 'far' = log-uniform with |ln(a1/a0)|>=0.05 by "
    "construction (4/9), 'near' = a1 = a0(1 +- delta) with delta = 10^-(k+u), k uniform in 3..9, u in [0,1] (4/9), "
    "'equal' = a1 == a0 (1/9), each combined with every kind. For each case "
    "every exact and every expanded integral of that order is compared (j12, j23/j13 | j34/j24/j14 | as4 "
    "j33/j23/j13/j03 + roots). Random order-4 b's violating the closed cubic formula's real-arithmetic "
    "precondition (4 d1^3+d2^2 >= 0 and d2+sqrt(.) > 0) or sitting next to its boundary (|d2|/(d2+sqrt(.)) > 1e3; "
    "physical values 70..100) are discarded and counted. Non-trivial = nf==6 (complex "
    "Delta) or order 4 or a0>a1; distinct by the full case."
)
ASSUMPTIONS = [
    "reference = mpmath tanh-sinh quadrature in ln(a) at 30 digits with its own error estimate < 1e-18 (else harness error)",
    "beta coefficients of 'phys' cases are the literature tables typed for C20, passed as floats to both sides",
    "tolerance |code-ref| <= 1e-10*|ref| + 2e-14*S (90 eps; observed maximum 1.1 eps*S). S is the rounding floor "
    "of the closed form F(a1)-F(a0) in units of eps, derived term by term: a term c*log(w) contributes "
    "|c|(1+|log w|) (w carries a relative rounding error -> absolute eps on the log, plus the relative error of log "
    "itself), a term c*atan(z) contributes |c|(|atan z| + |z/(1+z^2)|), a power term c*(a1^p-a0^p) contributes "
    "|c|(a1^p+a0^p), combinations j = j12 - b1 j2x - ... add their parts with |b_i|. For nearly equal couplings the "
    "value is O(delta) while the floor stays O(eps*|primitive|), so the comparison is relative to |value| down to "
    "delta ~ 1e-3 and limited by the floor below (relative resolution 2e-14/delta: 2e-4 at delta = 1e-10)",
    "the reference for nearly equal couplings is the same 30-digit quadrature over [a0,a1] (error guard relative: "
    "< 1e-15 |value|); at a1 == a0 the reference is exactly 0",
    "expanded integral at order n keeps powers a^p, p<=n-1, and the logarithm (module docstring of "
    "eko.kernels.evolution_integrals: 'until O(a^(m+1)) for N^mLO')",
    "roots: residual |1+b1 r+b2 r^2+b3 r^3| <= 1e-9*(1+|b1 r|+|b2 r^2|+|b3 r^3|), pairwise distance > 1e-6*max|r|, "
    "and the multiset matches mpmath.polyroots to 1e-9 relative",
]
LEVEL_TEXT = (
    "Exploration: every closed-form and expanded integral is compared with a 30-digit quadrature of its definition on "
    "thousands of generated (a0,a1,b) including nf=6 and reversed limits; random sampling, not a proof."
)

TOL_REL = 1e-10
TOL_CANCEL = 2e-14
A_LO, A_HI = 0.001, 0.1


def budget(tier):
    if tier == "quick":
        return dict(max_examples=3000, shards=8, wall_s=80, shrink_s=30)
    return dict(max_examples=50000, shards=16, wall_s=800, shrink_s=120)


@st.composite
def _case(draw):
    kind = draw(st.sampled_from(["phys", "phys", "rand", "pert"]))
    pair = draw(st.sampled_from(["far"] * 4 + ["near"] * 4 + ["equal"]))
    if pair == "far":
        a0, a1 = draw(vs.coupling_pair(A_LO, A_HI, 0.05))
    else:
        # nearly equal couplings a1 = a0 (1 +- delta), delta log-uniform in [1e-10, 1e-3], or exactly equal
        a0 = draw(vs.log_floats(A_LO, A_HI))
        a1 = a0
        if pair == "near":
            # decade drawn first so that every decade of [1e-10, 1e-3] is populated
            delta = 10.0 ** (-draw(st.integers(3, 9)) - draw(vs.floats(0.0, 1.0)))
            a1 = a0 * (1 + delta) if draw(st.booleans()) else a0 * (1 - delta)
            if not A_LO <= a1 <= A_HI:  # reflect at the border of the domain
                a1 = a0 * a0 / a1
    case = {"kind": kind, "a0": a0, "a1": a1}
    if kind == "phys":
        case["n"] = draw(st.integers(2, 4))
        case["nf"] = draw(st.integers(3, 6))
    elif kind == "pert":
        case["n"] = 4
        case["nf"] = draw(st.integers(3, 6))
        case["f"] = [draw(vs.floats(0.8, 1.2)) for _ in range(3)]
    else:
        case["n"] = draw(st.integers(2, 4))
        case["beta0"] = draw(vs.floats(4.0, 12.0))
        case["b"] = [
            draw(vs.log_floats(0.3, 30.0)),
            draw(vs.log_floats(0.3, 1000.0)),
            draw(vs.log_floats(1.0, 5000.0)),
        ][: case["n"] - 1]
    return case


def strategy(tier):
    return _case()


def _coeffs(case):
    """(beta0, [b1..b_{n-1}]) as floats."""
    from vf.refs import k1_kernel_ref as kr

    n = case["n"]
    if case["kind"] == "rand":
        return float(case["beta0"]), [float(x) for x in case["b"]]
    bl = [float(x) for x in kr.beta_list(case["nf"], n)]
    b = [x / bl[0] for x in bl[1:]]
    if case["kind"] == "pert":
        b = [x * f for x, f in zip(b, case["f"])]
    return bl[0], b


def _cubic_precondition(b):
    b1, b2, b3 = b
    d1 = -(b2**2) + 3 * b1 * b3
    d2 = -2 * b2**3 + 9 * b1 * b2 * b3 - 27 * b3**2
    disc = 4 * d1**3 + d2**2
    if disc < 0:
        return "three-real-roots"
    if d2 + math.sqrt(disc) <= 0:
        return "negative-cube-root"
    return None


def _cubic_cancellation(b):
    """|d2| / (d2 + sqrt(4 d1^3 + d2^2)): digits lost in the radicand of the cube root (physical b's: 70..100)."""
    b1, b2, b3 = b
    d1 = -(b2**2) + 3 * b1 * b3
    d2 = -2 * b2**3 + 9 * b1 * b2 * b3 - 27 * b3**2
    return abs(d2) / (d2 + math.sqrt(4 * d1**3 + d2**2))


def _cmp(res, name, got, ref, cs, case, extra=""):
    import mpmath as mp

    got = complex(got)
    if not (math.isfinite(got.real) and math.isfinite(got.imag)):
        res.fail(f"{ID}/nonfinite/{name}/n={case['n']}", f"{name}: code returned {got!r} (ref {mp.nstr(ref, 15)}) {extra}")
        return
    err = abs(mp.mpc(got.real, got.imag) - ref)
    tol = TOL_REL * abs(ref) + TOL_CANCEL * cs
    if err > tol:
        res.fail(
            f"{ID}/value/{name}/n={case['n']}/{case['kind']}",
            f"{name}: code {got!r} vs reference {mp.nstr(ref, 17)} (|diff| {mp.nstr(err, 3)} > tol {mp.nstr(tol, 3)}, "
            f"rel {mp.nstr(err / max(abs(ref), mp.mpf(10) ** -300), 3)}) {extra}",
        )


def check_case(case):
    import mpmath as mp

    from vf.refs import k1_kernel_ref as kr

    n, a0, a1 = case["n"], float(case["a0"]), float(case["a1"])
    beta0, b = _coeffs(case)
    res = CaseResult()
    nf6 = case.get("nf") == 6
    res.nontrivial = bool(nf6 or n == 4 or a0 > a1)
    res.classes = [f"{case['kind']}/n={n}", "a0>a1" if a0 > a1 else ("a0<a1" if a0 < a1 else "a0==a1")]
    if a0 == a1:
        res.classes.append("step:equal")
    else:
        rel = abs(a1 - a0) / a0
        res.classes.append("step:far" if rel > 2e-3 else f"step:1e{math.floor(math.log10(rel))}")
    if nf6:
        res.classes.append("nf=6")
    if n >= 3:
        res.classes.append("Delta-imag" if 4 * b[1] - b[0] ** 2 < 0 else "Delta-real")
    if n == 4:
        why = _cubic_precondition(b)
        if why is not None:
            if case["kind"] == "rand":
                return CaseResult(discarded="cubic-precondition:" + why)
            # physical / +-20% coefficients must be inside the domain of the closed formula
            res.fail(f"{ID}/roots/precondition/{case['kind']}", f"closed cubic formula not applicable ({why}) for b={b}")
            return res
        if case["kind"] == "rand" and _cubic_cancellation(b) > 1e3:
            # unphysical b's next to the boundary of the formula's domain: arbitrary loss of digits, not judged
            return CaseResult(discarded="cubic-precondition:ill-conditioned-cube-root")

    mp.mp.dps = kr.DPS
    betas = [mp.mpf(beta0)] + [mp.mpf(x) * mp.mpf(beta0) for x in b]
    mb0 = mp.mpf(beta0)
    L = abs(mp.log(mp.mpf(a1) / mp.mpf(a0)))
    # rounding floor of log(w): the argument w carries a relative rounding error eps (-> absolute eps on the
    # logarithm), the logarithm itself a relative one (-> eps |log|)
    lg = lambda z: 1 + abs(z)  # noqa: E731

    def at_floor(z):
        # same for atan(z): eps |z atan'(z)| from the argument, eps |atan z| from the function
        return abs(mp.atan(z)) + abs(z / (1 + z * z))

    extra = f"[a0={a0!r}, a1={a1!r}, beta0={beta0!r}, b={b!r}]"

    from eko.kernels import as4_evolution_integrals as a4
    from eko.kernels import evolution_integrals as ei

    def call(name, fn):
        try:
            return fn()
        except Exception as e:  # noqa: BLE001  (repo code on in-domain input)
            res.fail(exc_bucket(f"{ID}/call/{name}", e), f"{name} raised {e!r} {extra}")
            return None

    def ref_exact(k):
        return kr.j_def(k, betas, a0, a1)

    def ref_exp(k):
        return kr.j_expanded(k, beta0, b, n, a0, a1)

    def cs_exp(k):
        c = kr.inv_series(b, n)
        tot = mp.mpf(0)
        for m, cm in enumerate(c):
            q = k - 2 + m
            if q > n - 2:
                break
            tot += abs(cm) * (lg(L) if q == -1 else (mp.mpf(a1) ** (q + 1) + mp.mpf(a0) ** (q + 1)) / (q + 1))
        return tot / mb0

    cs12 = lg(L) / mb0
    b_vec = [1.0] + list(b)
    items = []  # (name, callable, reference, cancellation scale)
    items.append(("j12", lambda: ei.j12(a1, a0, beta0), mp.log(mp.mpf(a1) / mp.mpf(a0)) / mb0, cs12))
    if n == 2:
        b1 = mp.mpf(b[0])
        cs23 = lg(mp.log((1 + a1 * b1) / (1 + a0 * b1))) / (b1 * mb0)
        items += [
            ("j23_exact", lambda: ei.j23_exact(a1, a0, beta0, b_vec), ref_exact(2), cs23),
            ("j13_exact", lambda: ei.j13_exact(a1, a0, beta0, b_vec), ref_exact(1), cs12 + b1 * cs23),
            ("j23_expanded", lambda: ei.j23_expanded(a1, a0, beta0), ref_exp(2), cs_exp(2)),
            ("j13_expanded", lambda: ei.j13_expanded(a1, a0, beta0, b_vec), ref_exp(1), cs_exp(1)),
        ]
    elif n == 3:
        b1, b2 = mp.mpf(b[0]), mp.mpf(b[1])
        beta2 = b2 * mb0
        Delta = mp.sqrt(mp.mpc(4 * b2 - b1**2))
        at = (at_floor((b1 + 2 * a1 * b2) / Delta) + at_floor((b1 + 2 * a0 * b2) / Delta)) / abs(Delta)
        lg34 = lg(mp.log((1 + a1 * (b1 + b2 * a1)) / (1 + a0 * (b1 + b2 * a0))))
        cs34 = lg34 / (2 * abs(beta2)) + abs(b1 / beta2) * at
        cs24 = 2 / mb0 * at
        cs14 = cs12 + b1 * cs24 + abs(b2) * cs34
        items += [
            ("j34_exact", lambda: ei.j34_exact(a1, a0, beta0, b_vec), ref_exact(3), cs34),
            ("j24_exact", lambda: ei.j24_exact(a1, a0, beta0, b_vec), ref_exact(2), cs24),
            ("j14_exact", lambda: ei.j14_exact(a1, a0, beta0, b_vec), ref_exact(1), cs14),
            ("j34_expanded", lambda: ei.j34_expanded(a1, a0, beta0), ref_exp(3), cs_exp(3)),
            ("j24_expanded", lambda: ei.j24_expanded(a1, a0, beta0, b_vec), ref_exp(2), cs_exp(2)),
            ("j14_expanded", lambda: ei.j14_expanded(a1, a0, beta0, b_vec), ref_exp(1), cs_exp(1)),
        ]
    else:
        b_list = list(b)
        roots = call("roots", lambda: a4.roots(b_list))
        true_roots = mp.polyroots([mp.mpf(b[2]), mp.mpf(b[1]), mp.mpf(b[0]), mp.mpf(1)], maxsteps=200, extraprec=200)
        if roots is not None:
            rs = [complex(r) for r in roots]
            if len(rs) != 3 or not all(math.isfinite(r.real) and math.isfinite(r.imag) for r in rs):
                res.fail(f"{ID}/roots/nonfinite/{case['kind']}", f"roots({b}) = {rs}")
                return res
            rmax = max(abs(r) for r in rs)
            for r in rs:
                terms = [1.0, abs(b[0] * r), abs(b[1] * r**2), abs(b[2] * r**3)]
                resid = abs(1 + b[0] * r + b[1] * r**2 + b[2] * r**3)
                if resid > 1e-9 * sum(terms):
                    res.fail(f"{ID}/roots/residual/{case['kind']}", f"root {r!r} of b={b}: residual {resid:.3e} vs terms {sum(terms):.3e}")
            for i in range(3):
                for j in range(i):
                    if abs(rs[i] - rs[j]) <= 1e-6 * rmax:
                        res.fail(f"{ID}/roots/distinct/{case['kind']}", f"roots {rs} of b={b} not pairwise distinct")
            # same multiset as an independent root finder
            left = list(true_roots)
            for r in rs:
                jbest = min(range(len(left)), key=lambda j: abs(left[j] - mp.mpc(r.real, r.imag)))
                if abs(left[jbest] - mp.mpc(r.real, r.imag)) > 1e-9 * rmax:
                    res.fail(f"{ID}/roots/multiset/{case['kind']}", f"roots {rs} vs polyroots {[complex(t) for t in true_roots]}")
                    break
                left.pop(jbest)

            def dp(r):
                return b[0] + 2 * b[1] * r + 3 * b[2] * r**2

            def cs_k(k):
                return sum(abs(r**k / dp(r)) * lg(mp.log((a1 - r) / (a0 - r))) for r in true_roots) / mb0

            cs13, cs23, cs33 = cs_k(0), cs_k(1), cs_k(2)
            cs03 = cs12 + abs(b[0]) * cs13 + abs(b[1]) * cs23 + abs(b[2]) * cs33
            j12v = ei.j12(a1, a0, beta0)
            j13v = call("as4.j13_exact", lambda: a4.j13_exact(a1, a0, beta0, b_list, roots))
            j23v = call("as4.j23_exact", lambda: a4.j23_exact(a1, a0, beta0, b_list, roots))
            j33v = call("as4.j33_exact", lambda: a4.j33_exact(a1, a0, beta0, b_list, roots))
            if None not in (j13v, j23v, j33v):
                items += [
                    ("as4.j33_exact", lambda: j33v, ref_exact(4), cs33),
                    ("as4.j23_exact", lambda: j23v, ref_exact(3), cs23),
                    ("as4.j13_exact", lambda: j13v, ref_exact(2), cs13),
                    ("as4.j03_exact", lambda: a4.j03_exact(j12v, j13v, j23v, j33v, b_list), ref_exact(1), cs03),
                ]
                # imaginary parts must cancel between the conjugate roots
                for nm, v, cs in (("j13", j13v, cs13), ("j23", j23v, cs23), ("j33", j33v, cs33)):
                    if abs(complex(v).imag) > TOL_CANCEL * cs:
                        res.fail(f"{ID}/imag/as4.{nm}_exact", f"as4.{nm}_exact has imaginary part {complex(v).imag:.3e} {extra}")
        e13 = call("as4.j13_expanded", lambda: a4.j13_expanded(a1, a0, beta0, b_list))
        e23 = call("as4.j23_expanded", lambda: a4.j23_expanded(a1, a0, beta0, b_list))
        e33 = call("as4.j33_expanded", lambda: a4.j33_expanded(a1, a0, beta0))
        if None not in (e13, e23, e33):
            j12v = ei.j12(a1, a0, beta0)
            items += [
                ("as4.j33_expanded", lambda: e33, ref_exp(4), cs_exp(4)),
                ("as4.j23_expanded", lambda: e23, ref_exp(3), cs_exp(3)),
                ("as4.j13_expanded", lambda: e13, ref_exp(2), cs_exp(2)),
                ("as4.j03_expanded", lambda: a4.j03_expanded(j12v, e13, e23, e33, b_list), ref_exp(1), cs_exp(1)),
            ]

    for name, fn, ref, cs in items:
        got = call(name, fn)
        if got is None:
            continue
        _cmp(res, name, got, ref, cs, case, extra)
    return res

"""C41 legacy runcards and v1 / v2 archives upgrade to equivalent current structures."""

import copy
import math
import pathlib
import shutil
import tarfile
import tempfile

import numpy as np

from vf.core import CaseResult, exc_bucket
from vf.refs import s2_cards as sc

ID = "C41"
LEVEL = "exploration"
ENGINE = "S"
TECHNIQUE = (
    "Hypothesis-generated physical settings written (a) as old-style flat runcards, (b) as archives re-packed by the "
    "harness into the 0.13 / 0.14 on-disk layouts; oracle = the drawn settings, compared field by field"
)
RULE = (
    "(legacy) old-style theory/operator dictionaries synthesised from drawn settings: PTO 0-3, QED 0-2, HQ POLE/MSBAR "
    "(Qm* scales), k*Thr, XIF, alphas, alphaqed and/or alphaem, Qref/nfref, Qedref absent/equal/different, Q0 with nf0 "
    "given or None, ModEv over the 8 method names and the aliases EXA/EXP/TRN, ModSV None/exponentiated/expanded, "
    "backward_inversion in the operator card (where ekomark and the repository's benchmarks put it) / in the theory card "
    "/ absent, PTO_matching, n3lo_ad_variation and use_fhmruvv present or absent, targets as mugrid / Q2grid / mu2grid "
    "(1-4 points), Q0 and the targets either clearly off every matching scale or bitwise on one (m*k as the code forms "
    "it; ~1/4 each), matching ratios optionally infinite for the last 1-2 quarks (FFNS spelling), the grid given as "
    "list / tuple / float64 array / integer list / integer array, grids and interpolation flags, integer "
    "ev_op_max_order -> Legacy(theory, operator).new_theory / new_operator on the caller's own objects; the same raw "
    "operator card is upgraded 1-4 times, paired with theories differing in PTO/QED/ModEv/ModSV/XIF/Q0/nf0: every "
    "upgrade must satisfy the oracle, agree with upgrading a private deep copy of the request, and leave both raw "
    "cards unmodified (numpy containers compared by dtype and value). (archive) a current archive built through the public API "
    "(EKO.create.load_cards.build, random operators with/without errors for 1-4 points, <= 8 grid nodes) is unpacked "
    "and re-packed by the harness in the 0.13.x ('v1') or 0.14.x ('v2') layout: metadata bases.xgrid (+ other bases "
    "keys) instead of xgrid, version 0.13.x/0.14.x with data_version 1, couplings.scale/num_flavs_ref/max_num_flavs "
    "instead of ref, heavy.num_flavs_init/num_flavs_max_pdf/intrinsic_flavors, operator mu0 instead of init, v1: "
    "use_fhmv or nothing instead of use_fhmruvv and no n_integration_cores, matching_order stored or absent; then "
    "EKO.read. Oracle: the loaded cards carry the drawn order, couplings and reference point, masses and scheme, "
    "matching ratios, xif, N3LO variation, FHMRUVV flag, matching order (stored one, else order-1), initial point, "
    "evolution points (scales to 4e-16 relative when given squared; nf by counting matching scales m*k below), "
    "method / scale-variation / inversion settings, interpolation settings, debug flags, grid; archives additionally "
    "the same set of evolution points and bitwise-equal operators and errors. Non-trivial = order >= NLO or MSBAR or "
    ">= 2 points; distinct by the whole case."
)
ASSUMPTIONS = [
    "the 0.13 / 0.14 layouts are the inverse of the patches documented in eko/io/v1.py and v2.py (the real test assets "
    "v1-0.13.tar / v1-0.14.tar are not available offline)",
    "em_running is only asserted (False) when the old card has no Qedref; with Qedref the rule of Legacy is accepted",
    "default scale-variation / inversion methods chosen by Legacy when the old cards do not name one are accepted",
    "nf of a scale given without nf = 3 + number of matching scales (m_q * k_qThr) <= mu (documented default flow: a "
    "scale on a matching scale belongs to the upper patch, as np.digitize in matchings.nf_default and the Atlas decide)",
]
LEVEL_TEXT = (
    "Generated-input exploration of the legacy converters with the drawn settings as oracle; samples the space of old "
    "cards / layouts reconstructed from the patch documentation."
)

MOD_EV = sc.METHODS + ["EXA", "EXP", "TRN"]
ALIAS = {"EXA": "iterate-exact", "EXP": "iterate-expanded", "TRN": "truncated"}


def budget(tier):
    if tier == "quick":
        return dict(max_examples=200, shards=8, wall_s=90, shrink_s=15)
    return dict(max_examples=3000, shards=16, wall_s=600, shrink_s=120)


# ----------------------------------------------------------------------------- strategies


def strategy(tier):
    from hypothesis import strategies as st

    @st.composite
    def legacy(draw):
        s = draw(sc.st_settings())
        walls = [m * k for m, k in zip(s["masses"], s["ratios"])]
        if not walls[0] < walls[1] < walls[2]:  # the default flow needs naturally sorted matching scales
            s["ratios"] = [1.0, 1.0, 1.0]
            walls = list(s["masses"])
        # FFNS spelling of the old cards (lha benchmarks): the last `ffns` matching ratios are infinite
        ffns = draw(st.sampled_from([0, 0, 0, 1, 2]))
        finite = walls[: 3 - ffns]

        def place(mu):
            """A scale clearly off every matching scale, or (sometimes) bitwise on one: mu = m * k as the code forms it."""
            if finite and draw(st.integers(0, 3)) == 0:
                return draw(st.sampled_from(finite))
            for w in finite:
                if abs(mu - w) <= 1e-6 * w:
                    mu = w * 1.001
            return mu

        s["init"][0] = place(s["init"][0])
        grid_key = draw(st.sampled_from(["mugrid", "Q2grid", "mu2grid"]))
        container = draw(st.sampled_from(["list", "tuple", "f64-array", "f64-array", "int-list", "int-array"]))
        values = []
        for p in s["mugrid"]:
            mu = place(p[0])
            if container.startswith("int"):
                v = max(1, int(round(mu if grid_key == "mugrid" else mu * mu)))
                root = float(v) if grid_key == "mugrid" else v**0.5
                while any(abs(root - w) <= 1e-6 * w for w in finite):  # integers: stay clear of the walls
                    v += 1
                    root = float(v) if grid_key == "mugrid" else v**0.5
            else:
                v = mu if grid_key == "mugrid" else mu * mu
            values.append(v)
        # further theories the very same raw operator card is paired with (benchmark runner pattern)
        variants = []
        for _ in range(draw(st.sampled_from([0, 0, 1, 2, 3]))):
            variants.append(dict(
                PTO=draw(st.integers(0, 3)), QED=draw(st.integers(0, 2)), ModEv=draw(st.sampled_from(MOD_EV)),
                ModSV=draw(st.sampled_from([None, "exponentiated", "expanded"])), XIF=draw(st.sampled_from([0.5, 1.0, 2.0])),
                Q0=place(draw(st.floats(1.0, 100.0))), nf0=draw(st.sampled_from([None, None, 3, 4, 5])),
            ))
        return dict(
            kind="legacy",
            s=s,
            mod_ev=draw(st.sampled_from(MOD_EV)),
            alpha_keys=draw(st.sampled_from(["alphaqed", "alphaem", "both", "none"])),
            qedref=draw(st.sampled_from(["absent", "equal", "other"])),
            nf0=draw(st.sampled_from(["given", "none", "none"])),
            grid_key=grid_key,
            container=container,
            grid_values=values,
            ffns=ffns,
            variants=variants,
            inv_where=draw(st.sampled_from(["operator", "operator", "theory", "absent"])),
            pto_matching=draw(st.booleans()),
            n3lo_key=draw(st.booleans()),
            fhmruvv_key=draw(st.booleans()),
            extra_keys=draw(st.booleans()),
        )

    @st.composite
    def archive(draw):
        s = draw(sc.st_settings())
        layout = draw(st.sampled_from(["v1", "v2"]))
        return dict(
            kind="archive",
            s=s,
            layout=layout,
            version=("0.13." if layout == "v1" else "0.14.") + str(draw(st.integers(0, 6))),
            store_matching_order=draw(st.booleans()),
            fhmv=draw(st.sampled_from(["use_fhmv", "absent"])),
            bases_extra=draw(st.booleans()),
            max_num_flavs=draw(st.integers(3, 6)),
            num_flavs_max_pdf=draw(st.integers(3, 6)),
            intrinsic=draw(st.sampled_from([[], [4], [4, 5]])),
            op_seed=draw(st.integers(0, 2**31 - 1)),
            with_error=[draw(st.booleans()) for _ in range(4)],
        )

    return st.one_of(legacy(), archive())


# ----------------------------------------------------------------------------- legacy cards


def old_cards(case):
    s = case["s"]
    th = dict(
        PTO=s["order"][0] - 1, QED=s["order"][1], alphas=s["alphas"], Qref=s["ref"][0], nfref=s["ref"][1],
        mc=s["masses"][0], mb=s["masses"][1], mt=s["masses"][2],
        **{f"k{q}Thr": (float("inf") if i >= 3 - case.get("ffns", 0) else s["ratios"][i]) for i, q in enumerate("cbt")},
        HQ=s["scheme"], XIF=s["xif"], Q0=s["init"][0], nf0=s["init"][1] if case["nf0"] == "given" else None,
        ModEv=case["mod_ev"], ModSV=s["sv"],
    )
    if s["scheme"] == "MSBAR" or case["extra_keys"]:
        refs = s["mass_refs"] or s["masses"]
        th.update(Qmc=refs[0], Qmb=refs[1], Qmt=refs[2])
    if case["alpha_keys"] in ("alphaqed", "both"):
        th["alphaqed"] = s["alphaem"]
    if case["alpha_keys"] == "alphaem":
        th["alphaem"] = s["alphaem"]
    if case["alpha_keys"] == "both":
        th["alphaem"] = s["alphaem"] * 1.5  # alphaqed is the documented first choice
    if case["qedref"] != "absent":
        th["Qedref"] = s["ref"][0] if case["qedref"] == "equal" else s["ref"][0] * 0.5
    if case["pto_matching"]:
        th["PTO_matching"] = [max(s["order"][0] - 2, 0), 0]
    if case["n3lo_key"]:
        th["n3lo_ad_variation"] = list(s["n3lo"])
    if case["fhmruvv_key"]:
        th["use_fhmruvv"] = s["use_fhmruvv"] is True
    if case["extra_keys"]:
        th.update(FNS="VFNS", NfFF=4, MaxNfAs=6, MaxNfPdf=6, ID=42, Comments="generated", IC=0, IB=0, hash="abc")
    op = dict(
        interpolation_xgrid=list(s["xgrid"]),
        interpolation_polynomial_degree=s["deg"],
        interpolation_is_log=s["is_log"],
        ev_op_max_order=s["max_order"][0],
        ev_op_iterations=s["iters"],
        n_integration_cores=1 if s["cores"] == sc.ABSENT else s["cores"],
        debug_skip_non_singlet=s["skip_non_singlet"],
        debug_skip_singlet=s["skip_singlet"],
        polarized=s["pol"],
        time_like=s["tl"],
    )
    values = case.get("grid_values")
    if values is None:  # cases recorded before the container shapes existed
        values = [p[0] if case["grid_key"] == "mugrid" else p[0] * p[0] for p in s["mugrid"]]
    kind = case.get("container", "list")
    op[case["grid_key"]] = {
        "list": list, "int-list": list, "tuple": tuple,
        "f64-array": lambda v: np.array(v, dtype=np.float64), "int-array": lambda v: np.array(v, dtype=np.int64),
    }[kind](values)
    inv = s["inv"] or "exact"
    if case["inv_where"] == "operator":
        op["backward_inversion"] = inv
    elif case["inv_where"] == "theory":
        th["backward_inversion"] = inv
    if case["extra_keys"]:
        op.update(inputgrid=None, targetgrid=None, inputpids=None, targetpids=None, hash="def")
    return th, op


def _nf_of(mu, walls):
    """Documented default flow: a scale on a matching scale belongs to the upper patch."""
    return 3 + sum(1 for w in walls if w * w <= mu * mu)


def _plain(x):
    """Snapshot of a raw card entry: numpy containers -> (kind, dtype, values) so that mutation is visible."""
    if isinstance(x, np.ndarray):
        return ("ndarray", str(x.dtype), x.tolist())
    if isinstance(x, dict):
        return {k: _plain(v) for k, v in x.items()}
    if isinstance(x, tuple):
        return ("tuple", [_plain(v) for v in x])
    if isinstance(x, list):
        return [_plain(v) for v in x]
    return x


def _expect_theory(t):
    """Settings an old theory dictionary denotes (meaning of the legacy keys)."""
    alphaem = t["alphaqed"] if t.get("alphaqed") is not None else (t["alphaem"] if t.get("alphaem") is not None else 0.0)
    msbar = t["HQ"] == "MSBAR"
    exp = dict(
        order=(t["PTO"] + 1, t["QED"]), alphas=t["alphas"], alphaem=alphaem, ref=(t["Qref"], t["nfref"]),
        masses=[[t["m" + q], (t["Qm" + q] if msbar else float("nan"))] for q in "cbt"],
        scheme=t["HQ"].lower(), ratios=[t[f"k{q}Thr"] for q in "cbt"], xif=t["XIF"],
        n3lo=tuple(t["n3lo_ad_variation"]) if "n3lo_ad_variation" in t else (0,) * 7,
        matching_order=tuple(t["PTO_matching"]) if "PTO_matching" in t else (t["PTO"], 0),
        use_fhmruvv=t.get("use_fhmruvv", True),
    )
    if "Qedref" not in t:
        exp["em_running"] = False
    return exp


def _expect_operator(t, o, grid_key):
    walls = [t["m" + q] * t[f"k{q}Thr"] for q in "cbt"]
    vals = [float(v) for v in (o[grid_key][2] if isinstance(o[grid_key], tuple) and o[grid_key][0] == "ndarray" else (
        o[grid_key][1] if isinstance(o[grid_key], tuple) else o[grid_key]))]
    mus = vals if grid_key == "mugrid" else [v**0.5 for v in vals]
    exp = dict(
        init=(t["Q0"], t["nf0"] if t["nf0"] is not None else _nf_of(t["Q0"], walls)),
        nfs=[_nf_of(mu, walls) for mu in mus],
        method=ALIAS.get(t["ModEv"], t["ModEv"]), sv=t["ModSV"],
        max_order=(o["ev_op_max_order"], t["QED"]), iters=o["ev_op_iterations"], deg=o["interpolation_polynomial_degree"],
        is_log=o["interpolation_is_log"], cores=o["n_integration_cores"], pol=o["polarized"], tl=o["time_like"],
        skip_singlet=o["debug_skip_singlet"], skip_non_singlet=o["debug_skip_non_singlet"],
        xgrid=sorted(o["interpolation_xgrid"]),
    )
    inv_where = "operator" if "backward_inversion" in o else ("theory" if "backward_inversion" in t else "absent")
    if inv_where != "absent":
        exp["inversion"] = o.get("backward_inversion", t.get("backward_inversion"))
    return exp, mus, inv_where


def _got_theory(th, with_em):
    got = dict(
        order=tuple(th.order), alphas=th.couplings.alphas, alphaem=th.couplings.alphaem, ref=tuple(th.couplings.ref),
        masses=[list(m) for m in th.heavy.masses], scheme=th.heavy.masses_scheme.value, ratios=list(th.heavy.matching_ratios),
        xif=th.xif, n3lo=tuple(th.n3lo_ad_variation), matching_order=tuple(th.matching_order), use_fhmruvv=th.use_fhmruvv,
    )
    if with_em:
        got["em_running"] = th.couplings.em_running
    return got


def _got_operator(op, with_inv):
    cfg = op.configs
    got = dict(
        init=tuple(op.init), nfs=[p[1] for p in op.mugrid], method=cfg.evolution_method.value,
        sv=None if cfg.scvar_method is None else cfg.scvar_method.value, max_order=tuple(cfg.ev_op_max_order),
        iters=cfg.ev_op_iterations, deg=cfg.interpolation_polynomial_degree, is_log=cfg.interpolation_is_log,
        cores=cfg.n_integration_cores, pol=cfg.polarized, tl=cfg.time_like, skip_singlet=op.debug.skip_singlet,
        skip_non_singlet=op.debug.skip_non_singlet, xgrid=op.xgrid.raw.tolist(),
    )
    if with_inv:
        got["inversion"] = None if cfg.inversion_method is None else cfg.inversion_method.value
    return got


def _check_legacy(case):
    from eko.io.runcards import Legacy

    s = case["s"]
    res = CaseResult()
    old_th, old_op = old_cards(case)
    theories = [old_th] + [dict(old_th, **v) for v in case.get("variants", [])]
    snap_op = _plain(copy.deepcopy(old_op))  # the request; expectations always come from here
    last_op = snap_op
    on_wall = False
    res.nontrivial = s["order"][0] >= 2 or s["scheme"] == "MSBAR" or len(s["mugrid"]) >= 2
    for i, th_raw in enumerate(theories):
        tag = "" if i == 0 else f"upgrade #{i + 1} of the same raw operator card: "
        snap_th = copy.deepcopy(th_raw)
        walls = [snap_th["m" + q] * snap_th[f"k{q}Thr"] for q in "cbt"]
        conv = Legacy(th_raw, old_op)  # the caller's objects, as the benchmark runner passes them
        # ---- theory
        try:
            th = conv.new_theory
        except Exception as e:  # noqa: BLE001
            res.fail(exc_bucket(f"{ID}/legacy-theory/call", e), f"{tag}Legacy.new_theory raised {e!r} for {snap_th}")
            th = None
        if th is not None:
            exp = _expect_theory(snap_th)
            _compare(res, "legacy-theory", exp, _got_theory(th, "em_running" in exp), tag=tag)
        # ---- operator
        try:
            op = conv.new_operator
        except Exception as e:  # noqa: BLE001
            res.fail(exc_bucket(f"{ID}/legacy-operator/call", e), f"{tag}Legacy.new_operator raised {e!r} for {snap_op} / {snap_th}")
            break
        exp, want, inv_where = _expect_operator(snap_th, snap_op, case["grid_key"])
        on_wall = on_wall or any(snap_th["Q0"] == w for w in walls) or any(mu == w for mu in want for w in walls)
        sub = {"inversion": f"given-in={inv_where}"}
        if snap_th["nf0"] is None and any(snap_th["Q0"] == w for w in walls):
            sub["init"] = "Q0-on-matching-scale"
        _compare(res, "legacy-operator", exp, _got_operator(op, "inversion" in exp), sub=sub, tag=tag)
        mus = [p[0] for p in op.mugrid]
        tol = 0.0 if case["grid_key"] == "mugrid" else 4e-16
        if len(mus) != len(want) or any(abs(a - b) > tol * abs(b) for a, b in zip(mus, want)):
            res.fail(
                f"{ID}/legacy-operator/scales/{case['grid_key']}" + ("" if i == 0 else "/repeated-upgrade"),
                f"{tag}target scales {mus} != requested {want} ({case['grid_key']} given as {case.get('container', 'list')})",
            )
        # ---- the same upgrade from private copies of the request must agree field by field
        if i > 0:
            try:
                fresh = Legacy(copy.deepcopy(snap_th), old_cards(case)[1]).new_operator
            except Exception as e:  # noqa: BLE001
                res.fail(exc_bucket(f"{ID}/legacy-operator/call", e), f"{tag}fresh copy: Legacy.new_operator raised {e!r}")
                break
            a, b = _got_operator(fresh, True), _got_operator(op, True)
            a["scales"], b["scales"] = [float(p[0]) for p in fresh.mugrid], [float(p[0]) for p in op.mugrid]
            for k in a:
                if not _same(a[k], b[k]):
                    res.fail(f"{ID}/legacy-operator/repeated-upgrade-differs/{k}",
                             f"{tag}{k} = {b[k]!r}, but upgrading a fresh copy of the same request gives {a[k]!r}")
        # ---- the caller's raw cards are inputs, not scratch space
        if _plain(th_raw) != _plain(snap_th) and not _nan_equal(_plain(th_raw), _plain(snap_th)):
            res.fail(f"{ID}/legacy/input-mutated/theory", f"{tag}the raw theory card was modified by the upgrade")
        now = _plain(old_op)
        if not _nan_equal(now, last_op):
            keys = [k for k in last_op if not _nan_equal(now.get(k), last_op[k])]
            res.fail(f"{ID}/legacy/input-mutated/operator/{'grid' if case['grid_key'] in keys else 'other'}",
                     f"{tag}the raw operator card was modified by the upgrade: keys {keys}: {[last_op[k] for k in keys]} -> "
                     f"{[now.get(k) for k in keys]}")
            last_op = now  # report each modification once; later upgrades are still judged against the original request
            if len(res.violations) > 12:
                break
    res.classes = [
        "kind=legacy", f"PTO={s['order'][0] - 1}", f"QED={s['order'][1]}", f"HQ={s['scheme']}", f"ModEv={case['mod_ev']}",
        f"ModSV={s['sv']}", f"alpha={case['alpha_keys']}", f"nf0={case['nf0']}", f"grid={case['grid_key']}",
        f"inv_where={case['inv_where']}", f"points={len(s['mugrid'])}", f"pto_matching={case['pto_matching']}",
        f"container={case.get('container', 'list')}", f"upgrades={len(theories)}", f"ffns={case.get('ffns', 0)}",
        f"on_wall={on_wall}",
    ]
    return res


def _nan_equal(a, b):
    if isinstance(a, float) and isinstance(b, float):
        return a == b or (math.isnan(a) and math.isnan(b))
    if type(a) is not type(b):
        return False
    if isinstance(a, dict):
        return a.keys() == b.keys() and all(_nan_equal(a[k], b[k]) for k in a)
    if isinstance(a, (list, tuple)):
        return len(a) == len(b) and all(_nan_equal(x, y) for x, y in zip(a, b))
    return a == b


def _same(a, b):
    if isinstance(a, float) and isinstance(b, float):
        return a == b or (math.isnan(a) and math.isnan(b))
    if isinstance(a, (list, tuple)) and isinstance(b, (list, tuple)):
        return len(a) == len(b) and all(_same(x, y) for x, y in zip(a, b))
    if isinstance(a, bool) != isinstance(b, bool):
        return False
    return a == b


def _compare(res, what, exp, got, sub=None, tag=""):
    for k in exp:
        if not _same(exp[k], got[k]):
            extra = f"/{sub[k]}" if sub and k in sub else ""
            res.fail(f"{ID}/{what}/{k}{extra}", f"{tag}{what}: {k} = {got[k]!r}, the old input says {exp[k]!r}")


# ----------------------------------------------------------------------------- archives


def _small(s):
    s = copy.deepcopy(s)
    if len(s["xgrid"]) > 8:
        s["xgrid"] = s["xgrid"][:7] + [s["xgrid"][-1]]
    s["deg"] = min(s["deg"], len(s["xgrid"]) - 1)
    seen, pts = set(), []
    for mu, nf in s["mugrid"]:
        if (mu, nf) not in seen:
            seen.add((mu, nf))
            pts.append([mu, nf])
    s["mugrid"] = pts
    return s


def _repack(src_dir, dst, case, s):
    """Rewrite the extracted current archive in the old layout (inverse of the v1.py / v2.py patches) and tar it."""
    import yaml

    v1 = case["layout"] == "v1"
    src_dir = pathlib.Path(src_dir)
    meta = yaml.safe_load((src_dir / "metadata.yaml").read_text())
    bases = {"xgrid": meta.pop("xgrid")}
    if case["bases_extra"]:
        bases.update(_inputgrid=None, _targetgrid=None, _inputpids=None, _targetpids=None)
    meta["bases"] = bases
    meta["version"] = case["version"]
    meta["data_version"] = 1
    (src_dir / "metadata.yaml").write_text(yaml.safe_dump(meta))
    th = yaml.safe_load((src_dir / "theory.yaml").read_text())
    scale, nfref = th["couplings"].pop("ref")
    th["couplings"].update(scale=scale, num_flavs_ref=nfref, max_num_flavs=case["max_num_flavs"])
    op = yaml.safe_load((src_dir / "operator.yaml").read_text())
    mu0, nf0 = op.pop("init")
    op["mu0"] = mu0
    th["heavy"].update(num_flavs_init=nf0, num_flavs_max_pdf=case["num_flavs_max_pdf"], intrinsic_flavors=list(case["intrinsic"]))
    if not case["store_matching_order"]:
        th.pop("matching_order", None)
    if v1:
        flag = th.pop("use_fhmruvv")
        if case["fhmv"] == "use_fhmv":
            th["use_fhmv"] = flag
        op["configs"].pop("n_integration_cores", None)
    (src_dir / "theory.yaml").write_text(yaml.safe_dump(th))
    (src_dir / "operator.yaml").write_text(yaml.safe_dump(op))
    with tarfile.open(dst, "w") as tar:
        tar.add(src_dir, arcname=".")


def _check_archive(case):
    from eko.io.items import Operator
    from eko.io.runcards import OperatorCard, TheoryCard
    from eko.io.struct import EKO

    s = _small(case["s"])
    v1 = case["layout"] == "v1"
    res = CaseResult()
    res.classes = [
        "kind=archive", f"layout={case['layout']}", f"order={s['order'][0]},{s['order'][1]}", f"scheme={s['scheme']}",
        f"points={len(s['mugrid'])}", f"matching_order_stored={case['store_matching_order']}",
        f"fhm={case['fhmv'] if v1 else 'use_fhmruvv'}", f"nodes={len(s['xgrid'])}",
    ]
    res.nontrivial = s["order"][0] >= 2 or s["scheme"] == "MSBAR" or len(s["mugrid"]) >= 2
    th = TheoryCard.from_dict(sc.raw_theory(s))
    op = OperatorCard.from_dict(sc.raw_operator(s))
    rng = np.random.default_rng(case["op_seed"])
    n = len(s["xgrid"])
    d = pathlib.Path(tempfile.mkdtemp(prefix="c41-"))
    old_tmp = tempfile.tempdir
    try:
        (d / "tmp").mkdir()
        tempfile.tempdir = str(d / "tmp")
        cur = d / "current.tar"
        ops = {}
        with EKO.create(cur) as builder:
            ev = builder.load_cards(th, op).build()
            for i, ep in enumerate(op.evolgrid):
                a = rng.standard_normal((14, n, 14, n))
                e = rng.standard_normal((14, n, 14, n)) if case["with_error"][i % 4] else None
                ev[ep] = Operator(operator=a, error=e)
                ops[(float(ep[0]), int(ep[1]))] = (a, e)
                del ev[ep]
        ex = d / "extracted"
        with tarfile.open(cur) as tar:
            tar.extractall(ex, filter="data")
        old = d / f"{case['layout']}.tar"
        _repack(ex, old, case, s)
        # ---- load the old layout
        try:
            loaded = EKO.read(old)
        except Exception as e:  # noqa: BLE001
            res.fail(exc_bucket(f"{ID}/{case['layout']}/read", e), f"EKO.read of a {case['version']} layout raised {e!r}")
            return res
        try:
            lth = loaded.theory_card
            lop = loaded.operator_card
        except Exception as e:  # noqa: BLE001
            res.fail(exc_bucket(f"{ID}/{case['layout']}/cards", e), f"reading the cards of a {case['version']} layout raised {e!r}")
            return res
        exp_th = TheoryCard.from_dict(sc.raw_theory(s))
        exp_th.matching_order = th.matching_order if case["store_matching_order"] else (s["order"][0] - 1, 0)
        if v1 and case["fhmv"] == "absent":
            exp_th.use_fhmruvv = lth.use_fhmruvv  # the old file does not say
        for dd in sc.differences(exp_th, lth, "theory")[:6]:
            field = dd.split(":")[0].split("[")[0]
            res.fail(f"{ID}/{case['layout']}/{field}", f"{case['version']} layout: loaded card vs the settings written: {dd}")
        exp_op = OperatorCard.from_dict(sc.raw_operator(s))
        if v1:
            exp_op.configs.n_integration_cores = 1
        exp_op.eko_version = lop.eko_version
        for dd in sc.differences(exp_op, lop, "operator")[:6]:
            field = dd.split(":")[0].split("[")[0]
            res.fail(f"{ID}/{case['layout']}/{field}", f"{case['version']} layout: loaded card vs the settings written: {dd}")
        if tuple(loaded.metadata.origin) != (s["init"][0] ** 2, s["init"][1]):
            res.fail(f"{ID}/{case['layout']}/metadata.origin", f"origin {loaded.metadata.origin} != {(s['init'][0] ** 2, s['init'][1])}")
        if not np.array_equal(loaded.metadata.xgrid.raw, np.array(sorted(s["xgrid"]))):
            res.fail(f"{ID}/{case['layout']}/metadata.xgrid", "grid nodes differ")
        got_eps = sorted((float(e[0]), int(e[1])) for e in loaded)
        if got_eps != sorted(ops):
            res.fail(f"{ID}/{case['layout']}/evolution-points", f"points {got_eps} != written {sorted(ops)}")
        else:
            for ep, o in loaded.items():
                a, e = ops[(float(ep[0]), int(ep[1]))]
                same = o.operator.tobytes() == a.tobytes() and ((o.error is None) == (e is None)) and (
                    e is None or o.error.tobytes() == e.tobytes())
                if not same:
                    res.fail(f"{ID}/{case['layout']}/operators", f"operator at {ep} is not bitwise what was written")
    finally:
        tempfile.tempdir = old_tmp
        shutil.rmtree(d, ignore_errors=True)
    return res


def check_case(case):
    if case["kind"] == "legacy":
        return _check_legacy(case)
    return _check_archive(case)

"""C28 the Python and the Rust implementation of ekore agree (anomalous dimensions and matching elements)."""

import math

import numpy as np

from vf.core import CaseResult, exc_bucket

ID = "C28"
LEVEL = "exploration"
ENGINE = "E"
TECHNIQUE = (
    "differential: crates/ekore rebuilt from the tree under test (offline cargo, shim `num`, cdylib + ctypes) against "
    "the interpreted Python ekore on Hypothesis-generated Mellin moments"
)
RULE = (
    "Each case = one public tower of crates/ekore (unpolarised gamma_ns_qcd / gamma_singlet_qcd orders 1-4, "
    "gamma_ns_qed / gamma_singlet_qed / gamma_valence_qed on the (1-4)x(1-2) grid, polarised gamma_ns_qcd / "
    "gamma_singlet_qcd orders 1-2, A_singlet / A_non_singlet orders 1-2 with L in [-3,3]) x every sector id x nf 3-6 x "
    "the 7 N3LO variation indices in {0,1,2} x one Mellin moment N: 70% on the solver's Talbot contours "
    "(eko.mellin.Path(t, logx, is_singlet).n, t in [0.5,0.95], x in [1e-7,1]), 30% off-contour (Re N in [0.3,60] or "
    "[-8,0.3] away from the integers, |Im N| <= 60).  The Rust library is rebuilt by cargo in every run.  Oracle: every "
    "entry of the shared shape agrees to 1e-11 relative to the scale of the element (largest modulus in its matrix / "
    "tower slot); entries built on g3(N+2) (O(as aem), O(aem^2) quark blocks) agree to the documented accuracy of the g3 "
    "parametrisation (32 CF 1e-6, where documented: Re N >= 1), and everywhere to 1e-11 once Python's g3(N+2) is replaced by the exact shift g3(N)+[M[Li2](N+1)-M[Li2](N)] "
    "that Rust uses.  Non-trivial = coupling power >= 2 and |Im N| >= 0.5; distinct by (tower, orders, sector, nf, "
    "variation indices, N, L)."
)
ASSUMPTIONS = [
    "trusted base: /verif/rust/num_shim (Complex<f64> arithmetic with the operation order of num-complex; differences "
    "from the real crate are a few ulp) and the 150-line extern-C wrapper /verif/rust/ekore_ffi",
    "rounding tolerance 1e-11 relative to the largest modulus within the same matrix (or the tower entry for scalars); "
    "measured worst deviation on the unchanged tree 4e-13",
    "g3 parametrisation accuracy: 1e-6 absolute on g3, the tolerance of tests/ekore/harmonics/test_g_functions.py::test_g3 "
    "(decimal=6) and of crates/ekore as1aem1.rs::test_g3_shift / g_functions.rs::test_mellin_g3 (epsilon=1e-6), all at "
    "points with Re N >= 1; g3(N+2) enters the entries with the factor 32 CF e_q^2 <= 32 CF, hence the entry tolerance "
    "32*CF*1e-6 = 4.3e-5, asserted for Re N >= 1 (measured there: |g3par(N+2)-g3par(N)-shift| <= 5.8e-7).  For Re N < 1 "
    "no accuracy of the parametrisation is documented (measured self-inconsistency 1.9e-6 at Re N -> 0, O(0.1-1) for "
    "Re N < 0), so only the shift-corrected rounding-level comparison is asserted there",
    "Python side evaluated interpreted (NUMBA_DISABLE_JIT=1), the mode of the repository's tests; C48 ties compiled code "
    "to it; MSbar matching (is_msbar=True) and Python's as3 matching / polarised as3 / non-FHMRUVV N3LO have no Rust "
    "counterpart and are outside 'implemented in both languages'",
]
LEVEL_TEXT = (
    "Generated-input differential between two independently written implementations, both rebuilt from the tree under "
    "test on every run; it samples the (tower, order, sector, nf, variation, N) product, it does not exhaust it."
)

CF = 4.0 / 3.0
TOL = 1e-11
G3_DOC = 1e-6
G3_DOC_MIN_RE = 1.0

NS_QCD = (10101, 10201, 10200)
NS_QED = (10102, 10103, 10202, 10203)
TOWERS = (
    "unpol_ns_qcd", "unpol_singlet_qcd", "unpol_ns_qed", "unpol_singlet_qed", "unpol_valence_qed",
    "pol_ns_qcd", "pol_singlet_qcd", "ome_singlet", "ome_non_singlet",
)
SINGLET_LIKE = {"unpol_singlet_qcd", "unpol_singlet_qed", "pol_singlet_qcd", "ome_singlet"}


def budget(tier):
    if tier == "quick":
        return dict(max_examples=480, shards=8, wall_s=150, shrink_s=12)
    return dict(max_examples=9600, shards=16, wall_s=900, shrink_s=60)


# --------------------------------------------------------------------------------------- generator


def strategy(tier):
    from hypothesis import strategies as st

    from eko import mellin

    def moment(singlet):
        def on_contour(t, lx):
            p = mellin.Path(t, lx, singlet)
            n = complex(p.n)
            return {"src": "contour", "t": t, "logx": lx, "n": [n.real, n.imag]}

        # uniform values from a numpy Generator seeded by a Hypothesis-drawn integer: Hypothesis' float / integer
        # strategies over-sample 0 and the end points, which would put half of the cases on the real axis
        unit = st.integers(0, 2**32 - 1).map(lambda s: float(np.random.default_rng(s).uniform(1e-9, 1 - 1e-9)))
        contour = st.builds(
            on_contour,
            st.one_of(unit.map(lambda u: 0.5 + 0.45 * u), unit.map(lambda u: 0.5 + 0.45 * u), st.floats(0.5, 0.95)),
            st.one_of(unit.map(lambda u: math.log(1e-7) * u), st.floats(math.log(1e-7), 0.0)),
        )

        def off(re, frac, im):
            # keep away from the poles at the integers <= 1 (distance >= 0.1): closer, both codes are dominated by
            # 1/(N+k)^p terms and the comparison degenerates
            if re < 1.2:
                k = math.floor(re)
                re = k + 0.1 + 0.8 * frac
            return {"src": "off", "t": None, "logx": None, "n": [re, im]}

        offc = st.builds(
            off,
            st.one_of(unit.map(lambda u: 0.3 + 59.7 * u), unit.map(lambda u: -8.0 + 9.2 * u), unit.map(lambda u: 1 + 5 * u)),
            unit,
            st.one_of(
                unit.map(lambda u: -60.0 + 120.0 * u), unit.map(lambda u: -6.0 + 12.0 * u), st.floats(-60.0, 60.0),
                st.just(0.0),
            ),
        )
        return st.one_of(contour, contour, contour, contour, contour, contour, contour, offc, offc, offc)

    @st.composite
    def case(draw):
        tower = draw(st.sampled_from(TOWERS + ("unpol_ns_qcd", "unpol_singlet_qcd", "unpol_ns_qed", "unpol_singlet_qed")))
        c = {"tower": tower, "mode": 0, "L": 0.0}
        if tower.startswith("unpol") and tower.endswith("qcd"):
            c["order"] = [draw(st.sampled_from((1, 2, 3, 4, 4))), 0]
        elif tower.endswith("qed"):
            c["order"] = [draw(st.sampled_from((1, 2, 3, 4))), draw(st.sampled_from((1, 2, 2)))]
        else:
            c["order"] = [draw(st.sampled_from((1, 2, 2))), 0]
        if tower in ("unpol_ns_qcd", "pol_ns_qcd"):
            c["mode"] = draw(st.sampled_from(NS_QCD))
        elif tower == "unpol_ns_qed":
            c["mode"] = draw(st.sampled_from(NS_QED))
        c["nf"] = draw(st.integers(3, 6))
        if c["order"][0] >= 4:
            c["var"] = draw(st.lists(st.integers(0, 2), min_size=7, max_size=7))
        else:
            c["var"] = [0] * 7
        if tower.startswith("ome"):
            c["L"] = draw(st.one_of(st.floats(-3.0, 3.0), st.just(0.0)))
        c.update(draw(moment(tower in SINGLET_LIKE)))
        return c

    return case()


# --------------------------------------------------------------------------------------- the two sides


def python_tower(case, n):
    """Evaluate the Python implementation; returns the array in the shape Python gives it."""
    from ekore.anomalous_dimensions.polarized import space_like as pol
    from ekore.anomalous_dimensions.unpolarized import space_like as unp
    from ekore.operator_matrix_elements.unpolarized import space_like as ome

    t = case["tower"]
    order = (int(case["order"][0]), int(case["order"][1]))
    nf = int(case["nf"])
    var = tuple(int(v) for v in case["var"])
    mode = int(case["mode"])
    if t == "unpol_ns_qcd":
        return unp.gamma_ns(order, mode, n, nf, var, True)
    if t == "unpol_singlet_qcd":
        return unp.gamma_singlet(order, n, nf, var, True)
    if t == "unpol_ns_qed":
        return unp.gamma_ns_qed(order, mode, n, nf, var, True)
    if t == "unpol_singlet_qed":
        return unp.gamma_singlet_qed(order, n, nf, var, True)
    if t == "unpol_valence_qed":
        return unp.gamma_valence_qed(order, n, nf, var, True)
    if t == "pol_ns_qcd":
        return pol.gamma_ns(order, mode, n, nf)
    if t == "pol_singlet_qcd":
        return pol.gamma_singlet(order, n, nf)
    if t == "ome_singlet":
        return ome.A_singlet(order, n, nf, float(case["L"]), False)
    if t == "ome_non_singlet":
        return ome.A_non_singlet(order, n, nf, float(case["L"]))
    raise KeyError(t)


def li2_moment(n, s1):
    """M[Li2(x)](N) = (zeta2 - S1(N)/N)/N (integration by parts of the definition)."""
    return (math.pi**2 / 6.0 - s1 / n) / n


class exact_g3_shift:
    """While active, Python's g3 parametrisation evaluated at exactly N+2 is replaced by g3(N) + shift.

    g3(N) = M[Li2(x)/(1+x)](N) obeys g3(N+1) + g3(N) = M[Li2](N), hence g3(N+2) = g3(N) + M[Li2](N+1) - M[Li2](N):
    the relation the Rust code uses instead of evaluating the parametrisation at N+2.  Interpreted mode only.
    """

    def __init__(self, n):
        self.n = n
        self.hits = 0
        self.g3p2 = None

    def __enter__(self):
        from ekore.harmonics import cache as hc

        self.hc = hc
        self.orig = hc.mellin_g3
        target = self.n + 2

        def patched(n2, s1_n2):
            if n2 != target:
                return self.orig(n2, s1_n2)
            n = self.n
            s1_np1 = s1_n2 - 1.0 / (n + 2)
            s1_n = s1_np1 - 1.0 / (n + 1)
            self.hits += 1
            self.g3p2 = self.orig(n2, s1_n2)
            return self.orig(n, s1_n) + li2_moment(n + 1, s1_np1) - li2_moment(n, s1_n)

        hc.mellin_g3 = patched
        return self

    def __exit__(self, *a):
        self.hc.mellin_g3 = self.orig
        return False


def g3_mask(tower, shape):
    """Boolean mask of the entries whose Python value is built on g3 evaluated at N+2."""
    m = np.zeros(shape, dtype=bool)
    if tower == "unpol_ns_qed":
        m[1, 1] = True
        if shape[1] > 2:
            m[0, 2] = True
    elif tower == "unpol_singlet_qed":
        m[1, 1, 2:, 2:] = True
        if shape[1] > 2:
            m[0, 2, 2:, 2:] = True
    elif tower == "unpol_valence_qed":
        m[1, 1] = True
        if shape[1] > 2:
            m[0, 2] = True
    return m


def scales(tower, arr):
    """Per-entry comparison scale: the largest modulus within the same matrix (scalar towers: the entry itself)."""
    a = np.abs(arr)
    if "_ns_" in tower:
        return a
    return np.broadcast_to(a.max(axis=(-2, -1), keepdims=True), arr.shape)


def slot_name(tower, idx):
    if tower.endswith("qed"):
        return f"as{idx[0]}aem{idx[1]}"
    if tower.startswith("ome"):
        return f"A{idx[0] + 1}"
    return f"as{idx[0] + 1}"


def check_case(case):
    import numba

    from vf.refs import c28_rust

    if not numba.config.DISABLE_JIT:
        raise RuntimeError("C28 must run with NUMBA_DISABLE_JIT=1 (the g3-shift comparison patches a Python callee)")
    res = CaseResult()
    tower = case["tower"]
    order = case["order"]
    n = complex(case["n"][0], case["n"][1])
    res.key = [tower, order, case["mode"], case["nf"], case["var"], case["n"], case["L"]]
    res.nontrivial = bool(order[0] + order[1] >= 2 and abs(n.imag) >= 0.5)
    res.classes = [
        f"tower={tower}", f"order={order[0]},{order[1]}", f"nf={case['nf']}", f"src={case['src']}",
        "var=central" if not any(case["var"]) else "var=varied",
        "ImN>=0.5" if abs(n.imag) >= 0.5 else "ImN<0.5", "ReN<0" if n.real < 0 else "ReN>=0",
    ]
    status, lib = c28_rust.get()
    if status != "ok":
        res.fail(f"{ID}/rust-does-not-compile", lib)
        return res

    coords = f"{tower}/order={order[0]},{order[1]}"
    py_refused = None
    try:
        py = np.asarray(python_tower(case, n), dtype=complex)
    except NotImplementedError as e:  # the documented way of saying "not available" (e.g. nf=6 singlet at N3LO)
        py_refused = repr(e)
    except Exception as e:  # noqa: BLE001 - in-domain input
        res.fail(exc_bucket(f"{ID}/python-raises/{tower}", e), f"{coords} nf={case['nf']} N={n}: {e!r}")
        return res
    rs_full = lib.tower(tower, order[0], order[1], case["mode"], n, case["nf"], case["var"], case["L"])
    rs_refused = isinstance(rs_full, str)
    if py_refused or rs_refused:
        res.nontrivial = False
        res.classes.append("both-refuse" if (py_refused and rs_refused) else "refusal-mismatch")
        if not (py_refused and rs_refused):
            res.fail(
                f"{ID}/refusal-mismatch/{tower}",
                f"{coords} mode={case['mode']} nf={case['nf']} N={n}: python "
                + (f"refuses ({py_refused})" if py_refused else "returns a value")
                + ", rust " + ("panics" if rs_refused else "returns a value"),
            )
        return res
    if any(p > r for p, r in zip(py.shape, rs_full.shape)) or py.ndim != rs_full.ndim:
        res.fail(f"{ID}/shape/{tower}", f"Python shape {py.shape} does not fit into the Rust array {rs_full.shape}")
        return res
    rs = rs_full[tuple(slice(0, s) for s in py.shape)]

    mask = g3_mask(tower, py.shape)
    py_shift = py
    if mask.any():
        with exact_g3_shift(n) as patch:
            py_shift = np.asarray(python_tower(case, n), dtype=complex)
        if patch.hits == 0:
            raise RuntimeError("the g3(N+2) call of the Python side was not intercepted: harness out of date")
        res.classes.append("g3-shift-entries")

    def first_bad(a, b, tol_arr):
        sc = np.maximum(scales(tower, a), scales(tower, b))
        dev = np.abs(a - b)
        with np.errstate(invalid="ignore"):
            bad = ~(dev <= tol_arr(sc))
        if not bad.any():
            return None
        excess = np.where(bad, np.where(np.isfinite(dev), dev / np.maximum(tol_arr(sc), 1e-300), np.inf), 0.0)
        idx = np.unravel_index(int(np.argmax(excess)), a.shape)
        return idx, a[idx], b[idx], dev[idx], sc[idx]

    if not (np.all(np.isfinite(py)) and np.all(np.isfinite(rs))):
        res.fail(f"{ID}/non-finite/{tower}", f"non-finite value: python finite={np.all(np.isfinite(py))}, rust finite={np.all(np.isfinite(rs))}")
        return res

    # (1) rounding-level agreement, with Python's g3(N+2) replaced by the exact shift
    hit = first_bad(py_shift, rs, lambda sc: TOL * sc)
    if hit:
        idx, a, b, dev, sc = hit
        slot = slot_name(tower, idx)
        if slot.startswith("as4") and len(idx) > 2:
            # at N3LO every matrix entry is its own parametrisation module with its own variation index
            slot += f"/entry={int(idx[-2])},{int(idx[-1])}"
        res.fail(
            f"{ID}/mismatch/{tower}/{slot}",
            f"{coords} mode={case['mode']} nf={case['nf']} var={case['var']} N={n} L={case['L']}: entry "
            f"{tuple(int(i) for i in idx)} python {a!r} vs rust {b!r}, |diff| {dev:.3e} = {dev / max(sc, 1e-300):.3e} of "
            f"the element scale {sc:.3e} (tolerance {TOL:g})"
            + (" [Python evaluated with the exact g3 shift]" if mask[idx] else ""),
        )
    # (2) the production Python value of the g3(N+2)-built entries: documented parametrisation accuracy
    if mask.any() and n.real < G3_DOC_MIN_RE:
        res.classes.append("g3-accuracy-not-asserted(ReN<1)")
    if mask.any() and n.real >= G3_DOC_MIN_RE:
        res.classes.append("g3-accuracy-asserted")
        tol_g3 = 32.0 * CF * G3_DOC
        hit = first_bad(np.where(mask, py, rs), rs, lambda sc: tol_g3 + TOL * sc)
        if hit:
            idx, a, b, dev, sc = hit
            res.fail(
                f"{ID}/g3-accuracy/{tower}/{slot_name(tower, idx)}",
                f"{coords} mode={case['mode']} nf={case['nf']} N={n}: g3(N+2)-built entry {tuple(int(i) for i in idx)} "
                f"python {a!r} vs rust {b!r}, |diff| {dev:.3e} > 32 CF 1e-6 = {tol_g3:.3e}",
            )
    return res

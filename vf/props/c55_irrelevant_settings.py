"""C55 settings that do not apply to a configuration do not change its EKO."""

import copy

import numpy as np

from vf import runner_util as ru
from vf.core import CaseResult, exc_bucket

ID = "C55"
LEVEL = "exploration"
ENGINE = "R"
TECHNIQUE = "metamorphic pairs of tiny end-to-end solves differing in one documented-irrelevant setting; bitwise comparison"
RULE = (
    "Generated base tiny runcard (QCD order 1-4, all methods, upward / downward / fixed paths, QED on/off) plus ONE changed "
    "setting that the documentation ties to other configurations: ev_op_iterations for non-iterating methods (truncated, "
    "ordered-truncated, decompose-*; QCD only), ev_op_max_order for non-perturbative methods, inversion_method when no "
    "downward matching occurs, n3lo_ad_variation / use_fhmruvv below N3LO, em_running without QED. Both cards are solved; "
    "all operators and errors must be bitwise identical (tobytes). Non-trivial = the changed value really differs and the "
    "base run has a computed (non-identity) operator; distinct by (setting, order, method, path shape, nf0)."
)
ASSUMPTIONS = [
    "bitwise equality (tobytes) of operator and error arrays, as the property states",
    "interpreted mode (NUMBA_DISABLE_JIT=1), single integration core",
    "which settings are irrelevant where is taken from the property statement and DGLAP.rst / the runcard docstrings",
]
LEVEL_TEXT = (
    "Generated metamorphic pairs through the full runner; an exact differential oracle. Samples the configuration space."
)

NON_ITERATING = ("truncated", "ordered-truncated", "decompose-exact", "decompose-expanded")
NON_PERTURBATIVE = ("iterate-exact", "iterate-expanded", "truncated", "ordered-truncated", "decompose-exact", "decompose-expanded")
SETTINGS = ("iters", "max_order", "inv", "n3lo", "use_fhmruvv", "em_running")


def budget(tier):
    if tier == "quick":
        return dict(max_examples=64, shards=16, wall_s=80, shrink_s=40)
    return dict(max_examples=800, shards=16, wall_s=1200, shrink_s=200)


def strategy(tier):
    from hypothesis import strategies as st

    @st.composite
    def build(draw):
        setting = draw(st.sampled_from(SETTINGS))
        kw = dict(n_extra_targets=(1, 2), grid_pts=(2, 3), iters=(1, 3))
        if setting == "iters":
            base = draw(ru.st_tiny_card(orders=(1, 2, 3, 4), methods=NON_ITERATING, **kw))
            new = draw(st.integers(1, 12).filter(lambda v: v != base["iters"]))
        elif setting == "max_order":
            base = draw(ru.st_tiny_card(orders=(1, 2, 3, 4), methods=NON_PERTURBATIVE, **kw))
            new = [draw(st.integers(1, 15).filter(lambda v: v != base["max_order"][0])), 0]
        elif setting == "inv":
            base = draw(ru.st_tiny_card(orders=(1, 2, 3), **kw))
            # no downward matching: every target nf >= initial nf
            base["mugrid"] = [[m, max(n, base["init"][1])] for m, n in base["mugrid"]]
            new = draw(st.sampled_from([v for v in (None, "exact", "expanded") if v != base["inv"]]))
        elif setting == "n3lo":
            base = draw(ru.st_tiny_card(orders=(1, 2, 3), **kw))
            new = draw(st.lists(st.integers(0, 2), min_size=7, max_size=7).filter(lambda v: any(v)))
        elif setting == "use_fhmruvv":
            base = draw(ru.st_tiny_card(orders=(1, 2, 3), **kw))
            new = not ru.full(base)["use_fhmruvv"]
        else:  # em_running
            base = draw(ru.st_tiny_card(orders=(1, 2, 3), **kw))
            new = True
        if base["order"][0] == 4 and len(base["xgrid"]) > 2:
            base["xgrid"] = base["xgrid"][-2:]
            base["deg"] = 1
        if any(n < base["init"][1] for _, n in base["mugrid"]) and base["inv"] is None and setting != "inv":
            base["inv"] = "expanded"
        return {"setting": setting, "new": new, "base": base}

    return build()


def _bytes(ops):
    return {k: (v[0].tobytes(), None if v[1] is None else v[1].tobytes()) for k, v in ops.items()}


def check_case(case):
    res = CaseResult()
    base = case["base"]
    setting, new = case["setting"], case["new"]
    var = copy.deepcopy(base)
    var[setting] = new
    c = ru.full(base)
    shape = sorted({"up" if n > c["init"][1] else ("down" if n < c["init"][1] else "fixed") for _, n in c["mugrid"]})
    res.classes = [f"setting={setting}", f"order={c['order'][0]}", f"method={c['method']}"] + [f"path={s}" for s in shape]
    res.key = [setting, c["order"], c["method"], shape, c["init"][1]]
    if ru.full(var)[setting] == c[setting]:
        res.nontrivial = False
        return res
    outs = []
    for which, cc in (("base", base), ("varied", var)):
        try:
            outs.append(ru.solve(cc))
        except (NotImplementedError, ValueError) as e:
            outs.append(("refused", type(e).__name__))
        except Exception as e:  # noqa: BLE001 - crashes are C04's verdict
            return CaseResult(discarded=exc_bucket("crash(decided by C04)", e))
    a, b = outs
    if isinstance(a, tuple) or isinstance(b, tuple):
        if isinstance(a, tuple) and isinstance(b, tuple):
            return CaseResult(discarded=f"refused:{a[1]}")
        res.fail(f"{ID}/{setting}/refusal-differs", f"base -> {a if isinstance(a, tuple) else 'ok'}, varied -> {b if isinstance(b, tuple) else 'ok'}")
        return res
    n = len(c["xgrid"])
    ident = np.zeros((14, n, 14, n))
    computed = any(not np.array_equal(v[0][8], np.eye(14)[8][None, :, None] * np.eye(n)[:, None, :]) for v in a.values())
    res.nontrivial = bool(computed)
    if sorted(a) != sorted(b):
        res.fail(f"{ID}/{setting}/points-differ", f"{sorted(a)} vs {sorted(b)}")
        return res
    ba, bb = _bytes(a), _bytes(b)
    for k in sorted(a):
        if ba[k] != bb[k]:
            d = float(np.max(np.abs(a[k][0] - b[k][0])))
            res.fail(
                f"{ID}/{setting}/order={c['order'][0]}/method={c['method']}",
                f"changing {setting}: {c[setting]!r} -> {new!r} changed the operator at {k} (max abs diff {d:.3e})",
            )
            break
    return res

"""C05 evolved PDFs conserve total momentum and valence numbers (and polarised axial charges)."""

import math
import shutil

import numpy as np

from vf import runner_util as ru
from vf.core import CaseResult, exc_bucket

ID = "C05"
LEVEL = "exploration"
ENGINE = "R"
TECHNIQUE = "generated smooth toy PDFs evolved with freshly solved 30-50 point EKOs; oracle = conservation of independently integrated moments"
RULE = (
    "Generated cases: log-lin grid of 30-50 points (x_min 1e-5..1e-4), degree 3-4, QCD order 1-3, unpolarised or "
    "polarised, fixed-flavour or one-threshold path (charm, bottom or top matching scale, upward or downward), evolution up or down by a factor 2-10 in scale, smooth toy PDFs "
    "x f = A x^a (1-x)^b (1 + c x) per flavour with drawn parameters (gluon and >=2 quark flavours non-zero, valence "
    "exponents >= 0.6 so that the truncated small-x region stays below the tolerance). The operator is applied with "
    "ekobox.apply.apply_grids to three replicas at once (the PDF, one with halved quark-antiquark differences, one with a "
    "1.5 times larger gluon), which must agree with the plain tensor contraction of each replica (rtol 1e-10). Input and output are integrated with the same independent rule (cubic spline of x f in ln x, "
    "integrated exactly per interval): total momentum sum_i int x f_i (unpolarised) and every valence number int (q - "
    "qbar) must be unchanged within 1% relative (absolute 1e-3 of the largest valence for the vanishing ones); polarised: "
    "first moments of T3 and T8 unchanged. Four cases in five are cheap 'coarse-only' ones (20-point grid, LO/NLO, 2 "
    "iterations) that cover the path shapes and only assert conservation within 5% (correct code: <= 1.3%), i.e. they "
    "detect plumbing-size errors. Non-trivial = |ln(mu^2/mu0^2)| >= ln 4 with gluon and >=2 quark flavours "
    "non-zero; distinct by (order, polarised, path shape, direction, grid size)."
)
ASSUMPTIONS = [
    "tolerance 1% relative as stated by the property (covers interpolation error and the truncated region below x_min)",
    "input and output are integrated with the same spline rule on the same grid, so quadrature error largely cancels",
    "n_integration_cores is set >1 only to shorten the run; C03 shows it does not affect results",
    "interpreted mode (NUMBA_DISABLE_JIT=1)",
]
LEVEL_TEXT = (
    "End-to-end exploration on realistic grids with a conservation oracle that is independent of the evolution code; few "
    "(expensive) cases per run, so coverage of the configuration space is thin in the quick tier."
)

QUARKS = (1, 2, 3, 4, 5, 6)
IDX = {p: 7 + p for p in range(1, 7)}
IDX.update({-p: 7 - p for p in range(1, 7)})
IDX[21] = 7
IDX[22] = 0


COARSE_TOL = 5e-2  # 20-point grids: correct code changes the conserved quantities by <= 1.3e-2 (42 measured cases, mostly < 4e-3)


def budget(tier):
    if tier == "quick":
        return dict(max_examples=16, shards=16, wall_s=200, shrink_s=0)
    return dict(max_examples=48, shards=8, wall_s=3000, shrink_s=0)


def strategy(tier):
    from hypothesis import strategies as st

    @st.composite
    def build(draw):
        quick = tier == "quick"
        order = draw(st.sampled_from((1, 1, 2) if quick else (1, 2, 2, 3)))
        pol = draw(st.sampled_from((False, False, True))) and not quick
        nf0 = draw(st.sampled_from((3, 4, 5)))
        cross = draw(st.booleans())
        up = draw(st.booleans())
        masses = [1.51, 4.92, 172.5]
        walls = list(masses)
        factor = draw(st.floats(2.0, 10.0))
        if cross:
            # start inside the nf0 patch near the wall that will be crossed
            if up:
                w = walls[nf0 - 3] if nf0 < 6 else None
                mu0 = w / math.sqrt(factor) * draw(st.floats(0.9, 1.1))
                mu1 = mu0 * factor
                nff = nf0 + 1
            else:
                nf0 = draw(st.sampled_from((4, 5, 6)))
                w = walls[nf0 - 4]
                mu0 = w * math.sqrt(factor) * draw(st.floats(0.9, 1.1))
                mu1 = mu0 / factor
                nff = nf0 - 1
        else:
            lo = {3: 1.3, 4: 2.0, 5: 6.0}[nf0]
            mu_a = lo * draw(st.floats(1.0, 1.5))
            mu_b = mu_a * factor
            mu0, mu1 = (mu_a, mu_b) if up else (mu_b, mu_a)
            nff = nf0
        mu_low = min(mu0, mu1)
        alpha_low = draw(st.floats(0.2, 0.32))
        npts = draw(st.integers(30, 32 if quick else 50))
        n_low = npts * 3 // 5
        xmin = 10 ** draw(st.floats(-5, -4))
        xs = sorted(set(np.geomspace(xmin, 0.1, n_low).tolist() + np.linspace(0.1, 1.0, npts - n_low + 1).tolist()))
        card = dict(
            order=[order, 0], init=[float(mu0), nf0], mugrid=[[float(mu1), nff]], ref=[float(mu_low), nf0 if mu0 < mu1 else nff],
            alphas=float(alpha_low), masses=masses, ratios=[1.0, 1.0, 1.0], xgrid=[float(x) for x in xs],
            deg=draw(st.sampled_from((3, 4))), method=draw(st.sampled_from(("iterate-exact", "truncated"))), iters=4,
            pol=bool(pol), inv="exact" if nff < nf0 else None, cores=4 if quick else 2,
        )
        # toy PDFs: sea (+ gluon) and valence pieces
        pdf = {}
        active = list(range(1, nf0 + 1))
        nq = draw(st.integers(2, len(active)))
        chosen = active[:nq]
        lo_a = 0.5 if pol else -0.2
        for q in chosen:
            sea = [draw(st.floats(0.05, 0.5)), draw(st.floats(lo_a, 0.3 if not pol else 1.0)), draw(st.floats(5.0, 8.0)), draw(st.floats(0.0, 2.0))]
            val = [draw(st.floats(0.5, 3.0)) * draw(st.sampled_from((1.0, 1.0, -0.5))), draw(st.floats(0.6, 1.0)), draw(st.floats(3.0, 5.0)), draw(st.floats(0.0, 3.0))]
            pdf[str(q)] = {"sea": sea, "val": val}
        pdf["21"] = {"sea": [draw(st.floats(0.5, 3.0)), draw(st.floats(lo_a, 0.2 if not pol else 1.0)), draw(st.floats(4.0, 7.0)), draw(st.floats(0.0, 2.0))]}
        return {"card": card, "pdf": pdf}

    def coarsen(case):
        """Cheap variant: 20 points, LO/NLO, few iterations; only plumbing-size violations (COARSE_TOL) are asserted."""
        case = dict(case, coarse=True)
        card = dict(case["card"])
        xs = card["xgrid"]
        xmin = xs[0]
        card["xgrid"] = [float(x) for x in sorted(set(np.geomspace(xmin, 0.1, 12).tolist() + np.linspace(0.1, 1.0, 9).tolist()))]
        card["order"] = [min(card["order"][0], 2), 0]
        card["iters"] = 2
        card["cores"] = 1
        case["card"] = card
        return case

    # one full case in five carries the stated 1% claim; the cheap ones cover the path shapes (all three matching scales,
    # both directions, fixed flavour number) and the application through ekobox.apply with several replicas
    return st.tuples(st.integers(0, 4), build()).map(lambda t: t[1] if t[0] == 0 else coarsen(t[1]))


def shape(p, x):
    A, a, b, c = p
    return A * x**a * (1 - x) ** b * (1 + c * x)


def input_grid(pdf, xs):
    """f(x) (not x f) on the grid, flavour basis order of eko (22, -6..-1, 21, 1..6)."""
    xs = np.asarray(xs)
    f = np.zeros((14, len(xs)))
    for k, v in pdf.items():
        pid = int(k)
        sea = shape(v["sea"], xs) / xs
        if pid == 21:
            f[IDX[21]] = sea
        else:
            f[IDX[-pid]] = sea
            f[IDX[pid]] = sea + shape(v["val"], xs) / xs
    return f


def integrate(xs, xf, weight):
    """int weight(x) * (xf/x) dx with xf splined in u = ln x: weight 'x' -> momentum, '1' -> number."""
    from scipy.interpolate import CubicSpline

    u = np.log(xs)
    spl = CubicSpline(u, xf)
    tot = 0.0
    gl_x, gl_w = np.polynomial.legendre.leggauss(8)
    for a, b in zip(u[:-1], u[1:]):
        uu = 0.5 * (b - a) * gl_x + 0.5 * (a + b)
        ww = 0.5 * (b - a) * gl_w
        g = spl(uu)
        tot += float(np.sum(ww * g * (np.exp(uu) if weight == "x" else 1.0)))
    return tot


def moments(xs, f, pol):
    xs = np.asarray(xs)
    out = {}
    xf = f * xs[None, :]
    if not pol:
        out["momentum"] = sum(integrate(xs, xf[i], "x") for i in range(1, 14))
        for q in QUARKS:
            out[f"valence{q}"] = integrate(xs, xf[IDX[q]] - xf[IDX[-q]], "1")
    else:
        plus = {q: integrate(xs, xf[IDX[q]] + xf[IDX[-q]], "1") for q in QUARKS}
        out["T3"] = plus[2] - plus[1]
        out["T8"] = plus[2] + plus[1] - 2 * plus[3]
    return out


def check_case(case):
    res = CaseResult()
    card = case["card"]
    c = ru.full(card)
    xs = c["xgrid"]
    nf0, nff = c["init"][1], c["mugrid"][0][1]
    shape_ = "fixed" if nf0 == nff else ("up" if nff > nf0 else "down")
    direction = "fwd" if c["mugrid"][0][0] > c["init"][0] else "bwd"
    res.classes = [f"order={c['order'][0]}", f"pol={c['pol']}", f"path={shape_}", f"dir={direction}", f"npts={len(xs)}"]
    res.key = [c["order"], c["pol"], shape_, direction, len(xs), c["method"]]
    lnr = abs(math.log(c["mugrid"][0][0] ** 2 / c["init"][0] ** 2))
    res.nontrivial = bool(lnr >= math.log(4.0) - 1e-9 and len([k for k in case["pdf"] if k != "21"]) >= 2)
    coarse = bool(case.get("coarse"))
    rel_tol = COARSE_TOL if coarse else 1e-2
    if coarse:
        res.classes.append("grid=coarse-only")
    fin = input_grid(case["pdf"], xs)
    # three smooth replicas obeying the same conservation laws: the generated PDF, one with the quark-antiquark
    # differences halved and one with a 1.5 times larger gluon
    rep2, rep3 = fin.copy(), fin.copy()
    for q in QUARKS:
        d = fin[IDX[q]] - fin[IDX[-q]]
        rep2[IDX[q]] = fin[IDX[-q]] + 0.5 * d
    rep3[IDX[21]] = 1.5 * fin[IDX[21]]
    reps = np.array([fin, rep2, rep3])
    d = ru.fresh_dir("vf-c05-")
    try:
        try:
            ru.solve_to(card, d / "o.tar")
        except (NotImplementedError, ValueError) as e:
            return CaseResult(discarded=f"refused:{type(e).__name__}")
        except Exception as e:  # noqa: BLE001 - crashes are C04's verdict
            return CaseResult(discarded=exc_bucket("crash(decided by C04)", e))
        ops = ru.load_all(d / "o.tar")
        from eko.io.struct import EKO
        from ekobox import apply as eapply

        with EKO.read(d / "o.tar") as ek:
            applied, _ = eapply.apply_grids(ek, reps.copy())
    finally:
        shutil.rmtree(d, ignore_errors=True)
    (key, (op, _err)), = ops.items()
    (akey, aval), = applied.items()
    aval = np.asarray(aval)
    outs = np.einsum("ajbk,rbk->raj", op, reps)
    if aval.shape != outs.shape or not np.allclose(aval, outs, rtol=1e-10, atol=1e-12 * float(np.max(np.abs(outs)))):
        res.fail(f"{ID}/apply-grids/differs-from-contraction", f"ekobox.apply.apply_grids on 3 replicas: shape {aval.shape} vs {outs.shape}"
                 + ("" if aval.shape != outs.shape else f", max abs deviation {float(np.max(np.abs(aval - outs))):.3e}"))
        aval = outs
    for r in range(3):
        check_moments(res, c, xs, reps[r], aval[r], rel_tol, shape_, r)
    return res


def check_moments(res, c, xs, fin, fout, rel_tol, shape_, r):
    m0 = moments(xs, fin, c["pol"])
    m1 = moments(xs, fout, c["pol"])
    vmax = max([abs(v) for k, v in m0.items() if k.startswith("valence")] + [1e-300])
    for k in m0:
        a, b = m0[k], m1[k]
        if k.startswith("valence"):
            tol = rel_tol * abs(a) + 0.1 * rel_tol * vmax
            grp = "valence"
        elif k == "momentum":
            tol = rel_tol * abs(a)
            grp = "momentum"
        else:
            tol = rel_tol * max(abs(m0["T3"]), abs(m0["T8"]))
            grp = "axial"
        if not abs(a - b) <= tol:
            res.fail(
                f"{ID}/{grp}/order={c['order'][0]}/path={shape_}/pol={c['pol']}",
                f"replica {r}: {k}: input {a:.6g} -> evolved {b:.6g} (change {abs(a - b):.3e}, allowed {tol:.3e}); "
                f"{c['init']} -> {c['mugrid'][0]} method={c['method']}",
            )

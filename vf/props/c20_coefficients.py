"""C20 beta-function and mass anomalous-dimension coefficients vs the literature (exhaustive)."""

from fractions import Fraction as F

from vf.core import CaseResult, exc_bucket

ID = "C20"
LEVEL = "exploration"
TECHNIQUE = "exhaustive enumeration against exact rational + zeta literature tables; dispatcher routing"
RULE = (
    "Exhaustive enumeration: every coefficient function (beta_qcd 4 loops, beta_qcd(2,1), beta_qed (0,2),(0,3),(1,2), "
    "gamma_m 1-4 loops) at nf=0..6 (x nl=2,3 where a lepton number enters) compared with tables typed from "
    "Herzog et al. 2017 (3.1-3.6), Surguladze 1996 eq. 7, Vermaseren-Larin-van Ritbergen 1997 eq. 15 in exact "
    "Fractions + zeta(3,4,5) at 30 digits; every dispatcher key on a (0..6)x(0..3) grid and orders 0..6 must route to "
    "the matching coefficient or raise ValueError. Non-trivial = anything but the nf=5 pure-QCD beta values the "
    "suite pins; distinct by (function, nf, nl)."
)
ASSUMPTIONS = [
    "literature tables in this file were typed independently of eko (standard Nc=3 values in a=alpha/4pi normalisation)",
    "relative tolerance 1e-13 (float evaluation of exact rationals and zeta values)",
    "nf > 6 is outside the domain (constants.uplike_flavors refuses it)",
]

# value = q + z3*zeta3 + z4*zeta4 + z5*zeta5, each a polynomial in nf given as list of Fractions


def _poly(coeffs, nf):
    return sum(F(c) * nf**i for i, c in enumerate(coeffs))


# Herzog, Ruijl, Ueda, Vermaseren, Vogt 2017, eqs. (3.1)-(3.6) at Nc=3 (a = alpha_s/4pi)
BETA_QCD = {
    (2, 0): dict(q=[F(11), F(-2, 3)]),
    (3, 0): dict(q=[F(102), F(-38, 3)]),
    (4, 0): dict(q=[F(2857, 2), F(-5033, 18), F(325, 54)]),
    (5, 0): dict(
        q=[F(149753, 6), F(-1078361, 162), F(50065, 162), F(1093, 729)],
        z3=[F(3564), F(-6508, 27), F(6472, 81)],
    ),
}
# Vermaseren, Larin, van Ritbergen 1997 eq. (15) (given for a = alpha_s/pi; multiplied by 4^k here)
GAMMA_M = {
    1: dict(q=[F(4)]),
    2: dict(q=[F(202, 3), F(-20, 9)]),
    3: dict(q=[F(1249), F(-2216, 27), F(-140, 81)], z3=[F(0), F(-160, 3)]),
    4: dict(
        q=[F(4603055, 162), F(-91723, 27), F(5242, 243), F(-332, 243)],
        z3=[F(135680, 27), F(-34192, 9), F(800, 9), F(64, 27)],
        z4=[F(0), F(880), F(-160, 3)],
        z5=[F(-8800), F(18400, 9)],
    ),
}
EU2, ED2 = F(4, 9), F(1, 9)
CF, TR, NC = F(4, 3), F(1, 2), 3


def _nud(nf):
    nu = nf // 2  # u, c, t among the first nf flavours d,u,s,c,b,t
    return nu, nf - nu


def ref_value(name, nf, nl):
    import mpmath as mp

    mp.mp.dps = 30
    if name.startswith("beta_qcd:") or name.startswith("gamma:"):
        kind, k = name.split(":")
        tab = BETA_QCD[tuple(int(x) for x in k.split(","))] if kind == "beta_qcd" else GAMMA_M[int(k)]
        tot = mp.mpf(0)
        for z, zv in (("q", 1), ("z3", mp.zeta(3)), ("z4", mp.zeta(4)), ("z5", mp.zeta(5))):
            if z in tab:
                p = _poly(tab[z], nf)
                tot += mp.mpf(p.numerator) / p.denominator * zv
        return tot
    nu, nd = _nud(nf)
    # Surguladze 1996 eq. (7)
    if name == "beta_qcdx:2,1":
        v = -4 * TR * (nu * EU2 + nd * ED2)
    elif name == "beta_qed:0,2":
        v = F(-4, 3) * (nl + NC * (nu * EU2 + nd * ED2))
    elif name == "beta_qed:0,3":
        v = -4 * (nl + NC * (nu * EU2**2 + nd * ED2**2))
    elif name == "beta_qed:1,2":
        v = -4 * CF * NC * (nu * EU2 + nd * ED2)
    else:
        raise KeyError(name)
    return mp.mpf(v.numerator) / v.denominator


NAMES = (
    [f"beta_qcd:{j},0" for j in (2, 3, 4, 5)]
    + ["beta_qcdx:2,1", "beta_qed:0,2", "beta_qed:0,3", "beta_qed:1,2"]
    + [f"gamma:{k}" for k in (1, 2, 3, 4)]
)


def enumerate_cases(tier):
    cases = []
    for name in NAMES:
        for nf in range(0, 7):
            nls = (2, 3) if name in ("beta_qed:0,2", "beta_qed:0,3") else (3,)
            for nl in nls:
                cases.append({"kind": "value", "name": name, "nf": nf, "nl": nl})
    for j in range(0, 7):
        for k in range(0, 4):
            cases.append({"kind": "route", "family": "qcd", "k": [j, k]})
            cases.append({"kind": "route", "family": "qed", "k": [j, k]})
    for o in range(0, 7):
        cases.append({"kind": "route", "family": "gamma", "k": [o, 0]})
    for nf in range(1, 7):
        for nl in (2, 3):
            cases.append({"kind": "norm", "nf": nf, "nl": nl})
    return cases


def _direct(name, nf, nl):
    from eko import beta, gamma

    table = {
        "beta_qcd:2,0": lambda: beta.beta_qcd_as2(nf),
        "beta_qcd:3,0": lambda: beta.beta_qcd_as3(nf),
        "beta_qcd:4,0": lambda: beta.beta_qcd_as4(nf),
        "beta_qcd:5,0": lambda: beta.beta_qcd_as5(nf),
        "beta_qcdx:2,1": lambda: beta.beta_qcd_as2aem1(nf),
        "beta_qed:0,2": lambda: beta.beta_qed_aem2(nf, nl),
        "beta_qed:0,3": lambda: beta.beta_qed_aem3(nf, nl),
        "beta_qed:1,2": lambda: beta.beta_qed_aem2as1(nf),
        "gamma:1": lambda: gamma.gamma_qcd_as1(),
        "gamma:2": lambda: gamma.gamma_qcd_as2(nf),
        "gamma:3": lambda: gamma.gamma_qcd_as3(nf),
        "gamma:4": lambda: gamma.gamma_qcd_as4(nf),
    }
    return table[name]()


def _via_dispatcher(name, nf, nl):
    from eko import beta, gamma

    kind, k = name.split(":")
    if kind == "gamma":
        return gamma.gamma(int(k), nf)
    kk = tuple(int(x) for x in k.split(","))
    if kind in ("beta_qcd", "beta_qcdx"):
        return beta.beta_qcd(kk, nf)
    return beta.beta_qed(kk, nf, nl)


IMPLEMENTED = {
    "qcd": {(2, 0), (3, 0), (4, 0), (5, 0), (2, 1)},
    "qed": {(0, 2), (0, 3), (1, 2)},
    "gamma": {(1, 0), (2, 0), (3, 0), (4, 0)},
}


def check_case(case):
    from eko import beta, gamma

    res = CaseResult()
    if case["kind"] == "value":
        name, nf, nl = case["name"], case["nf"], case["nl"]
        res.classes = [name.split(":")[0]]
        res.nontrivial = not (name.startswith("beta_qcd:") and name.endswith(",0") and nf == 5)
        ref = ref_value(name, nf, nl)
        for how, fn in (("direct", _direct), ("dispatcher", _via_dispatcher)):
            try:
                val = float(fn(name, nf, nl))
            except Exception as e:  # noqa: BLE001
                res.fail(exc_bucket(f"{ID}/{name}/{how}", e), f"{name} nf={nf} nl={nl}: {e!r}")
                continue
            scale = max(abs(float(ref)), 1e-300)
            if abs(val - float(ref)) > 1e-13 * scale:
                res.fail(
                    f"{ID}/value/{name}",
                    f"{name} via {how} at nf={nf}, nl={nl}: code {val!r} vs literature {float(ref)!r} "
                    f"(rel diff {abs(val - float(ref)) / scale:.3e})",
                )
    elif case["kind"] == "route":
        fam, k = case["family"], tuple(case["k"])
        res.classes = ["route-" + fam]
        res.key = case
        nf, nl = 4, 3
        try:
            if fam == "qcd":
                beta.beta_qcd(k, nf)
            elif fam == "qed":
                beta.beta_qed(k, nf, nl)
            else:
                gamma.gamma(k[0], nf)
            raised = None
        except ValueError:
            raised = "ValueError"
        except Exception as e:  # noqa: BLE001
            raised = type(e).__name__
        if k in IMPLEMENTED[fam]:
            if raised is not None:
                res.fail(f"{ID}/route/{fam}/{k}", f"implemented key {k} raised {raised}")
        elif raised != "ValueError":
            res.fail(f"{ID}/route/{fam}/unimplemented", f"unimplemented key {k}: expected ValueError, got {raised}")
    elif case["kind"] == "norm":
        nf, nl = case["nf"], case["nl"]
        res.classes = ["normalised"]
        for k in IMPLEMENTED["qcd"]:
            want = beta.beta_qcd(k, nf) / beta.beta_qcd((2, 0), nf)
            got = beta.b_qcd(k, nf)
            if abs(got - want) > 1e-14 * abs(want):
                res.fail(f"{ID}/norm/qcd", f"b_qcd{k} nf={nf}: {got} vs {want}")
        for k in IMPLEMENTED["qed"]:
            want = beta.beta_qed(k, nf, nl) / beta.beta_qed((0, 2), nf, nl)
            got = beta.b_qed(k, nf, nl)
            if abs(got - want) > 1e-14 * abs(want):
                res.fail(f"{ID}/norm/qed", f"b_qed{k} nf={nf} nl={nl}: {got} vs {want}")
    return res


def budget(tier):
    return dict(enum_shards=4, wall_s=60)

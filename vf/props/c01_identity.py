"""C01 an EKO whose target equals its initial point is the identity operator."""

import numpy as np

from vf import runner_util as ru
from vf.core import CaseResult, exc_bucket

ID = "C01"
LEVEL = "exploration"
ENGINE = "R"
TECHNIQUE = "Hypothesis-generated tiny runcards solved end to end; oracle = exact identity tensor in the flavour basis"
RULE = (
    "Generated runcards whose mugrid contains the initial point (scale and nf) plus 0-2 other targets: QCD order 1-4 x "
    "QED order 0-2 x 8 solution methods x {unpolarised, polarised, time-like} (also with QED) x nf0 3-6 (any scale, natural or "
    "path-defined nf) x jittered log grids 2-8 points, degree 1-4 x scale variation none (xif 1, 1/2 or 2) / exponentiated (any xif) / "
    "expanded (xif=1). Oracle: stored operator at (mu0^2, nf0) is 1 on (pid,j,pid,j) for the 13 partons, 0 elsewhere; "
    "photon identity with QED, zero row+column without (abs tol 1e-14). Non-trivial = nf0!=4 or QED or polarised/"
    "time-like or sv or another target computed in the same run; distinct by (order, method, flags, nf0, sv, npts, deg, "
    "#targets). Combinations refused with NotImplementedError/ValueError are discarded and counted (C04 decides them)."
)
ASSUMPTIONS = [
    "absolute tolerance 1e-14 per entry (the flavour-basis reconstruction uses small rational weights; measured worst deviation 2.2e-16)",
    "interpreted mode (NUMBA_DISABLE_JIT=1), the mode of the repository's own tests; C48 ties compiled code to it",
    "expanded scale variation only with xif=1 (the property's stated exclusion)",
]
LEVEL_TEXT = (
    "Generated-input exploration of the full runner (cards -> recipes -> parts -> join -> archive) with an exact oracle; "
    "it samples the configuration product the property quantifies over, it does not exhaust it."
)


def budget(tier):
    if tier == "quick":
        return dict(max_examples=320, shards=16, wall_s=70, shrink_s=40)
    return dict(max_examples=6000, shards=16, wall_s=900, shrink_s=200)


def strategy(tier):
    from hypothesis import strategies as st

    flags = ((False, False), (False, False), (True, False), (False, True))
    qcd = ru.st_tiny_card(
        orders=(1, 2, 3, 4), qed=(0,), target_is_init=True, n_extra_targets=(0, 1),
        sv=(None, None, "exponentiated", "expanded"), flags=flags, grid_pts=(2, 8), iters=(1, 3),
    )
    qed = ru.st_tiny_card(
        orders=(1, 2, 3, 4), qed=(1, 2), methods=("iterate-exact",) + tuple(ru.METHODS), target_is_init=True,
        n_extra_targets=(0, 0), sv=(None, "exponentiated", "expanded"), grid_pts=(2, 8), iters=(1, 3), flags=flags,
    )
    qed_extra = ru.st_tiny_card(
        orders=(1, 2), qed=(1, 2), methods=("iterate-exact",), target_is_init=True,
        n_extra_targets=(1, 1), sv=(None,), grid_pts=(2, 3), iters=(1, 2),
    )

    def fix(t):
        case, xif = t
        if case["sv"] == "expanded":
            case["xif"] = 1.0
        elif case["sv"] is None and xif is not None:
            case["xif"] = xif  # a scale ratio without a scheme is inert
        # keep extra targets cheap: at most one and on small grids
        if len(case["mugrid"]) > 1 and len(case["xgrid"]) > 4:
            case["mugrid"] = case["mugrid"][:1]
        return case

    return st.tuples(st.one_of(qcd, qcd, qcd, qed, qed_extra), st.sampled_from((None, 0.5, 2.0))).map(fix)


def expected_identity(n, qed):
    exp = np.zeros((14, n, 14, n))
    for p in range(14):
        if p == 0 and not qed:
            continue
        for j in range(n):
            exp[p, j, p, j] = 1.0
    return exp


def check_case(case):
    res = CaseResult()
    c = ru.full(case)
    qed = c["order"][1] > 0
    n = len(c["xgrid"])
    res.key = [c["order"], c["method"], c["pol"], c["tl"], c["init"][1], c["sv"], n, c["deg"], len(c["mugrid"])]
    res.classes = [
        f"order={c['order'][0]},{c['order'][1]}", f"method={c['method']}", f"nf0={c['init'][1]}", f"sv={c['sv']}",
        f"pol={c['pol']}", f"tl={c['tl']}", f"targets={len(c['mugrid'])}",
    ]
    res.nontrivial = bool(
        c["init"][1] != 4 or qed or c["pol"] or c["tl"] or c["sv"] is not None or len(c["mugrid"]) > 1
    )
    try:
        ops = ru.solve(case)
    except (NotImplementedError, ValueError) as e:
        return CaseResult(discarded=f"refused:{type(e).__name__}")
    except Exception as e:  # noqa: BLE001 - crashes are C04's verdict ("finite or cleanly refused"), not this property's
        return CaseResult(discarded=exc_bucket("crash(decided by C04)", e))
    mu0, nf0 = c["init"]
    ep = None
    for k in ops:
        if k[1] == nf0 and k[0] == mu0**2:
            ep = k
    if ep is None:
        res.fail(f"{ID}/missing-point", f"no operator stored for the initial point {(mu0**2, nf0)}; keys {sorted(ops)}")
        return res
    op, err = ops[ep]
    exp = expected_identity(n, qed)
    if op.shape != exp.shape:
        res.fail(f"{ID}/shape", f"operator shape {op.shape} != {exp.shape}")
        return res
    dev = np.abs(op - exp)
    if not np.all(np.isfinite(op)) or dev.max() > 1e-14:
        idx = np.unravel_index(np.nanargmax(dev), dev.shape)
        which = "photon" if 0 in (idx[0], idx[2]) else ("diag" if idx[0] == idx[2] else "offdiag")
        res.fail(
            f"{ID}/not-identity/{which}/qed={qed}",
            f"entry {tuple(int(i) for i in idx)} = {op[idx]!r}, expected {exp[idx]!r}; max dev {dev.max():.3e}",
        )
    return res

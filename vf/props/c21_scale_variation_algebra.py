"""C21 scale-variation prescriptions equal their renormalisation-group expansions.

Oracle: the generic series algebra of ``vf.refs.series`` (Picard iteration of the RGE with literature beta
coefficients, composition, truncated path-ordered exponential with ordered matrix products).  Nothing here is
copied from eko's hand-expanded formulas or from MHOU.rst; the docs only fix the conventions:

* pQCD.rst:   d a / d ln mu^2 = - sum_k beta_k a^(k+2)            (beta_k > 0)
* DGLAP.rst:  d f / d ln mu^2 = - gamma(a) f ,  gamma(a) = sum_j a^(j+1) gamma_j
* MHOU.rst:   exponentiated: gamma(a(Q^2)) = sum_j a(rho Q^2)^(j+1) gammabar_j ,  L = ln rho
              expanded:      K(a(rho Q^2)) E(rho Q^2 <- Q^2) = 1 + higher orders  =>  K = E(Q^2 <- rho Q^2)

With t = ln(rho Q^2 / mu^2) in [0, L] and a' = a(rho Q^2):  da/dt = + sum beta_k a^(k+2), a(0) = a',
dF/dt = + gamma(a(t)) F, F(0) = 1, K = F(L) (later "times" to the left).
"""

import math

from hypothesis import strategies as st

from vf.core import CaseResult, exc_bucket
from vf.strategies import floats

ID = "C21"
LEVEL = "exploration"
TECHNIQUE = (
    "random numeric instantiation of polynomial identities (random complex non-commuting matrices, L, couplings) "
    "against a generic truncated power-series algebra (Picard-iterated RGE, composition, path-ordered exponential); "
    "plus an enumerated symbolic part (sympy non-commutative symbols, symbolic L) for every order and nf"
)
RULE = (
    "Generated: function family (exponentiated gamma_variation on scalar / 2x2 / 3x3 (matching-shaped) / 4x4 towers; "
    "expanded non_singlet_variation / singlet_variation dim 2,4; the QED variants gamma_variation_qed and "
    "{non_singlet,singlet,valence}_variation_qed on (order_qcd+1, order_qed+1)-shaped grids with alpha_em running "
    "on and off), order 1-4, QED order 1-2, nf 3-6, nl 2-3, L in [-2.5,2.5], a_s, a_em log-uniform in [1e-3,1] "
    "(the kernels are polynomials in the couplings), complex towers with |gamma_k| ~ 10^k from a Hypothesis-drawn "
    "seed, structure generic (non-commuting) / commuting / diagonal.  Enumerated: symbolic identity in "
    "non-commutative sympy symbols and symbolic L for orders 1-4 x nf 3-6 (gamma_variation; variation_as1/2/3 fed with "
    "ordered products as singlet_variation forms them; non_singlet_variation itself on commutative symbols).  Non-trivial = order >= 3, |L| >= 0.3 and (for matrix towers) relative "
    "commutator norm of gamma_0, gamma_1 > 0.1; distinct by the full case."
)
ASSUMPTIONS = [
    "beta coefficients of the oracle are the literature tables of C20 (Herzog et al. 2017, Surguladze 1996), not eko.beta",
    "sign and scale conventions from pQCD.rst / DGLAP.rst / MHOU.rst as quoted in the module docstring",
    "tolerance 1e-10 relative to the sum of magnitudes of all terms of the expansion (oracle re-run on norms)",
    "the expanded kernel at perturbative order n is the path-ordered exponential truncated after a^(n-1) (the power "
    "counting of AbdulKhalek:2019ihb eq. 3.35 and of the callers; MHOU.rst's upper summation limit N+1 is read as "
    "a labelling slip because it would use gamma_N beyond the requested accuracy at LO)",
    "QED variants: each pure axis follows the generic rule (a_s axis always; a_em axis only with running alpha_em and "
    "QED order 2, with beta_qed^(0,2)); mixed a_s a_em terms are left untouched as the code documents",
    "a polynomial identity that holds on hundreds of random complex points of this size holds identically",
]
LEVEL_TEXT = (
    "Exploration: every scale-variation function is compared, on random complex non-commuting inputs and "
    "symbolically for each order and nf, with expansions derived generically from the RGE by an independent series "
    "algebra; a wrong rational factor, a swapped product or a missing return is found with certainty on the first "
    "case that reaches that branch, but the identity is not proven for all inputs."
)

FAMILIES = [
    "exp/ns",
    "exp/singlet",
    "exp/ome3",
    "exp/qed4",
    "expd/ns",
    "expd/singlet",
    "expd/dim4",
    "exp_qed/ns",
    "exp_qed/singlet",
    "exp_qed/valence",
    "expd_qed/ns",
    "expd_qed/singlet",
    "expd_qed/valence",
]
TOL = 1e-10


def budget(tier):
    if tier == "quick":
        return dict(max_examples=2000, shards=8, wall_s=60, shrink_s=30, enum_shards=4)
    return dict(max_examples=30000, shards=16, wall_s=600, shrink_s=120, enum_shards=8)


# ------------------------------------------------------------------------------------------------ generation


@st.composite
def _case(draw):
    fam = draw(st.sampled_from(FAMILIES))
    order = draw(st.sampled_from([1, 2, 3, 3, 4, 4, 4]))
    case = {
        "kind": "num",
        "family": fam,
        "order": order,
        "nf": draw(st.integers(3, 6)),
        "L": draw(st.one_of(floats(-2.5, 2.5), st.sampled_from([0.0, math.log(2.0), -math.log(4.0), 1.0]))),
        "seed": draw(st.integers(0, 2**31 - 1)),
        "structure": draw(st.sampled_from(["generic", "generic", "generic", "commuting", "diagonal"])),
    }
    if fam.startswith("expd"):
        case["a_s"] = draw(floats(math.log(1e-3), 0.0).map(math.exp))
    if "_qed" in fam:
        case["qed"] = draw(st.integers(1, 2))
        case["nl"] = draw(st.integers(2, 3))
        case["running"] = draw(st.booleans())
        if fam.startswith("expd"):
            case["a_em"] = draw(floats(math.log(1e-3), 0.0).map(math.exp))
    return case


def strategy(tier):
    return _case()


def enumerate_cases(tier):
    out = []
    for nf in range(3, 7):
        for order in range(1, 5):
            out.append({"kind": "sym", "which": "exponentiated", "order": order, "nf": nf})
            out.append({"kind": "sym", "which": "expanded", "order": order, "nf": nf})
            out.append({"kind": "sym", "which": "expanded-ns-dispatcher", "order": order, "nf": nf})
    return out


def _dim(fam):
    tail = fam.split("/")[1]
    return {"ns": 0, "singlet": 2 if fam.startswith("exp/") or fam.startswith("expd/") else 4, "ome3": 3,
            "qed4": 4, "dim4": 4, "valence": 2}[tail]


def _random_element(rng, dim, structure, scale, basis):
    """One tower element: scalar (dim 0) or dim x dim complex matrix of typical size ``scale``."""
    import numpy as np

    if dim == 0:
        return complex(rng.normal(), rng.normal()) * scale
    if structure == "generic":
        return (rng.normal(size=(dim, dim)) + 1j * rng.normal(size=(dim, dim))) * scale
    d = np.diag(rng.normal(size=dim) + 1j * rng.normal(size=dim)) * scale
    if structure == "diagonal":
        return d
    return basis @ d @ np.linalg.inv(basis)  # commuting family: common eigenbasis


def _basis(rng, dim):
    import numpy as np

    if dim == 0:
        return None
    q, _ = np.linalg.qr(rng.normal(size=(dim, dim)) + 1j * rng.normal(size=(dim, dim)))
    return q @ np.diag(1.0 + rng.random(dim))  # cond <= 2


def build_tower(case):
    """QCD tower [gamma_0..gamma_{n-1}] (list) or QED grid dict {(i,j): element}; all numpy / complex."""
    import numpy as np

    rng = np.random.default_rng(case["seed"])
    dim = _dim(case["family"])
    basis = _basis(rng, dim)
    n = case["order"]
    if "_qed" not in case["family"]:
        return [_random_element(rng, dim, case["structure"], 10.0**k / 3.0, basis) for k in range(n)]
    m = case["qed"]
    grid = {}
    for i in range(n + 1):
        for j in range(m + 1):
            if i == 0 and j == 0:
                grid[(i, j)] = 0.0 * _random_element(rng, dim, case["structure"], 1.0, basis)
            else:
                grid[(i, j)] = _random_element(rng, dim, case["structure"], 10.0 ** (i + j - 1) / 3.0, basis)
    return grid


# ------------------------------------------------------------------------------------------------ oracle


def _betas(nf, n):
    from vf.props.c20_coefficients import ref_value

    return [float(ref_value(f"beta_qcd:{k + 2},0", nf, 3)) for k in range(n)]


def _beta_qed0(nf, nl):
    from vf.props.c20_coefficients import ref_value

    return float(ref_value("beta_qed:0,2", nf, nl))


def _wrap(x):
    from vf.refs.series import Mat

    import numpy as np

    return Mat(x) if isinstance(x, np.ndarray) else x


def _unwrap(x, like):
    """Coefficient -> numpy array / complex, shaped like the input elements."""
    import numpy as np

    from vf.refs.series import Mat

    if isinstance(x, Mat):
        return x.m
    if isinstance(like, np.ndarray):
        return complex(x) * np.eye(like.shape[0])
    return complex(x)


def ref_exponentiated(gammas, betas, L):
    """[gammabar_0 .. gammabar_{n-1}]: coefficients of a'^(j+1) in sum_j gamma_j a(L)^(j+1)."""
    from vf.refs import series as S

    n = len(gammas)
    a_t = S.at_time(S.running_coupling(betas[: max(n - 1, 0)], n), L)
    comp = S.tower([_wrap(g) for g in gammas], a_t)
    return [comp.c[j + 1] for j in range(n)]


def ref_expanded(gammas, betas, L, n_terms):
    """[K_0 .. K_{n_terms}]: path-ordered exponential over t in [0, L], as coefficients of a'^j."""
    from vf.refs import series as S

    N = n_terms
    if N == 0:
        return [1]
    a_t = S.running_coupling(betas[: max(N - 1, 0)], N)
    Gam = S.tower([_wrap(g) for g in gammas[:N]], a_t)
    F = S.at_time(S.ordered_exp(Gam, N, side="left"), L)
    return list(F.c)


def _norm(x):
    import numpy as np

    if isinstance(x, np.ndarray):
        return float(np.linalg.norm(x, 2)) if x.ndim == 2 else float(abs(x))
    return abs(complex(x))


def _absdiff(x, y):
    import numpy as np

    return float(np.max(np.abs(np.asarray(x) - np.asarray(y))))


def _commutator(g):
    import numpy as np

    if len(g) < 2 or not isinstance(g[0], np.ndarray):
        return 0.0
    den = _norm(g[0]) * _norm(g[1])
    return _norm(g[0] @ g[1] - g[1] @ g[0]) / den if den > 0 else 0.0


# ------------------------------------------------------------------------------------------------ the check


def check_case(case):
    if case["kind"] == "sym":
        return _check_symbolic(case)
    return _check_numeric(case)


def _classes(case, comm):
    cl = [case["family"], f"order={case['order']}", case["structure"]]
    if "running" in case:
        cl.append(f"qed={case['qed']}/running={case['running']}")
    if comm > 0.1:
        cl.append("non-commuting")
    return cl


def _check_numeric(case):
    import numpy as np

    fam, n, nf, L = case["family"], case["order"], case["nf"], case["L"]
    res = CaseResult()
    tw = build_tower(case)
    qed = "_qed" in fam
    qcd_axis = [tw[(i, 0)] for i in range(1, n + 1)] if qed else tw
    comm = _commutator(qcd_axis)
    res.classes = _classes(case, comm)
    is_matrix = isinstance(qcd_axis[0], np.ndarray)
    res.nontrivial = n >= 3 and abs(L) >= 0.3 and (comm > 0.1 or not is_matrix)
    betas = _betas(nf, 4)
    abs_axis = [_norm(g) for g in qcd_axis]
    abs_betas = [abs(b) for b in betas]

    if fam.startswith("exp/"):
        _exp_qcd(case, res, qcd_axis, betas, abs_axis, abs_betas)
    elif fam.startswith("expd/"):
        _expd_qcd(case, res, qcd_axis, betas, abs_axis, abs_betas)
    elif fam.startswith("exp_qed/"):
        _exp_qed(case, res, tw, betas, abs_betas)
    else:
        _expd_qed(case, res, tw, betas, abs_betas)
    return res


def _stack(lst):
    import numpy as np

    return np.array(lst, dtype=np.complex128)


def _exp_qcd(case, res, gammas, betas, abs_axis, abs_betas):
    from eko.scale_variations import exponentiated

    n, nf, L = case["order"], case["nf"], case["L"]
    arr = _stack(gammas)
    inp = arr.copy()
    try:
        out = exponentiated.gamma_variation(inp, (n, 0), nf, L)
    except Exception as e:  # noqa: BLE001
        res.fail(exc_bucket(f"{ID}/exponentiated/call", e), repr(e))
        return
    if out is None:
        res.fail(f"{ID}/exponentiated/returns-None", "gamma_variation returned None")
        return
    ref = ref_exponentiated(gammas, betas, L)
    scale = ref_exponentiated(abs_axis, abs_betas, abs(L))
    for j in range(n):
        want = _unwrap(ref[j], gammas[j])
        d = _absdiff(out[j], want)
        if d > TOL * float(scale[j]):
            res.fail(
                f"{ID}/exponentiated/order={n}/coefficient={j}",
                f"gamma_variation order={n} nf={nf} L={L}: gammabar_{j} differs from the RG re-expansion by {d:.3e} "
                f"(scale {float(scale[j]):.3e}); code {np_str(out[j])} vs series {np_str(want)}",
            )


def np_str(x):
    import numpy as np

    return np.array2string(np.asarray(x), precision=6, max_line_width=200).replace("\n", " ")


def _expd_value(case, gammas):
    from eko.scale_variations import expanded

    fam, n, nf, L, a = case["family"], case["order"], case["nf"], case["L"], case["a_s"]
    arr = _stack(gammas)
    if fam.endswith("/ns"):
        return expanded.non_singlet_variation(arr, a, (n, 0), nf, L)
    return expanded.singlet_variation(arr, a, (n, 0), nf, L, arr.shape[1])


def _sum_series(coeffs, a, like):
    tot = 0
    for j, c in enumerate(coeffs):
        tot = tot + _unwrap(c, like) * a**j
    return tot


def _expd_qcd(case, res, gammas, betas, abs_axis, abs_betas):
    n, nf, L, a = case["order"], case["nf"], case["L"], case["a_s"]
    try:
        out = _expd_value(case, gammas)
    except Exception as e:  # noqa: BLE001
        res.fail(exc_bucket(f"{ID}/expanded/call", e), repr(e))
        return
    ref = ref_expanded(gammas, betas, L, n - 1)
    scale = float(_sum_series(ref_expanded(abs_axis, abs_betas, abs(L), n - 1), a, 0.0).real)
    want = _sum_series(ref, a, gammas[0])
    d = _absdiff(out, want)
    if d > TOL * scale:
        res.fail(
            f"{ID}/expanded/{case['family'].split('/')[1]}/order={n}",
            f"{case['family']} order={n} nf={nf} L={L} a_s={a}: kernel differs from the truncated path-ordered "
            f"exponential by {d:.3e} (scale {scale:.3e}); code {np_str(out)} vs series {np_str(want)}",
        )


def _qed_array(case, tw):
    import numpy as np

    n, m = case["order"], case["qed"]
    first = tw[(0, 0)]
    shape = (n + 1, m + 1) + (first.shape if isinstance(first, np.ndarray) else ())
    arr = np.zeros(shape, dtype=np.complex128)
    for (i, j), v in tw.items():
        arr[i, j] = v
    return arr


def _exp_qed(case, res, tw, betas, abs_betas):
    import numpy as np

    from eko.scale_variations import exponentiated

    n, m, nf, nl, L, running = case["order"], case["qed"], case["nf"], case["nl"], case["L"], case["running"]
    arr = _qed_array(case, tw)
    inp = arr.copy()
    tag = "running" if running else "fixed-aem"
    try:
        out = exponentiated.gamma_variation_qed(inp, (n, m), nf, nl, L, running)
    except Exception as e:  # noqa: BLE001
        res.fail(exc_bucket(f"{ID}/exponentiated-qed/call/{tag}", e), repr(e))
        return
    if out is None:
        res.fail(
            f"{ID}/exponentiated-qed/returns-None/{tag}",
            f"gamma_variation_qed(order=({n},{m}), nf={nf}, nl={nl}, L={L}, alphaem_running={running}) returned None "
            "instead of the adjusted anomalous dimensions (the in-place modified argument is checked below)",
        )
        out = inp  # the caller would crash; still judge what was done in place
    want = arr.copy()
    scale = np.zeros(arr.shape[:2])
    qcd_axis = [tw[(i, 0)] for i in range(1, n + 1)]
    ref = ref_exponentiated(qcd_axis, betas, L)
    sc = ref_exponentiated([_norm(g) for g in qcd_axis], abs_betas, abs(L))
    for j in range(n):
        want[j + 1, 0] = _unwrap(ref[j], qcd_axis[j])
        scale[j + 1, 0] = float(sc[j])
    if running:
        qed_axis = [tw[(0, j)] for j in range(1, m + 1)]
        bq = [_beta_qed0(nf, nl)]
        refq = ref_exponentiated(qed_axis, bq, L)
        scq = ref_exponentiated([_norm(g) for g in qed_axis], [abs(bq[0])], abs(L))
        for j in range(m):
            want[0, j + 1] = _unwrap(refq[j], qed_axis[j])
            scale[0, j + 1] = float(scq[j])
    for i in range(n + 1):
        for j in range(m + 1):
            d = _absdiff(out[i, j], want[i, j])
            s = max(scale[i, j], _norm(arr[i, j]))
            if d > TOL * s:
                axis = "qcd-axis" if j == 0 else ("qed-axis" if i == 0 else "mixed")
                res.fail(
                    f"{ID}/exponentiated-qed/{axis}/{tag}/entry={i},{j}",
                    f"gamma_variation_qed order=({n},{m}) nf={nf} nl={nl} L={L} running={running}: entry [{i},{j}] "
                    f"differs by {d:.3e} (scale {s:.3e}); code {np_str(out[i, j])} vs expected {np_str(want[i, j])}",
                )


def _expd_qed(case, res, tw, betas, abs_betas):
    from eko.scale_variations import expanded

    fam = case["family"]
    n, m, nf, nl, L, running = case["order"], case["qed"], case["nf"], case["nl"], case["L"], case["running"]
    a_s, a_em = case["a_s"], case["a_em"]
    arr = _qed_array(case, tw)
    fn = {
        "ns": expanded.non_singlet_variation_qed,
        "singlet": expanded.singlet_variation_qed,
        "valence": expanded.valence_variation_qed,
    }[fam.split("/")[1]]
    tag = "running" if running else "fixed-aem"
    try:
        out = fn(arr.copy(), a_s, a_em, running, (n, m), nf, L)
    except Exception as e:  # noqa: BLE001
        res.fail(exc_bucket(f"{ID}/expanded-qed/call/{tag}", e), repr(e))
        return
    if out is None:
        res.fail(f"{ID}/expanded-qed/returns-None/{tag}", f"{fn.__name__} returned None")
        return
    qcd_axis = [tw[(i, 0)] for i in range(1, n + 1)]
    want = _sum_series(ref_expanded(qcd_axis, betas, L, n - 1), a_s, qcd_axis[0])
    scale = float(
        _sum_series(ref_expanded([_norm(g) for g in qcd_axis], abs_betas, abs(L), n - 1), a_s, 0.0).real
    )
    if running:
        qed_axis = [tw[(0, j)] for j in range(1, m + 1)]
        bq = [_beta_qed0(nf, nl)]
        kq = ref_expanded(qed_axis, bq, L, m - 1)
        want = want + _sum_series(kq[1:], a_em, qed_axis[0]) * a_em
        scale += float(
            _sum_series(ref_expanded([_norm(g) for g in qed_axis], [abs(bq[0])], abs(L), m - 1)[1:], a_em, 0.0).real
        ) * a_em
    d = _absdiff(out, want)
    if d > TOL * scale:
        res.fail(
            f"{ID}/expanded-qed/{fam.split('/')[1]}/{tag}/order={n},{m}",
            f"{fn.__name__} order=({n},{m}) nf={nf} L={L} a_s={a_s} a_em={a_em} running={running}: differs from "
            f"K_QCD(a_s) + [running, QED order 2] a_em L gamma^(0,1) by {d:.3e} (scale {scale:.3e}); "
            f"code {np_str(out)} vs series {np_str(want)}",
        )


# ------------------------------------------------------------------------------------------------ symbolic part


def _sym_max_coeff(expr):
    """Largest |numeric coefficient| of an expanded sympy expression."""
    import sympy as sp

    expr = sp.expand(expr)
    if expr == 0:
        return 0.0
    terms = expr.as_ordered_terms()
    big = 0.0
    for t in terms:
        c, _ = t.as_coeff_Mul()
        big = max(big, abs(complex(c)))
    return big


def _check_symbolic(case):
    import sympy as sp

    from eko.scale_variations import expanded, exponentiated
    from vf.refs import series as S

    n, nf, which = case["order"], case["nf"], case["which"]
    res = CaseResult(classes=[f"symbolic/{which}", f"order={n}"], nontrivial=n >= 3, key=case)
    g = list(sp.symbols(f"g0:{n}", commutative=(which == "expanded-ns-dispatcher")))
    Ls = sp.Symbol("L")
    betas = [sp.Float(b, 17) for b in _betas(nf, 4)]
    if which == "exponentiated":
        code = list(g)
        try:
            out = exponentiated.gamma_variation(code, (n, 0), nf, Ls)
        except Exception as e:  # noqa: BLE001
            res.fail(exc_bucket(f"{ID}/symbolic/exponentiated/call", e), repr(e))
            return res
        if out is None:
            res.fail(f"{ID}/symbolic/exponentiated/returns-None", "gamma_variation returned None")
            return res
        a_t = S.at_time(S.running_coupling(betas[: max(n - 1, 0)], n), Ls)
        comp = S.tower(g, a_t)
        for j in range(n):
            d = _sym_max_coeff(out[j] - comp.c[j + 1])
            tol = TOL * max(1.0, _sym_max_coeff(comp.c[j + 1]))
            if d > tol:
                res.fail(
                    f"{ID}/symbolic/exponentiated/order={n}/coefficient={j}",
                    f"nf={nf}: gammabar_{j} - series = {sp.expand(out[j] - comp.c[j + 1])}",
                )
        return res
    a = sp.Symbol("a")
    try:
        if which == "expanded-ns-dispatcher":
            # commutative symbols straight through the real dispatcher
            ker = expanded.non_singlet_variation(g, a, (n, 0), nf, Ls)
        else:
            # non-commutative symbols: variation_as1/2/3 fed with ordered products as singlet_variation forms them
            ker = sp.Integer(1)
            if n >= 2:
                ker += a * expanded.variation_as1(g, Ls)
            if n >= 3:
                ker += a**2 * expanded.variation_as2(g, Ls, betas_code(nf)[0], g[0] * g[0])
            if n >= 4:
                b0, b1 = betas_code(nf)
                ker += a**3 * expanded.variation_as3(
                    g, Ls, b0, b1, g[0] * g[0], g[0] * g[0] * g[0], g[1] * g[0], g[0] * g[1]
                )
    except Exception as e:  # noqa: BLE001
        res.fail(exc_bucket(f"{ID}/symbolic/expanded/call", e), repr(e))
        return res
    N = n - 1
    ref = sp.Integer(1)
    if N >= 1:
        a_t = S.running_coupling(betas[: max(N - 1, 0)], N)
        F = S.at_time(S.ordered_exp(S.tower(g[:N], a_t), N), Ls)
        ref = sum((F.c[k] * a**k for k in range(1, N + 1)), sp.Integer(1))
    d = _sym_max_coeff(ker - ref)
    if d > TOL * max(1.0, _sym_max_coeff(ref)):
        res.fail(f"{ID}/symbolic/{which}/order={n}", f"nf={nf}: code - series = {sp.expand(ker - ref)}")
    return res


def betas_code(nf):
    """beta_0, beta_1 exactly as the dispatchers of eko.scale_variations.expanded obtain them."""
    from eko import beta

    return beta.beta_qcd_as2(nf), beta.beta_qcd((3, 0), nf)

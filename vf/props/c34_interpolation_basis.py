"""C34 the interpolation basis is a partition of unity that reproduces polynomials (and the constructor's contract)."""

import math

import numpy as np

from vf.core import CaseResult, exc_bucket

ID = "C34"
LEVEL = "exploration"
ENGINE = "I"
TECHNIQUE = (
    "Hypothesis-built grids/points/targets/polynomials; oracle = validity predicates (sum=1, Kronecker, polynomial "
    "reproduction, re-interpolation of polynomials, ValueError contract) + exact-rational product-form Lagrange basis "
    "with the block rule of Interpolation.rst"
)
RULE = (
    "Grids built by construction from positive steps (uniform / +-50% jitter / wild 0.02-1 step ratios): 2-40 points "
    "(half of them <= 8), log mode with x_min 10^-9..10^-0.5 (boosted below 1e-7) and last point 1, linear mode on "
    "[x_min,1]; degree 1-6 <= points-1; mode_N on/off. Per grid: all nodes (Kronecker), 4-8 evaluation points (area "
    "interior, area boundaries, nodes +-1 ulp), one polynomial of degree <= deg in ln x (log) / x (linear) with "
    "coefficients +-[0.1,1] on the grid's normalised variable, one target grid for get_interpolation: random points "
    "(same or different length), the nodes themselves, the nodes with every point below 1e-7 (at least the lowest) "
    "moved up by a factor 1.5-3, or the nodes jittered by a relative 1e-7..8e-6. Separate 'reject' cases: repeated "
    "point, fewer than degree+1 points, fewer than 2 points, degree < 1, passed as list, tuple, numpy array or XGrid (built from a list or an array; ordered or not), must raise "
    "ValueError. Non-trivial = (>= 5 points, non-uniform spacing, degree >= 2) or a target grid that differs from "
    "the nodes, or a reject case; distinct by the whole case."
)
KAPPA = 64.0
EPS = 2.220446049250313e-16
ASSUMPTIONS = [
    "tolerance per assertion = max(1e-9 * L, 64 * eps * S) with L the Lebesgue-type sum of the statement (sum_j |p_j(x)| "
    "resp. sum_j |P(x_j) p_j(x)|, exact) as planned in DESIGN, and S the exact magnitude sum_i |c_i| |u|_max^i of the "
    "monomial terms of the active Lagrange polynomials (DESIGN section 2: scale = largest magnitude entering the "
    "cancellation); the code stores each polynomial as monomial coefficients in ln x (the form its Mellin transform "
    "needs), whose evaluation is conditioned by S, not by L (measured error <= 12 eps S over 3 x 2400 points; "
    "S reaches 1e-9 for 50 points / degree 4 and 1e-5..1e-3 for 40 wild points / degree 6). Kronecker: max(1e-12, 64 eps S)",
    "u = ln x is computed with numpy's log exactly as the code does (scalar and vector np.log agree bitwise in this "
    "build; math.log differs in 0.01% of the inputs), everything after that is exact rational arithmetic on the floats",
    "basis functions are continuous across area boundaries, so a one-ulp disagreement about the active area is invisible",
    "block rule taken from Interpolation.rst steps 2-4 (most central block, ties to the block closer to x=1, most "
    "central admissible block at the borders), implemented as an arg-min, not with the code's index arithmetic",
    "in-domain grids end at x=1, are sorted and strictly increasing; unsorted input and x outside (0,1] are not generated",
]
LEVEL_TEXT = (
    "Generated-input exploration with an exact oracle: every listed clause of the property (partition of unity, "
    "Kronecker, polynomial reproduction, re-interpolation to arbitrary target grids, constructor contract) is decided "
    "per case; the input space (grids x degree x points x targets) is sampled, not exhausted."
)


def budget(tier):
    if tier == "quick":
        return dict(max_examples=1500, shards=12, wall_s=80, shrink_s=20)
    return dict(max_examples=25000, shards=16, wall_s=800, shrink_s=60)


# --------------------------------------------------------------------------- generation


def build_grid(log, xmin_exp, steps):
    """Strictly increasing grid from positive steps; last point exactly 1."""
    cum = [0.0]
    for s in steps:
        cum.append(cum[-1] + s)
    tot = cum[-1]
    xmin = 10.0 ** (-xmin_exp)
    if log:
        span = -math.log(xmin)
        grid = [math.exp(-span * (1.0 - c / tot)) for c in cum]
    else:
        grid = [xmin + (1.0 - xmin) * c / tot for c in cum]
    grid[-1] = 1.0
    return grid


def strategy(tier):
    from hypothesis import strategies as st

    fl = lambda a, b: st.floats(a, b, allow_nan=False, allow_infinity=False)  # noqa: E731

    shared_rng = st.shared(st.integers(0, 2**32 - 1).map(np.random.default_rng), key="rng")

    def pick(draw, options):
        # Categorical choice.  Hypothesis' integers / sampled_from / one_of are far from uniform when a shard only gets
        # ~50-100 examples (measured: 18% of integers(0, 2**32) are exactly 0, 50% are = 0 mod 3), so the index is offset by
        # a numpy Generator seeded with a Hypothesis-drawn integer: uniform for every non-degenerate seed, still
        # shrinkable (seed -> 0, index -> 0).
        rng = draw(shared_rng)
        return options[(draw(st.integers(0, len(options) - 1)) + int(rng.integers(len(options)))) % len(options)]

    @st.composite
    def grid_parts(draw, nmin=2, nmax=40):
        log = draw(st.booleans())
        n = draw(st.one_of(st.integers(nmin, min(8, nmax)), st.integers(nmin, nmax)))
        shape = pick(draw, ["uniform", "jitter", "jitter", "wild"])
        if shape == "uniform":
            steps = [1.0] * (n - 1)
        elif shape == "jitter":
            steps = draw(st.lists(fl(0.5, 1.5), min_size=n - 1, max_size=n - 1))
        else:
            steps = draw(st.lists(fl(0.02, 1.0), min_size=n - 1, max_size=n - 1))
        xmin_exp = draw(st.one_of(fl(0.5, 9.0), fl(7.2, 9.0)))
        grid = build_grid(log, xmin_exp, steps)
        return log, n, shape, grid

    @st.composite
    def basis(draw):
        log, n, shape, grid = draw(grid_parts())
        deg = pick(draw, list(range(1, min(6, n - 1) + 1)))
        # evaluation points
        evals = []
        for _ in range(draw(st.integers(4, 8))):
            i = draw(st.integers(0, n - 2))
            where = pick(draw, ["in", "in", "lo", "hi", "lo+", "hi-", "hi+", "lo-"])
            a, b = grid[i], grid[i + 1]
            if where == "in":
                t = draw(fl(0.0, 1.0))
                x = math.exp(math.log(a) + t * (math.log(b) - math.log(a))) if log else a + t * (b - a)
            elif where == "lo":
                x = a
            elif where == "hi":
                x = b
            elif where == "lo+":
                x = math.nextafter(a, math.inf)
            elif where == "lo-":
                x = math.nextafter(a, -math.inf)
            elif where == "hi-":
                x = math.nextafter(b, -math.inf)
            else:
                x = math.nextafter(b, math.inf)
            evals.append(min(max(x, grid[0]), grid[-1]))
        # polynomial
        pdeg = draw(st.integers(0, deg))
        poly = [
            (a if sgn else -a)
            for sgn, a in draw(st.lists(st.tuples(st.booleans(), fl(0.1, 1.0)), min_size=pdeg + 1, max_size=pdeg + 1))
        ]  # coefficients of size 0.1..1: P = O(1), so that deviations read as what they are
        # target grid
        tk = pick(draw, ["random", "random-same-length", "nodes", "lowshift", "lowshift", "jitter"])
        if tk in ("random", "random-same-length"):
            m = n if tk == "random-same-length" else draw(st.integers(1, 12))
            ts = draw(st.lists(fl(0.0, 1.0), min_size=m, max_size=m))
            lo = grid[0]
            if log:
                tgt = [math.exp(math.log(lo) * (1.0 - t)) for t in ts]
            else:
                tgt = [lo + (1.0 - lo) * t for t in ts]
            tgt = [min(max(x, lo), 1.0) for x in tgt]
        elif tk == "nodes":
            tgt = list(grid)
        elif tk == "lowshift":
            f = draw(fl(1.5, 3.0))
            tgt = [x * f if (x < 1e-7 or k == 0) else x for k, x in enumerate(grid)]
            tgt = [min(x, 1.0) for x in tgt]
        else:
            ds = draw(st.lists(fl(1e-7, 8e-6), min_size=n, max_size=n))
            tgt = [x * (1.0 + d) if k == 0 else x * (1.0 - d) for k, (x, d) in enumerate(zip(grid, ds))]
            tgt = [min(max(x, grid[0]), 1.0) for x in tgt]
        return {
            "kind": "basis", "log": log, "shape": shape, "grid": grid, "deg": deg,
            "mode_N": draw(st.booleans()), "evals": evals, "poly": poly, "target_kind": tk, "target": tgt,
        }  # fmt: skip

    @st.composite
    def reject(draw):
        why = pick(draw, ["repeated", "too-few-for-degree", "lt2", "deg<1"])
        via = draw(st.sampled_from(["list", "XGrid", "ndarray", "XGrid-ndarray", "tuple"]))
        if why == "lt2":
            log = draw(st.booleans())
            grid = draw(st.sampled_from([[], [1.0], [0.1], [1e-7]]))
            deg = draw(st.integers(1, 3))
            return {"kind": "reject", "why": why, "via": via, "log": log, "grid": grid, "deg": deg}
        log, n, shape, grid = draw(grid_parts(2, 12))
        if why == "repeated":
            k = draw(st.integers(0, n - 1))
            pos = draw(st.integers(0, n))
            grid = grid[:pos] + [grid[k]] + grid[pos:]
            if draw(st.booleans()):
                grid = sorted(grid)  # an ordered grid with a repeated point must be refused as well
            deg = draw(st.integers(1, min(6, n - 1)))
        elif why == "too-few-for-degree":
            deg = draw(st.integers(n, n + 3))
        else:
            deg = draw(st.sampled_from([0, 0, -1, -2, -7]))
        return {"kind": "reject", "why": why, "via": via, "log": log, "grid": grid, "deg": deg}

    @st.composite
    def any_case(draw):
        return draw(reject()) if pick(draw, [0, 1, 1, 1, 1, 1]) == 0 else draw(basis())

    return any_case()


# --------------------------------------------------------------------------- oracle


def _u(log, x):
    """The interpolation variable of a point, computed as the code computes it (numpy log)."""
    return float(np.log(np.float64(x))) if log else float(x)


def _poly_exact(poly, uF, c, w):
    from fractions import Fraction as F

    z = (F(uF) - c) / w
    tot = F(0)
    for a in reversed(poly):
        tot = tot * z + F(a)
    return tot


def check_case(case):
    from fractions import Fraction as F

    from eko import interpolation as ip
    from vf.refs import i_lagrange as L

    res = CaseResult()
    if case["kind"] == "reject":
        why, via, log, grid, deg = case["why"], case["via"], case["log"], case["grid"], case["deg"]
        res.classes = [f"reject:{why}", f"via={via}"]
        res.nontrivial = True
        try:
            arg = {"ndarray": np.array(grid, dtype=float), "XGrid-ndarray": np.array(grid, dtype=float),
                   "tuple": tuple(grid)}.get(via, grid)
            if via.startswith("XGrid"):
                ip.InterpolatorDispatcher(ip.XGrid(arg, log=log), deg, mode_N=False)
            else:
                ip.InterpolatorDispatcher(arg, deg, mode_N=False)
        except ValueError:
            return res
        except Exception as e:  # noqa: BLE001 - the contract names ValueError
            res.fail(exc_bucket(f"{ID}/reject/{why}/wrong-exception", e), f"grid={grid} deg={deg} via={via}: {e!r}")
            return res
        res.fail(f"{ID}/reject/{why}/accepted", f"grid={grid} deg={deg} log={log} via={via} was accepted")
        return res

    log, grid, deg = case["log"], case["grid"], case["deg"]
    n = len(grid)
    tk = case["target_kind"]
    nodes = [float(v) for v in (np.log(np.array(grid, dtype=float)) if log else np.array(grid, dtype=float))]
    ref = L.RefBasis(nodes, deg)
    steps = np.diff(nodes)
    nonuniform = bool(steps.max() > 1.05 * steps.min())
    target_differs = list(case["target"]) != list(grid)
    res.nontrivial = bool((n >= 5 and nonuniform and deg >= 2) or target_differs)
    res.classes = [
        f"log={log}", f"deg={deg}", f"n={'2-4' if n < 5 else '5-8' if n <= 8 else '9-20' if n <= 20 else '21-40'}",
        f"shape={case['shape']}", f"target={tk}", f"xmin<1e-7={grid[0] < 1e-7}", f"mode_N={case['mode_N']}",
    ]  # fmt: skip
    where = f"log={log}"  # buckets: sub-check x interpolation mode (degree, point kind, target kind go to the message)

    try:
        via_list = bool(log and n % 2 == 0)  # a plain sequence means a logarithmic grid (XGrid default)
        xg = list(grid) if via_list else ip.XGrid(grid, log=log)
        disp = ip.InterpolatorDispatcher(xg, deg, mode_N=case["mode_N"])
    except Exception as e:  # noqa: BLE001 - a valid grid must be accepted
        res.fail(exc_bucket(f"{ID}/construct/{where}", e), f"valid grid rejected: {e!r}")
        return res
    if len(disp.basis) != n:
        res.fail(f"{ID}/construct/basis-count", f"{len(disp.basis)} basis functions for {n} nodes")
        return res

    def code_row(x):
        return np.array([float(b.evaluate_x(x)) for b in disp], dtype=float)

    worst_bound = 0.0

    def judge(x, row_code, sub, kron=None):
        """Compare a code row at x with the exact row; partition of unity; returns (exact row, S) for reuse."""
        nonlocal worst_bound
        u = _u(log, x)
        ar = ref.area(u)
        ex = ref.row(u, ar)
        S = ref.magnitude(ar)
        lam = float(sum(abs(p) for p in ex))
        smax, ssum = max(S), sum(S)
        worst_bound = max(worst_bound, KAPPA * EPS * smax / lam)
        if not np.all(np.isfinite(row_code)):
            res.fail(f"{ID}/non-finite/{where}", f"{sub} x={x!r} deg={deg}: {row_code.tolist()}")
            return ex, S
        exf = np.array([float(p) for p in ex])
        # (a) partition of unity
        tol = max(1e-9 * lam, KAPPA * EPS * ssum)
        tot = float(np.sum(row_code))
        if abs(tot - 1.0) > tol:
            res.fail(
                f"{ID}/sum-not-one/{where}",
                f"{sub} x={x!r} (u={u!r}, area {ar}, n={n}, deg={deg}): sum_j p_j = {tot!r}, |dev| {abs(tot - 1):.3e} > tol {tol:.3e} (Lebesgue {lam:.3g})",
            )
        # (b) every basis function against the exact documented Lagrange basis
        tol = max(1e-9 * lam, KAPPA * EPS * smax)
        dev = np.abs(row_code - exf)
        j = int(np.argmax(dev))
        if dev[j] > tol:
            res.fail(
                f"{ID}/basis-vs-doc-rule/{where}",
                f"{sub} x={x!r} (u={u!r}, area {ar}, n={n}, deg={deg}): p_{j} = {float(row_code[j])!r}, exact {float(exf[j])!r}, |dev| {dev[j]:.3e} > tol {tol:.3e}",
            )
        # (c) Kronecker at a node
        if kron is not None:
            tol = max(1e-12, KAPPA * EPS * smax)
            want = np.zeros(n)
            want[kron] = 1.0
            dev = np.abs(row_code - want)
            j = int(np.argmax(dev))
            if dev[j] > tol:
                res.fail(
                    f"{ID}/kronecker/{where}",
                    f"node {kron} x={x!r} (n={n}, deg={deg}): p_{j}(x_{kron}) = {float(row_code[j])!r}, want {want[j]}, |dev| {dev[j]:.3e} > tol {tol:.3e}",
                )
        return ex, S

    # polynomial in the normalised variable z = (u-c)/w
    c = (F(nodes[0]) + F(nodes[-1])) / 2
    w = (F(nodes[-1]) - F(nodes[0])) / 2
    poly = case["poly"]
    Pn_exact = [_poly_exact(poly, F(v), c, w) for v in nodes]
    Pn = np.array([float(v) for v in Pn_exact])

    def judge_poly(x, value, ex, S, sub, where=where):
        u = _u(log, x)
        want = _poly_exact(poly, F(u), c, w)
        cond = float(sum(abs(p * q) for p, q in zip(ex, Pn_exact)))
        tol = max(1e-9 * cond, KAPPA * EPS * float(sum(abs(float(q)) * s for q, s in zip(Pn_exact, S)))) + 1e-300
        if not math.isfinite(value) or abs(value - float(want)) > tol:
            res.fail(
                f"{ID}/{sub}/{where}",
                f"x={x!r} (n={n}, deg={deg}, target={tk}): sum_j P(x_j) p_j(x) = {value!r}, P(x) = {float(want)!r}, |dev| {abs(value - float(want)):.3e} > tol {tol:.3e}",
            )

    try:
        # nodes: Kronecker + partition of unity
        for k, x in enumerate(grid):
            judge(x, code_row(x), "node", kron=k)
        # free evaluation points: partition of unity, basis, polynomial reproduction
        for x in case["evals"]:
            row = code_row(x)
            ex, S = judge(x, row, "point")
            if np.all(np.isfinite(row)):
                judge_poly(x, float(row @ Pn), ex, S, "poly-reproduction")
    except Exception as e:  # noqa: BLE001 - evaluate_x must not raise inside [x_min, 1]
        res.fail(exc_bucket(f"{ID}/evaluate_x/{where}", e), repr(e))
        return res

    # re-interpolation matrix
    tgt = case["target"]
    try:
        R = np.array(disp.get_interpolation(tgt), dtype=float)
    except Exception as e:  # noqa: BLE001
        res.fail(exc_bucket(f"{ID}/get_interpolation/{where}", e), repr(e))
        return res
    if R.shape != (len(tgt), n):
        res.fail(f"{ID}/get_interpolation/shape", f"shape {R.shape} for {len(tgt)} targets and {n} nodes")
        return res
    tsub = "reinterpolation"
    if target_differs and R.shape == (n, n) and np.array_equal(R, np.eye(n)):
        # one root cause, one bucket: the matrix is the exact identity although the target is not the node set
        tsub = "reinterpolation/identity-returned-for-different-target"
        where = "any"
    for i, x in enumerate(tgt):
        u = _u(log, x)
        ar = ref.area(u)
        ex, S = ref.row(u, ar), ref.magnitude(ar)
        if not np.all(np.isfinite(R[i])):
            res.fail(f"{ID}/non-finite/{where}", f"get_interpolation row {i} (x={x!r}, target={tk}): {R[i].tolist()}")
            break
        before = len(res.violations)
        judge_poly(x, float(R[i] @ Pn), ex, S, tsub, where)
        if len(res.violations) > before:
            break  # one message per case is enough
    res.classes.append(f"cancellation-bound={'<=1e-9' if worst_bound <= 1e-9 else '<=1e-6' if worst_bound <= 1e-6 else '>1e-6'}")
    return res

"""C26 every anomalous dimension and operator matrix element is real-analytic in N:
f(conj N) = conj f(N) off the real axis, Im f = 0 on the real axis away from the poles."""

import math

from hypothesis import strategies as st

from vf.core import CaseResult, exc_bucket

ID = "C26"
LEVEL = "exploration"
TECHNIQUE = (
    "random Mellin moments on both Talbot contours, in the right and left half-plane and on the real axis x every "
    "public tower of ekore (QCD, QED grids, polarised, time-like, matching elements); oracle = Schwarz reflection "
    "(second evaluation at conj N) and vanishing imaginary part on the real axis"
)
RULE = (
    "Each case = one public tower (unpolarised space-like gamma_ns / gamma_singlet orders 1-4 both N3LO families "
    "with random variation tuples (entries 0-2; in-house family also gg 0-19, gq 0-15, qg 0-15, qq 0-6), "
    "gamma_ns_qed / gamma_singlet_qed / gamma_valence_qed up to (4,2), polarised and "
    "time-like gamma_ns / gamma_singlet orders 1-3, A_singlet / A_non_singlet unpolarised orders 1-3 with and "
    "without MSbar term, polarised orders 1-2, time-like order 1) x nf in 3..6 (3..5 where FHMRUVV singlet entries "
    "are involved) x L in [-3,3] x one N drawn from: the non-singlet Talbot contour (r=1/2, o=0) and the singlet one "
    "(r=6.4/(1-ln x), o=1) with t in (0.5,0.95], x in [1e-7,1), either branch; a box Re N in [1.2,50], |Im N|<=60; "
    "the left half-plane Re N in [-6,1.2] at distance >=0.1 from the real axis; |Im N| in [1e-6,1e-2]; the real "
    "axis N in [1.2,50]; the real axis between the poles, N = k + [0.1,0.9], k=-6..1; windows around the points the "
    "sources special-case (N=1: first-moment guards of the NNLO valence entries; N=0,-1,-2: pole guard of the "
    "polygamma): Re N on the point or 1e-7..1e-4 beside it, Im N of either sign, 1e-8..1e-4 or 0.05..3. Off the axis the tower is "
    "evaluated at N and conj N and compared slice by slice (one perturbative order at a time); on the axis the "
    "imaginary part must vanish. Non-trivial = perturbative order >= 2 and (|Im N| >= 0.5 or N real); distinct by "
    "full case."
)
ASSUMPTIONS = [
    "tolerances from DESIGN: |f(conj N) - conj f(N)| <= 1e-11 * max|f| and |Im f| <= 1e-12 * max|f| per "
    "perturbative-order slice (measured on the unchanged tree: exactly 0 in 500 probes)",
    "the towers are called exactly as eko.evolution_operator.quad_ker calls them (complex N, tuple order, "
    "7-tuple N3LO variation, use_fhmruvv flag); real moments are passed as complex(x, 0.0)",
    "domain: distance >= 0.1 from the poles at the integers <= 1; FHMRUVV N3LO singlet pieces are documented as "
    "unavailable for nf=6 (NotImplementedError) and are generated with nf 3..5 only",
    "Talbot contour parameters typed from the module docstring of eko.mellin (not imported)",
    "non-finite output on an in-domain input is reported as a violation (it cannot equal its conjugate)",
    "guard windows: never exactly on the real axis (N=1,0,-1,-2 are poles of some towers); the conjugation oracle "
    "is used unchanged there: on the unchanged tree the symmetry is exact also beside the removable singularity, "
    "because conj N runs through the conjugate floating-point operations",
]
LEVEL_TEXT = (
    "Seeded random exploration of the complex N plane (including the actual inversion contours and the left "
    "half-plane, where the polygamma reflection formula is active) for every public tower; the oracle needs no "
    "reference value, so every evaluation is a full-strength test of the symmetry."
)

TOL_CONJ = 1e-11
TOL_REAL = 1e-12

# tower id -> (max QCD order, needs mode?, sector label)
NS_MODES = [10101, 10201, 10200]
QED_NS_MODES = [10102, 10103, 10202, 10203]


def _tower(case):
    """Return (callable n -> ndarray, perturbative order) for the case; imports are lazy (tree under test)."""
    import ekore.anomalous_dimensions.polarized.space_like as ad_ps
    import ekore.anomalous_dimensions.unpolarized.space_like as ad_us
    import ekore.anomalous_dimensions.unpolarized.time_like as ad_ut
    import ekore.operator_matrix_elements.polarized.space_like as ome_ps
    import ekore.operator_matrix_elements.unpolarized.space_like as ome_us
    import ekore.operator_matrix_elements.unpolarized.time_like as ome_ut

    t = case["tower"]
    order = tuple(case["order"])
    nf = case["nf"]
    var = tuple(case["var"])
    fh = case["fh"]
    L = case["L"]
    mode = case["mode"]
    table = {
        "us.ns": lambda n: ad_us.gamma_ns(order, mode, n, nf, var, fh),
        "us.singlet": lambda n: ad_us.gamma_singlet(order, n, nf, var, fh),
        "us.ns_qed": lambda n: ad_us.gamma_ns_qed(order, mode, n, nf, var, fh),
        "us.singlet_qed": lambda n: ad_us.gamma_singlet_qed(order, n, nf, var, fh),
        "us.valence_qed": lambda n: ad_us.gamma_valence_qed(order, n, nf, var, fh),
        "ps.ns": lambda n: ad_ps.gamma_ns(order, mode, n, nf),
        "ps.singlet": lambda n: ad_ps.gamma_singlet(order, n, nf),
        "ut.ns": lambda n: ad_ut.gamma_ns(order, mode, n, nf),
        "ut.singlet": lambda n: ad_ut.gamma_singlet(order, n, nf),
        "ome_us.singlet": lambda n: ome_us.A_singlet(order, n, nf, L, case["msbar"]),
        "ome_us.ns": lambda n: ome_us.A_non_singlet(order, n, nf, L),
        "ome_ps.singlet": lambda n: ome_ps.A_singlet(order, n, nf, L),
        "ome_ps.ns": lambda n: ome_ps.A_non_singlet(order, n, L),
        "ome_ut.singlet": lambda n: ome_ut.A_singlet(order, n, L),
        "ome_ut.ns": lambda n: ome_ut.A_non_singlet(order, n, L),
    }
    return table[t]


def _slices(case, arr):
    """Split a tower into perturbative-order slices [(label, ndarray)]."""
    import numpy as np

    arr = np.asarray(arr)
    if case["tower"].endswith("_qed"):
        return [
            (f"as{i}aem{j}", np.atleast_1d(arr[i, j]))
            for i in range(arr.shape[0])
            for j in range(arr.shape[1])
            if (i, j) != (0, 0)
        ]
    return [(f"as{i + 1}", np.atleast_1d(arr[i])) for i in range(arr.shape[0])]


def check_case(case):
    import numpy as np

    res = CaseResult()
    N = complex(*case["N"])
    order = case["order"]
    tower = case["tower"]
    on_axis = N.imag == 0
    res.classes = [tower, f"order={order[0]},{order[1]}", "pop=" + case["pop"], "axis" if on_axis else "offaxis"]
    if order[0] >= 4 and tower.startswith("us."):
        res.classes.append("n3lo=" + ("fhmruvv" if case["fh"] else "an3lo"))
    res.nontrivial = max(order) >= 2 and (on_axis or abs(N.imag) >= 0.5)
    f = _tower(case)
    coords = f"{tower}/order={order[0]},{order[1]}"
    try:
        a = np.asarray(f(N))
        b = None if on_axis else np.asarray(f(N.conjugate()))
    except Exception as e:  # noqa: BLE001
        return res.fail(exc_bucket(f"{ID}/call/{tower}", e), f"{case}: {e!r}")
    sa = _slices(case, a)
    sb = None if b is None else _slices(case, b)
    for i, (lab, x) in enumerate(sa):
        if not np.all(np.isfinite(x)):
            res.fail(f"{ID}/nonfinite/{tower}/{lab}", f"{coords} {lab} at N={N}: {x.tolist()}")
            continue
        scale = float(np.max(np.abs(x)))
        if scale == 0.0:
            continue
        if on_axis:
            im = float(np.max(np.abs(x.imag)))
            if not im <= TOL_REAL * scale:
                res.fail(
                    f"{ID}/real/{tower}/{lab}",
                    f"{coords} slice {lab} at real N={N.real!r} (nf={case['nf']}, mode={case['mode']}, "
                    f"var={case['var']}, fh={case['fh']}, L={case['L']}): max|Im| = {im:.3e}, max|f| = {scale:.3e}",
                )
        else:
            y = sb[i][1]
            d = float(np.max(np.abs(y - np.conj(x)))) if np.all(np.isfinite(y)) else math.inf
            if not d <= TOL_CONJ * scale:
                res.fail(
                    f"{ID}/conj/{tower}/{lab}",
                    f"{coords} slice {lab} (nf={case['nf']}, mode={case['mode']}, var={case['var']}, "
                    f"fh={case['fh']}, L={case['L']}): |f(conj N) - conj f(N)| = {d:.3e}, max|f| = {scale:.3e} at "
                    f"N={N}",
                )
    return res


# ------------------------------------------------------------------------------------------ generation

POPS = ["talbot-ns", "talbot-s", "box", "box", "left", "left", "near-axis", "real", "real-left", "edge", "guard", "guard", "guard"]
# points that the sources special-case (grep for branches on N): the removable singularity of the NNLO valence
# anomalous dimension at N = 1 (space_like/as3.py gamma_nsv, time_like/as3.py) and the pole guard of
# cern_polygamma at the non-positive integers (reached through N+1, N/2+1, (N+1)/2 -> N = 0, -1, -2)
GUARD_POINTS = [1.0, 1.0, 1.0, 1.0, 0.0, -1.0, -2.0]


def talbot(t, r, o):
    theta = math.pi * (2.0 * t - 1.0)
    re = 1.0 if theta == 0 else theta / math.tan(theta)
    return [o + r * re, r * theta]


def n_from(pop, seed):
    import numpy as np

    rng = np.random.default_rng(seed)
    sgn = 1.0 if rng.integers(2) else -1.0
    if pop in ("talbot-ns", "talbot-s"):
        t = float(rng.uniform(0.5005, 0.95))
        if pop == "talbot-ns":
            r, o = 0.5, 0.0
        else:
            logx = float(rng.uniform(math.log(1e-7), 0.0))
            r, o = 0.4 * 16.0 / (1.0 - logx), 1.0
        re, im = talbot(t, r, o)
        return [re, sgn * im]
    if pop == "box":
        return [float(rng.uniform(1.2, 50.0)), float(rng.uniform(-60.0, 60.0))]
    if pop == "left":
        return [float(rng.uniform(-6.0, 1.2)), sgn * float(10 ** rng.uniform(-1.0, 1.5))]
    if pop == "near-axis":
        return [float(rng.uniform(1.2, 50.0)), sgn * float(10 ** rng.uniform(-6.0, -2.0))]
    if pop == "real":
        return [float(rng.uniform(1.2, 50.0)), 0.0]
    if pop == "guard":
        # Re N on the point, or within 1e-7..1e-4 of it on either side; Im N of either sign, never 0 (the points
        # are poles of some towers): tiny (1e-8..1e-4, inside and outside the 1e-5 windows) or O(1)
        p = GUARD_POINTS[int(rng.integers(len(GUARD_POINTS)))]
        u = int(rng.integers(5))
        dre = 0.0 if u == 0 else (1.0 if u % 2 else -1.0) * float(10 ** rng.uniform(-7.0, -4.0))
        im = float(10 ** rng.uniform(-8.0, -4.0)) if rng.integers(2) else float(rng.uniform(0.05, 3.0))
        return [p + dre, sgn * im]
    if pop == "real-left":
        return [float(int(rng.integers(-6, 2)) + rng.uniform(0.1, 0.9)), 0.0]
    raise ValueError(pop)


def _fl(lo, hi):
    return st.floats(lo, hi, allow_nan=False, allow_infinity=False)


@st.composite
def _n(draw):
    pop = draw(st.sampled_from(POPS))
    if pop == "edge":  # Hypothesis floats: interval ends, zero imaginary part, tiny values
        return pop, [draw(_fl(1.2, 50.0)), draw(_fl(-60.0, 60.0))]
    return pop, n_from(pop, draw(st.integers(0, 2**32 - 1)))


# (tower, orders, modes, weight)
TOWERS = [
    ("us.ns", [(1, 0), (2, 0), (3, 0), (4, 0)], NS_MODES, 4),
    ("us.singlet", [(1, 0), (2, 0), (3, 0), (4, 0)], [0], 4),
    ("us.ns_qed", [(i, j) for i in (1, 2, 3, 4) for j in (1, 2)], QED_NS_MODES, 4),
    ("us.singlet_qed", [(i, j) for i in (1, 2, 3, 4) for j in (1, 2)], [0], 4),
    ("us.valence_qed", [(i, j) for i in (1, 2, 3, 4) for j in (1, 2)], [0], 3),
    ("ps.ns", [(1, 0), (2, 0), (3, 0)], NS_MODES, 2),
    ("ps.singlet", [(1, 0), (2, 0), (3, 0)], [0], 2),
    ("ut.ns", [(1, 0), (2, 0), (3, 0)], NS_MODES, 2),
    ("ut.singlet", [(1, 0), (2, 0), (3, 0)], [0], 2),
    ("ome_us.singlet", [(1, 0), (2, 0), (3, 0)], [0], 4),
    ("ome_us.ns", [(1, 0), (2, 0), (3, 0)], [0], 3),
    ("ome_ps.singlet", [(1, 0), (2, 0)], [0], 2),
    ("ome_ps.ns", [(1, 0), (2, 0)], [0], 1),
    ("ome_ut.singlet", [(1, 0)], [0], 1),
    ("ome_ut.ns", [(1, 0)], [0], 1),
]


@st.composite
def _case(draw):
    idx = draw(st.sampled_from([i for i, t in enumerate(TOWERS) for _ in range(t[3])]))
    tower, orders, modes, _w = TOWERS[idx]
    # higher orders contain the lower ones: favour them
    order = draw(st.sampled_from(orders + orders[len(orders) // 2 :]))
    mode = draw(st.sampled_from(modes))
    is_us = tower.startswith("us.")
    n3lo = is_us and order[0] >= 4
    fh = draw(st.booleans()) if n3lo else True
    var = draw(st.lists(st.integers(0, 2), min_size=7, max_size=7)) if n3lo else [0] * 7
    if n3lo and not fh and draw(st.booleans()):
        # documented ranges of the in-house family (N3LO_ad.rst): gg 0-19, gq 0-15, qg 0-15, qq 0-6
        var = [draw(st.integers(0, hi)) for hi in (19, 15, 15, 6)] + [0, 0, 0]
    nf_hi = 5 if (n3lo and fh and tower in ("us.singlet", "us.singlet_qed")) else 6
    nf = draw(st.integers(3, nf_hi))
    is_ome = tower.startswith("ome_")
    L = draw(st.one_of(_fl(-3.0, 3.0), st.just(0.0))) if is_ome else 0.0
    msbar = draw(st.booleans()) if tower == "ome_us.singlet" else False
    pop, N = draw(_n())
    return {
        "tower": tower,
        "order": list(order),
        "mode": mode,
        "nf": nf,
        "var": var,
        "fh": fh,
        "L": L,
        "msbar": msbar,
        "pop": pop,
        "N": N,
    }


def strategy(tier):
    return _case()


def budget(tier):
    if tier == "quick":
        return dict(max_examples=2400, shards=8, wall_s=80, shrink_s=40)
    return dict(max_examples=40000, shards=16, wall_s=800, shrink_s=120)

"""C24 harmonic sums equal their definitions, satisfy their recurrences, are real-analytic; Mellin transforms of the
g- and log-functions equal their integrals; the cache agrees with direct evaluation in any lookup order."""

from hypothesis import strategies as st

from vf.core import CaseResult, exc_bucket
from vf.refs import e1_harmonics as R

ID = "C24"
LEVEL = "exploration"
TECHNIQUE = (
    "exhaustive integer N vs exact Fraction nested sums; random complex N: one-step recurrences with flipped parity "
    "flag, mpmath polygamma/Hurwitz references, conjugation; mpmath.quad (rotated contour) of the docstring "
    "integrals; random permutations of the 31 cache keys (flag on every call / flag only on parity dependent keys) "
    "vs direct evaluation; ekore functions on a fresh cache vs on a directly pre-filled cache"
)
RULE = (
    "Enumerated part: every integer N=1..60 x parity flag in {matching bool, None}: all 19 sums (S1..S5, S-1..S-5, "
    "S21, S2-1, S-21, S-2-1, S31, S-31, S-22, S211, S-211), computed both by the w1..w5 functions directly and "
    "through cache.get, against exact rational nested sums. Generated part (Hypothesis): kind 'rec' = complex N "
    "(Re N in [0.5,50], |Im N|<=60; sub-populations: uniform box, small Re N in [0.5,3], real axis Im N=0, "
    "near-real |Im N|<1e-3, integer real part) x flag: S(N+1;not flag)-S(N;flag) = term(N+1) for all 19 sums with "
    "lower sums from mpmath, S+-1..+-5 at N and N+1 against mpmath digamma/Hurwitz-zeta forms, S(conj N) = conj "
    "S(N), Im S = 0 on the real axis; kind 'mellin' = one of 9 g-functions or 14 log-functions at complex N against "
    "mpmath.quad of its docstring integral plus conjugation; kind 'cache' = random permutation of all 31 cache "
    "keys on a fresh cache at complex N with one flag, under two calling conventions: 'uniform' (flag on every "
    "call, as test_cache.py) and 'ekore' (the convention of the code base: flag only on the 11 parity dependent "
    "keys S-1..S-5, S2-1, S-21, S-2-1, S-31, S-22, S-211, every plain key requested without a flag): every returned "
    "value, the final cache content and a second lookup against direct evaluation; kind 'down' = one of 12 ekore "
    "functions that mix plain and parity dependent lookups on one cache (as3 matching elements A_qqNS eta=+-1, A_Hg, "
    "A_Hq, A_gg, A_gq, A_qg; as2 A_hg unpolarised / polarised; N3LO gamma_nss_nf2, gamma_qg_nf3; time-like "
    "gamma_gg^(1); polarised gamma_nss^(2)) evaluated on a fresh shared cache vs on a cache in which all 31 keys "
    "were supplied by direct evaluation. Non-trivial = integer N not among the values pinned by the suite "
    "{1,2,3,10} / complex N with |Im N|>1 (every rec case covers weight>=3, alternating and nested sums); "
    "distinct by full case."
)
ASSUMPTIONS = [
    "reference nested sums are exact Fractions from the definition S_{a,b..}(N)=sum_j sgn(a)^j/j^|a| S_{b..}(j); "
    "mpmath (digamma, Hurwitz zeta, polylog, quad at 20 digits) is the trusted base for complex N",
    "polygamma-based sums (S+-1..+-5), cache-vs-direct and conjugation: 1e-12*max(1,|S|) (measured <= 2e-15); "
    "log-function transforms 1e-11 relative (measured <= 2e-14)",
    "sums built on the parametrised transforms g3..g22 carry the accuracy the repository claims for them "
    "(tests/ekore/harmonics/test_g_functions.py atol=1e-5, g3 decimal=6): 1e-5 absolute for the transforms, 2e-5 "
    "for a recurrence (two evaluations); at integer N, enumerated exhaustively, the regression bound 2e-6 = 4x the "
    "largest deviation on the unchanged tree (5.2e-7, S-22 at N=60)",
    "Mellin convention: g3 is int x^(N-1) f (note in w3.Sm21), g4..g22 follow the cited Bluemlein-Kurth / Muselli "
    "convention int x^N f (decided by probe: the other choice is off by O(0.1)); log-functions int x^(N-1) f",
    "domain is the property's: Re N in [0.5,50], |Im N|<=60; a single parity flag per cache (mixed flags on one "
    "cache are outside the statement); flag=None ((-1)^N evaluated numerically) only at integer N",
    "quadrature references with an mpmath error estimate above 1e-9 are discarded and counted",
    "'consistent parity flag' is read as: one and the same flag on every parity dependent lookup of a cache; "
    "plain keys may be requested without flag (that is how all of ekore calls them), which must not change any "
    "later flagged lookup",
    "downstream differential: relative 1e-9 (measured on the unchanged tree <= 1e-12; the functions are sums "
    "with O(1e3) cancellations); N within 1e-3 of the pole N=1 is discarded",
]
LEVEL_TEXT = (
    "Integer N=1..60 is decided exhaustively against exact rationals; complex N, lookup orders and the Mellin "
    "integrals are explored by seeded random generation over the stated box with independent mpmath references."
)

TOL_EXACT = 1e-12
TOL_PARAM_INT = 2e-6
TOL_PARAM_REC = 2e-5
TOL_G = 1e-5
TOL_LM = 1e-11
TOL_CONJ = 1e-13
SUITE_INTS = (1, 2, 3, 10)

CACHE_KEYS = [
    "S1", "S2", "S3", "S4", "S5", "Sm1", "Sm2", "Sm3", "Sm4", "Sm5", "S21", "S2m1", "Sm21", "Sm2m1", "S31", "Sm31",
    "Sm22", "S211", "Sm211", "S1h", "S2h", "S3h", "S1mh", "S2mh", "S3mh", "S1ph", "S2ph", "S3ph", "g3", "S1p2",
    "g3p2",
]  # fmt: skip


# keys whose value depends on the parity flag; every other key is requested WITHOUT a flag all over ekore
# (c.get(c.S21, cache, n) etc., > 20 call sites), the parity dependent ones with is_singlet=...
PARITY_KEYS = {"Sm1", "Sm2", "Sm3", "Sm4", "Sm5", "S2m1", "Sm21", "Sm2m1", "Sm31", "Sm22", "Sm211"}

# real ekore functions that look up plain and parity dependent keys on one cache: name -> (module, function,
# argument kinds after (n, cache), parity flag used inside the function; None = taken from eta)
DOWNSTREAM = {
    "ome_us.as3.A_qqNS": ("ekore.operator_matrix_elements.unpolarized.space_like.as3.aqqNS", "A_qqNS", "nf,L,eta", None),
    "ome_us.as3.A_Hg": ("ekore.operator_matrix_elements.unpolarized.space_like.as3.aHg", "A_Hg", "nf,L", True),
    "ome_us.as3.A_Hq": ("ekore.operator_matrix_elements.unpolarized.space_like.as3.aHq", "A_Hq", "nf,L", True),
    "ome_us.as3.A_gg": ("ekore.operator_matrix_elements.unpolarized.space_like.as3.agg", "A_gg", "nf,L", True),
    "ome_us.as3.A_gq": ("ekore.operator_matrix_elements.unpolarized.space_like.as3.agq", "A_gq", "nf,L", True),
    "ome_us.as3.A_qg": ("ekore.operator_matrix_elements.unpolarized.space_like.as3.aqg", "A_qg", "nf,L", True),
    "ome_us.as2.A_hg": ("ekore.operator_matrix_elements.unpolarized.space_like.as2", "A_hg", "L", True),
    "ome_ps.as2.A_hg": ("ekore.operator_matrix_elements.polarized.space_like.as2", "A_hg", "L", False),
    "ad_us.as4.gamma_nss_nf2": ("ekore.anomalous_dimensions.unpolarized.space_like.as4.gnsv", "gamma_nss_nf2", "", False),
    "ad_us.as4.gamma_qg_nf3": ("ekore.anomalous_dimensions.unpolarized.space_like.as4.gqg", "gamma_qg_nf3", "", True),
    "ad_ut.as2.gamma_gg": ("ekore.anomalous_dimensions.unpolarized.time_like.as2", "gamma_gg", "nf_first", True),
    "ad_ps.as3.gamma_nss": ("ekore.anomalous_dimensions.polarized.space_like.as3", "gamma_nss", "nf_first", True),
}  # fmt: skip
TOL_DOWN = 1e-9

# ------------------------------------------------------------------------------------------ code under test


def _direct(N, flag):
    """All 19 sums through the public w1..w5 functions (arguments assembled as tests/ekore/harmonics does)."""
    from ekore import harmonics as h

    S = {k: getattr(h, f"S{k}")(N) for k in range(1, 6)}
    d = {f"S{k}": S[k] for k in range(1, 6)}
    for k in range(1, 6):
        f = getattr(h, f"S{k}")
        d[f"Sm{k}"] = getattr(h, f"Sm{k}")(N, S[k], f((N - 1) / 2), f(N / 2), flag)
    d["S21"] = h.S21(N, S[1], S[2])
    d["S2m1"] = h.S2m1(N, S[2], d["Sm1"], d["Sm2"], flag)
    d["Sm21"] = h.Sm21(N, S[1], d["Sm1"], flag)
    d["Sm2m1"] = h.Sm2m1(N, S[1], S[2], d["Sm2"])
    d["S31"] = h.S31(N, S[1], S[2], S[3], S[4])
    d["Sm31"] = h.Sm31(N, S[1], d["Sm1"], d["Sm2"], flag)
    d["Sm22"] = h.Sm22(N, S[1], S[2], d["Sm2"], d["Sm31"], flag)
    d["S211"] = h.S211(N, S[1], S[2], S[3])
    d["Sm211"] = h.Sm211(N, S[1], S[2], d["Sm1"], flag)
    return d


def _direct_keys(N, flag):
    """Direct evaluation of what each of the 31 cache keys documents (cache.py comments / test_cache.py)."""
    from ekore import harmonics as h

    d = _direct(N, flag)
    for k in (1, 2, 3):
        f = getattr(h, f"S{k}")
        d[f"S{k}h"] = f(N / 2)
        d[f"S{k}mh"] = f((N - 1) / 2)
        d[f"S{k}ph"] = f((N + 1) / 2)
    d["g3"] = h.g_functions.mellin_g3(N, d["S1"])
    d["S1p2"] = h.S1(N + 2)
    d["g3p2"] = h.g_functions.mellin_g3(N + 2, d["S1p2"])
    return d


def _via_cache(N, flag, names):
    from ekore.harmonics import cache as c

    cache = c.reset()
    return {nm: c.get(getattr(c, nm), cache, N, flag) for nm in names}


def _call_g(name, N, S):
    from ekore.harmonics import g_functions as gf

    args = {
        "g3": (S["S1"],), "g4": (), "g5": (S["S1"], S["S2"]), "g6": (S["S1"],), "g8": (S["S1"], S["S2"]),
        "g18": (S["S1"], S["S2"]), "g19": (S["S1"],), "g21": (S["S1"], S["S2"], S["S3"]),
        "g22": (S["S1"], S["S2"], S["S3"]),
    }[name]  # fmt: skip
    return getattr(gf, "mellin_" + name)(N, *args)


def _call_lm(name, N, S):
    from ekore.harmonics import log_functions as lf

    k = R.LM_NAMES[name][1]
    return getattr(lf, name)(N, *[S[f"S{i}"] for i in range(1, k + 1)])


# ------------------------------------------------------------------------------------------ helpers


def _classes_n(N):
    re, im = N.real, abs(N.imag)
    a = "re<1" if re < 1 else "re<3" if re < 3 else "re<15" if re < 15 else "re>=15"
    b = "im=0" if im == 0 else "im<1e-3" if im < 1e-3 else "im<1" if im < 1 else "im<20" if im < 20 else "im>=20"
    return [a, b]


def _flag(case):
    return bool(case["singlet"])


# ------------------------------------------------------------------------------------------ sub-checks


def _check_int(case, res):
    n = int(case["n"])
    flag = (n % 2 == 0) if case["flag"] == "match" else None
    res.classes = ["int", "flag=" + case["flag"], "even" if n % 2 == 0 else "odd"]
    res.nontrivial = n not in SUITE_INTS
    N = complex(n)
    got = {}
    for how, fn in (("direct", lambda: _direct(N, flag)), ("cache", lambda: _via_cache(N, flag, R.NAMES))):
        try:
            got[how] = fn()
        except Exception as e:  # noqa: BLE001
            res.fail(exc_bucket(f"{ID}/int/{how}", e), f"N={n} flag={flag}: {e!r}")
    for how, d in got.items():
        for name in R.NAMES:
            ref = float(R.exact(name, n))
            tol = TOL_EXACT * max(1.0, abs(ref)) if name in R.EXACT_FAMILY else TOL_PARAM_INT
            v = complex(d[name])
            if not abs(v - ref) <= tol:
                res.fail(
                    f"{ID}/int/{name}/flag={'none' if flag is None else 'bool'}",
                    f"{name}(N={n}, is_singlet={flag}) via {how} = {v!r}, exact nested sum = {ref!r} "
                    f"(|diff| {abs(v - ref):.3e} > {tol:.1e})",
                )
    return res


def _check_rec(case, res):
    N = complex(*case["N"])
    flag = _flag(case)
    eta0 = 1 if flag else -1
    res.classes = ["rec", f"singlet={flag}"] + _classes_n(N)
    res.nontrivial = abs(N.imag) > 1
    try:
        d0 = _direct(N, flag)
        d1 = _direct(N + 1, not flag)
        dc = _direct(N.conjugate(), flag)
    except Exception as e:  # noqa: BLE001
        return res.fail(exc_bucket(f"{ID}/rec/call", e), f"N={N} flag={flag}: {e!r}")
    ref0 = R.simple_sums_mp(N, eta0)
    ref1 = R.simple_sums_mp(N + 1, -eta0)
    # absolute values of the polygamma family at N and N+1
    for where, z, d, ref in (("N", N, d0, ref0), ("N+1", N + 1, d1, ref1)):
        for name in R.EXACT_FAMILY:
            tol = TOL_EXACT * max(1.0, abs(ref[name]))
            if not abs(d[name] - ref[name]) <= tol:
                res.fail(
                    f"{ID}/abs/{name}",
                    f"{name}({z}, is_singlet={flag if where == 'N' else not flag}) = {d[name]!r}, mpmath "
                    f"{ref[name]!r} (|diff| {abs(d[name] - ref[name]):.3e})",
                )

    # one-step recurrences, lower sums at N+1 from the independent reference
    def lower(name):
        if name == "S11":
            return R.s11(ref1["S1"], ref1["S2"])
        return ref1[name]

    for name in R.NAMES:
        term = R.step_term(name, N + 1, -eta0, lower)
        r = abs(d1[name] - d0[name] - term)
        tol = TOL_EXACT * max(1.0, abs(d0[name])) if name in R.EXACT_FAMILY else TOL_PARAM_REC
        if not r <= tol:
            res.fail(
                f"{ID}/rec/{name}",
                f"{name}(N+1; is_singlet={not flag}) - {name}(N; is_singlet={flag}) = {d1[name] - d0[name]!r} but "
                f"term(N+1) = {term!r} at N={N} (residual {r:.3e} > {tol:.1e})",
            )
    # real analyticity
    for name in R.NAMES:
        sc = max(1.0, abs(d0[name]))
        r = abs(dc[name] - d0[name].conjugate())
        if not r <= TOL_CONJ * sc:
            res.fail(f"{ID}/conj/{name}", f"{name}(conj N) - conj {name}(N) = {r:.3e} at N={N}, flag={flag}")
        if N.imag == 0 and not abs(complex(d0[name]).imag) <= TOL_CONJ * sc:
            res.fail(f"{ID}/real/{name}", f"Im {name}({N}) = {complex(d0[name]).imag:.3e} on the real axis")
    return res


def _check_mellin(case, res):
    N = complex(*case["N"])
    fn = case["fn"]
    is_g = fn in R.G_SHIFT
    res.classes = ["mellin-g" if is_g else "mellin-lm", fn] + _classes_n(N)
    res.nontrivial = abs(N.imag) > 1
    S = R.simple_sums_mp(N, 1)
    Sc = {k: v.conjugate() for k, v in S.items()}
    try:
        val = complex((_call_g if is_g else _call_lm)(fn, N, S))
        valc = complex((_call_g if is_g else _call_lm)(fn, N.conjugate(), Sc))
    except Exception as e:  # noqa: BLE001
        return res.fail(exc_bucket(f"{ID}/mellin/{fn}", e), f"{fn}(N={N}): {e!r}")
    if is_g:
        ref, err = R.mellin_quad(R.g_integrand(fn), N + R.G_SHIFT[fn])
    else:
        p, k = R.LM_NAMES[fn]
        ref, err = R.mellin_quad(R.lm_integrand(p, k), N, dps=25)
    if not err <= 1e-9 * max(1e-6, abs(ref)) + 1e-12:
        return CaseResult(discarded="reference quadrature not converged")
    tol = TOL_G if is_g else TOL_LM * abs(ref)
    if not abs(val - ref) <= tol:
        res.fail(
            f"{ID}/mellin/{fn}",
            f"{fn}(N={N}) = {val!r}, integral of the docstring function = {ref!r} (|diff| {abs(val - ref):.3e} > "
            f"{tol:.1e})",
        )
    if not abs(valc - val.conjugate()) <= TOL_CONJ * max(abs(val), 1e-300) * (1 if is_g else 100):
        res.fail(f"{ID}/conj/{fn}", f"{fn}(conj N) - conj {fn}(N) = {abs(valc - val.conjugate()):.3e} at N={N}")
    return res


def _check_cache(case, res):
    import numpy as np
    from ekore.harmonics import cache as c

    N = complex(*case["N"])
    flag = _flag(case)
    order = [int(i) for i in case["order"]]
    conv = case.get("conv", "uniform")
    res.classes = ["cache", "conv=" + conv, f"singlet={flag}"] + _classes_n(N)

    def get(nm):
        # "uniform": the flag on every call (tests/ekore/harmonics/test_cache.py); "ekore": the calling convention
        # of the code base, flag only on the parity dependent keys, plain keys without any flag
        if conv == "uniform" or nm in PARITY_KEYS:
            return c.get(getattr(c, nm), cache, N, flag)
        return c.get(getattr(c, nm), cache, N)

    res.nontrivial = abs(N.imag) > 1
    if sorted(order) != list(range(len(CACHE_KEYS))):
        raise ValueError("generator must produce a permutation of the 31 keys")
    if c.CACHE_SIZE != len(CACHE_KEYS) or any(getattr(c, nm, None) is None for nm in CACHE_KEYS):
        return res.fail(f"{ID}/cache/register", f"cache register changed: CACHE_SIZE={c.CACHE_SIZE}")
    try:
        direct = _direct_keys(N, flag)
    except Exception as e:  # noqa: BLE001
        return res.fail(exc_bucket(f"{ID}/cache/direct", e), f"N={N} flag={flag}: {e!r}")
    cache = c.reset()
    seen = []
    for i in order:
        nm = CACHE_KEYS[i]
        try:
            v = get(nm)
        except Exception as e:  # noqa: BLE001
            return res.fail(exc_bucket(f"{ID}/cache/get/{nm}", e), f"get({nm}) after {seen}: {e!r}")
        seen.append(nm)
        tol = TOL_EXACT * max(1.0, abs(direct[nm]))
        if not abs(v - direct[nm]) <= tol:
            res.fail(
                f"{ID}/cache/{nm}",
                f"cache.get({nm}, N={N}, is_singlet={flag}, convention={conv}) = {v!r} after lookups {seen[:-1]}; direct evaluation "
                f"{direct[nm]!r} (|diff| {abs(v - direct[nm]):.3e})",
            )
    # final content and second lookup
    for nm in CACHE_KEYS:
        k = getattr(c, nm)
        stored = cache[k]
        if np.isnan(stored):
            res.fail(f"{ID}/cache/unfilled/{nm}", f"key {nm} still NaN after it was requested (order {seen})")
            continue
        tol = TOL_EXACT * max(1.0, abs(direct[nm]))
        if not abs(stored - direct[nm]) <= tol:
            res.fail(
                f"{ID}/cache/stored/{nm}",
                f"cache[{nm}] = {stored!r} after all lookups (convention={conv}, is_singlet={flag}, N={N}, order "
                f"{seen}); direct {direct[nm]!r}",
            )
        again = get(nm)
        if again != stored:
            res.fail(f"{ID}/cache/second/{nm}", f"second get({nm}) = {again!r} != stored {stored!r}")
    return res


def _check_down(case, res):
    import importlib

    import numpy as np
    from ekore.harmonics import cache as c

    N = complex(*case["N"])
    name = case["fn"]
    mod, fn, argkind, flag = DOWNSTREAM[name]
    eta = int(case["eta"])
    if flag is None:
        flag = eta == 1
    res.classes = ["down", name] + _classes_n(N)
    res.nontrivial = abs(N.imag) > 1
    if abs(N - 1) < 1e-3:
        return CaseResult(discarded="pole at N=1")
    f = getattr(importlib.import_module(mod), fn)
    nf, L = int(case["nf"]), float(case["L"])

    def call(cache):
        if argkind == "nf,L,eta":
            return f(N, cache, nf, L, eta)
        if argkind == "nf,L":
            return f(N, cache, nf, L)
        if argkind == "L":
            return f(N, cache, L)
        if argkind == "nf_first":
            return f(N, nf, cache)
        return f(N, cache)

    try:
        direct = _direct_keys(N, flag)
        full = c.reset()
        for nm in CACHE_KEYS:
            full[getattr(c, nm)] = direct[nm]
        ref = complex(call(full))  # every lookup is answered by a directly evaluated value
        val = complex(call(c.reset()))  # the function fills the shared cache itself, in its own order
    except Exception as e:  # noqa: BLE001
        return res.fail(exc_bucket(f"{ID}/down/{name}", e), f"{name} at N={N}: {e!r}")
    if not (np.isfinite(val) and abs(val - ref) <= TOL_DOWN * max(abs(ref), 1e-300)):
        res.fail(
            f"{ID}/down/{name}",
            f"{name}(N={N}, nf={nf}, L={L}, eta={eta}) = {val!r} on a fresh shared cache but {ref!r} when every "
            f"harmonic sum is supplied by direct evaluation (is_singlet={flag}); rel diff "
            f"{abs(val - ref) / max(abs(ref), 1e-300):.3e}",
        )
    return res


def check_case(case):
    res = CaseResult()
    kind = case["kind"]
    if kind == "down":
        return _check_down(case, res)
    if kind == "int":
        return _check_int(case, res)
    if kind == "rec":
        return _check_rec(case, res)
    if kind == "mellin":
        return _check_mellin(case, res)
    if kind == "cache":
        return _check_cache(case, res)
    raise ValueError(kind)


# ------------------------------------------------------------------------------------------ generation


def enumerate_cases(tier):
    return [{"kind": "int", "n": n, "flag": f} for n in range(1, 61) for f in ("match", "none")]


def _fl(lo, hi):
    return st.floats(lo, hi, allow_nan=False, allow_infinity=False)


# sub-populations of the complex plane; all but "edge" use a numpy Generator seeded by a Hypothesis-drawn integer so
# that the box is covered uniformly (Hypothesis floats concentrate on 0 and the interval ends, kept as "edge")
POPS = ["box", "box", "box", "small", "small", "logim", "logim", "real", "near", "intre", "edge"]


def n_from(pop, seed):
    import numpy as np

    rng = np.random.default_rng(seed)
    re = float(rng.uniform(0.5, 50.0))
    im = float(rng.uniform(-60.0, 60.0))
    if pop == "small":
        re = float(rng.uniform(0.5, 3.0))
    elif pop == "logim":
        im = float(10 ** rng.uniform(-3.0, 1.778) * (1 if rng.integers(2) else -1))
    elif pop == "real":
        im = 0.0
    elif pop == "near":
        im = float(rng.uniform(-1e-3, 1e-3))
    elif pop == "intre":
        re = float(rng.integers(1, 51))
    return [re, im]


@st.composite
def _n_strategy(draw):
    pop = draw(st.sampled_from(POPS))
    if pop == "edge":
        return [draw(_fl(0.5, 50.0)), draw(_fl(-60.0, 60.0))]
    return n_from(pop, draw(st.integers(0, 2**32 - 1)))


def strategy(tier):
    n = _n_strategy()
    sub = {
        "rec": st.fixed_dictionaries({"kind": st.just("rec"), "N": n, "singlet": st.booleans()}),
        "g": st.fixed_dictionaries({"kind": st.just("mellin"), "fn": st.sampled_from(R.G_NAMES), "N": n}),
        "lm": st.fixed_dictionaries({"kind": st.just("mellin"), "fn": st.sampled_from(list(R.LM_NAMES)), "N": n}),
        "cache": st.fixed_dictionaries(
            {
                "kind": st.just("cache"),
                "N": n,
                "singlet": st.booleans(),
                "order": st.permutations(list(range(len(CACHE_KEYS)))),
                "conv": st.sampled_from(["uniform", "ekore", "ekore"]),
            }
        ),
        "down": st.fixed_dictionaries(
            {
                "kind": st.just("down"),
                "fn": st.sampled_from(list(DOWNSTREAM)),
                "N": n,
                "nf": st.integers(3, 5),
                "L": st.sampled_from([0.0, -2.0, 1.5]),
                "eta": st.sampled_from([1, -1]),
            }
        ),
    }
    # weights: a g-function quadrature costs 0.2-0.7 s, a log-function one 0.05 s, rec 0.04 s, cache 5 ms
    kinds = ["rec"] * 22 + ["cache"] * 12 + ["down"] * 6 + ["g"] * 2 + ["lm"] * 2
    return st.sampled_from(kinds).flatmap(lambda k: sub[k])


def budget(tier):
    if tier == "quick":
        return dict(max_examples=3000, shards=8, wall_s=80, enum_shards=4, shrink_s=40)
    return dict(max_examples=60000, shards=16, wall_s=800, enum_shards=8, shrink_s=120)

"""C50 VFNS results depend on the matching scale only beyond the matching order."""

import copy
import math

import numpy as np

from vf import runner_util as ru
from vf.core import CaseResult, exc_bucket
from vf.props.c05_sum_rules_e2e import IDX, shape

ID = "C50"
LEVEL = "exploration"
ENGINE = "R"
TECHNIQUE = (
    "metamorphic scaling law: evolved PDFs for two matching ratios, coupling scaled by lambda; best local exponent of the "
    "difference must reach the evolution order"
)
RULE = (
    "Generated configurations: order n in 1-3 (quick: 1-2) with matching order n-1, unpolarised / polarised / time-like, "
    "POLE masses, one heavy-quark threshold (charm, bottom or top position in the mass list) crossed upward or downward (inversion exact or expanded), a pair of matching "
    "ratios (k1, k2) in [0.5, 2] differing by >= 30%, smooth toy inputs including an intrinsic heavy component, log grid on "
    "[0.05, 1] (6 points quick, 8-10 thorough, 15 points degree 4 for n=3), alpha_s(threshold) <= 0.25 scaled by lambda in {1, 1/2, "
    "1/4, 1/8} (n=3: {1, 1/2, 1/4}; quick tier: {1/2, 1/4, 1/8}). R(lambda) = max over flavours and grid points of |f_k1 - f_k2| at the common final "
    "scale; statistic = best local exponent max_i log2(R(l_i)/R(l_i+1)); required >= n - 0.3, for the global norm and (n <= 2) for every flavour channel and q - qbar combination whose R(1) is at least 1e-3 of the global one. Non-trivial = R(1) is 100x "
    "above the quadrature noise floor; distinct by (n, mode, direction, inversion, grid)."
)
ASSUMPTIONS = [
    "scipy.integrate.quad inside eko.evolution_operator is called with epsrel tightened to 1e-9 from the harness process (no repository change) so that integration noise does not hide a_s^3 effects",
    "end to end only plumbing-size errors (a full power of a_s with a natural-size coefficient) are decidable because products of discretised operators carry an interpolation floor ~ eps_interp a_s^2 (DESIGN C50); coefficient-level precision is delegated to C29 / C16 / C21",
    "downward paths always carry an explicit inversion method",
    "a generic (intrinsic) heavy-quark input is generated only for unpolarised space-like evolution with matching order <= NLO; elsewhere the documentation declares the heavy-initiated matching elements absent, so upward inputs are heavy-free and downward inputs are prepared by an upward evolution with unit ratio; polarised NNLO is generated upward only",
    "interpreted mode (NUMBA_DISABLE_JIT=1)",
]
LEVEL_TEXT = (
    "End-to-end metamorphic exploration with a measured scaling exponent; separates the right order from one full power "
    "too low, on a handful (quick) to tens (thorough) of generated configurations."
)


def budget(tier):
    if tier == "quick":
        return dict(max_examples=6, shards=3, wall_s=200, shrink_s=0)
    return dict(max_examples=64, shards=4, wall_s=3300, shrink_s=0)


def strategy(tier):
    from hypothesis import strategies as st

    @st.composite
    def build(draw):
        quick = tier == "quick"
        n = draw(st.sampled_from((1, 2, 2) if quick else (1, 2, 2, 3, 3)))
        mode = draw(st.sampled_from(("unpol", "unpol", "pol", "tl")))
        if mode == "tl" and n == 3:
            mode = "unpol"  # time-like matching is documented only up to NLO
        up = draw(st.booleans())
        nfl = draw(st.sampled_from((3, 4, 5)))
        m = draw(st.floats(4.0, 6.0))
        k1 = draw(st.floats(0.5, 2.0))
        k2 = draw(st.floats(0.5, 2.0))
        if abs(math.log(k1 / k2)) < math.log(1.3):
            k1, k2 = 0.7, 1.6
        masses = [1.0, 4.5, 173.0]
        masses[nfl - 3] = m
        if nfl == 5:
            masses[0], masses[1] = 0.4, 0.6  # charm and bottom walls far below every scale used: the top threshold is crossed
        elif nfl == 4:
            masses[0] = 0.6  # charm wall far below every scale used
        else:
            masses[1] = 40.0  # bottom wall far above every scale used
        lo_s, hi_s = 0.45 * m, 2.5 * m
        npts = (6 if quick else draw(st.integers(8, 10))) if n < 3 else 15
        deg = draw(st.sampled_from((2, 3))) if n < 3 else 4
        card = dict(
            order=[n, 0], masses=masses, ref=[float(m), nfl + 1], alphas=draw(st.floats(0.18, 0.25)),
            init=[lo_s, nfl] if up else [hi_s, nfl + 1], mugrid=[[hi_s, nfl + 1]] if up else [[lo_s, nfl]],
            xgrid=[float(x) for x in np.geomspace(0.05, 1.0, npts)], deg=deg,
            method=draw(st.sampled_from(("iterate-exact", "truncated"))), iters=8,
            inv=None if up else draw(st.sampled_from(("exact", "expanded"))),
            pol=mode == "pol", tl=mode == "tl", cores=1,
        )
        pdf = {}
        lo_a = 0.5 if mode == "pol" else 0.0
        # Heavy-quark input.  A generic (intrinsic) heavy component is inside the documented domain only for unpolarised
        # space-like evolution up to NLO matching: Matching.rst - heavy-initiated elements at NNLO/N3LO "are not encoded";
        # polarised as1.py - "heavy quark contribution for intrinsic evolution are not considered"; the time-like elements
        # have no heavy-initiated entries.  Everywhere else the heavy quark is absent below the threshold (upward paths),
        # and on downward paths the input above the threshold is prepared by evolving a heavy-free input upward with unit
        # matching ratio, so that it carries no intrinsic component.  Polarised NNLO is generated upward only: going down
        # the (documented as missing) heavy-initiated NLO elements would act on the O(a_s) generated heavy quark.
        with_heavy = mode == "unpol" and n <= 2
        if mode == "pol" and n == 3:
            up = True
        for q in range(1, nfl + 2 if with_heavy else nfl + 1):
            heavy = q == nfl + 1
            A = draw(st.floats(0.05, 0.3)) if heavy else draw(st.floats(0.1, 0.6))
            pdf[str(q)] = {
                "sea": [A, draw(st.floats(lo_a, lo_a + 0.5)), draw(st.floats(4.0, 7.0)), draw(st.floats(0.0, 2.0))],
                "val": [draw(st.floats(0.3, 2.0)) * (0.3 if heavy else 1.0), draw(st.floats(0.5, 1.0)), draw(st.floats(3.0, 5.0)), draw(st.floats(0.0, 2.0))],
            }
        pdf["21"] = {"sea": [draw(st.floats(0.5, 3.0)), draw(st.floats(lo_a, lo_a + 0.3)), draw(st.floats(4.0, 7.0)), draw(st.floats(0.0, 2.0))]}
        if up:
            card.update(init=[lo_s, nfl], mugrid=[[hi_s, nfl + 1]], inv=None)
        if n == 3:
            lambdas = [1.0, 0.5, 0.25]
        else:  # quick tier: three couplings (two local exponents), skipping the largest one
            lambdas = [0.5, 0.25, 0.125] if quick else [1.0, 0.5, 0.25, 0.125]
        return {"n": n, "mode": mode, "up": up, "nfl": nfl, "k": [k1, k2], "lambdas": lambdas, "card": card, "pdf": pdf,
                "prepared_input": bool(not up and not with_heavy)}

    return build()


class _TightQuad:
    """Stand-in for the ``scipy.integrate`` module as seen by eko.evolution_operator: same quad, tighter epsrel."""

    def __init__(self, mod, epsrel):
        self._mod = mod
        self._epsrel = epsrel

    def quad(self, *a, **kw):
        kw["epsrel"] = self._epsrel
        kw["epsabs"] = min(kw.get("epsabs", 1e-12), 1e-13)
        kw["limit"] = max(kw.get("limit", 100), 200)
        return self._mod.quad(*a, **kw)

    def __getattr__(self, name):
        return getattr(self._mod, name)


def tight_quad(epsrel=1e-9):
    import contextlib

    import eko.evolution_operator as evop

    @contextlib.contextmanager
    def ctx():
        orig = evop.integrate
        evop.integrate = _TightQuad(orig, epsrel)
        try:
            yield
        finally:
            evop.integrate = orig

    return ctx()


def toy_input(pdf, xs):
    xs = np.asarray(xs)
    f = np.zeros((14, len(xs)))
    for k, v in pdf.items():
        pid = int(k)
        sea = shape(v["sea"], xs) / xs
        if pid == 21:
            f[IDX[21]] = sea
        else:
            f[IDX[-pid]] = sea
            f[IDX[pid]] = sea + shape(v["val"], xs) / xs
    return f


def evolved(card, f0):
    ops = ru.solve(card)
    (_, (op, _e)), = ops.items()
    return np.einsum("ajbk,bk->aj", op, f0)


def local_exponents(R):
    out = []
    for a, b in zip(R[:-1], R[1:]):
        out.append(math.log2(a / b) if a > 0 and b > 0 else float("nan"))
    return out


def check_case(case):
    res = CaseResult()
    n, card = case["n"], case["card"]
    direction = "up" if case["up"] else "down"
    res.classes = [f"n={n}", f"mode={case['mode']}", f"dir={direction}", f"inv={card['inv']}", f"npts={len(card['xgrid'])}", f"prepared={case.get('prepared_input', False)}"]
    res.key = [n, case["mode"], direction, card["inv"], len(card["xgrid"]), card["method"]]
    f0 = toy_input(case["pdf"], card["xgrid"])
    R = []
    diffs = []
    fmax = 0.0
    workers = case.get("workers", 4)
    try:
        with tight_quad():
            lams = case["lambdas"]
            fins = [f0] * len(lams)
            if case.get("prepared_input"):
                # heavy-free input below the threshold, brought above it with unit matching ratio
                preps = []
                for lam in lams:
                    c = copy.deepcopy(card)
                    c["alphas"] = card["alphas"] * lam
                    c.update(init=card["mugrid"][0], mugrid=[card["init"]], inv=None, ratios=[1.0, 1.0, 1.0])
                    preps.append(c)
                fins = [np.einsum("ajbk,bk->aj", list(o.values())[0][0], f0) for o in ru.solve_many(preps, workers)]
            cards_ = []
            for lam in lams:
                for k in case["k"]:
                    c = copy.deepcopy(card)
                    c["alphas"] = card["alphas"] * lam
                    c["ratios"] = [1.0, 1.0, 1.0]
                    c["ratios"][case["nfl"] - 3] = k
                    cards_.append(c)
            outs = ru.solve_many(cards_, workers)
            for i, lam in enumerate(lams):
                fs = [np.einsum("ajbk,bk->aj", list(outs[2 * i + j].values())[0][0], fins[i]) for j in range(2)]
                R.append(float(np.max(np.abs(fs[0] - fs[1]))))
                diffs.append(fs[0] - fs[1])
                fmax = max(fmax, float(np.max(np.abs(fs[0]))))
    except (NotImplementedError, ValueError, ru.SolveRefused) as e:
        return CaseResult(discarded=f"refused:{type(e).__name__}")
    except ru.SolveCrashed as e:  # crashes are C04's verdict
        return CaseResult(discarded="crash(decided by C04):" + str(e)[:80])
    noise = 1e-9 * fmax
    usable = [r for r in R if r > 100 * noise]
    res.nontrivial = bool(R[0] > 100 * noise and len(usable) >= 2)
    if not res.nontrivial:
        return res
    # every flavour channel (and every q - qbar combination) on its own, for n <= 2 (at n = 3 the interpolation floor
    # ~ eps_interp a_s^2 of small channels would mimic a lower order, so only the global norm is used there)
    if n <= 2:
        chans = {f"pid-row{i}": [np.max(np.abs(d[i])) for d in diffs] for i in range(1, 14)}
        for q in range(1, 7):
            chans[f"q{q}-qbar"] = [np.max(np.abs(d[IDX[q]] - d[IDX[-q]])) for d in diffs]
        for name, Rc in chans.items():
            Rc = [float(r) for r in Rc]
            use = [r for r in Rc if r > 100 * noise]
            if len(use) < 2 or Rc[0] < 1e-3 * R[0]:
                continue
            exc = local_exponents(use)
            # a channel is judged only if its local exponents do not rise towards n (a sign change of two competing
            # terms gives small, rising exponents on correct code); otherwise it is undecided
            if not max(exc) >= n - 0.3 and exc[-1] <= exc[0] + 0.2:
                kind = "heavy" if name in (f"pid-row{IDX[case['nfl'] + 1]}", f"pid-row{IDX[-(case['nfl'] + 1)]}", f"q{case['nfl'] + 1}-qbar") else "light"
                res.fail(
                    # more than 1.5 orders short is a different (grosser) failure than the listed ones (one order short)
                    f"{ID}/exponent-channel{'-gross' if max(exc) < n - 1.5 else ''}/{kind}/n={n}/mode={case['mode']}/dir={direction}",
                    f"channel {name}: matching-ratio dependence for k={case['k']} scales with local exponents "
                    f"{['%.2f' % e for e in exc]} (R={['%.3e' % r for r in Rc]}, lambdas {case['lambdas']}); required >= {n - 0.3:.1f}; "
                    f"path {card['init']} -> {card['mugrid'][0]} inv={card['inv']} method={card['method']}",
                )
                break
    ex = local_exponents(usable)
    best = max(ex)
    res.classes.append(f"best-exp~{round(best * 2) / 2}")
    if not best >= n - 0.3:
        res.fail(
            f"{ID}/exponent{'-gross' if best < n - 1.5 else ''}/n={n}/mode={case['mode']}/dir={direction}",
            f"matching-ratio dependence |f_k1 - f_k2| for k={case['k']} scales with local exponents {['%.2f' % e for e in ex]} "
            f"(R={['%.3e' % r for r in R]}, lambdas {case['lambdas']}); required >= {n - 0.3:.1f} at order {n}; "
            f"path {card['init']} -> {card['mugrid'][0]} inv={card['inv']} method={card['method']}",
        )
    return res

"""C33 threshold flavour rotations: matching basis <-> new evolution basis (exhaustive, exact)."""

from fractions import Fraction as F

from vf.core import CaseResult, exc_bucket
from vf.refs import flavor_ref as fr

ID = "C33"
LEVEL = "exploration"
TECHNIQUE = (
    "exhaustive enumeration nf 4-6 x {QCD,QED} x {forward,inverse}; exact Fraction comparison of flavour content "
    "against the intrinsic bases typed from FlavorSpace.rst, plus exact composition and the a-f formulas of Matching.rst"
)
RULE = (
    "Exhaustive enumeration over the upper flavour number nf=4,5,6, QCD/QED and direction. 'content': for every "
    "distribution t of the target basis (forward: documented intrinsic basis with nf flavours; inverse: the one with "
    "nf-1 flavours, i.e. the matching basis with h+-), sum_s m[t.s]*content(s) over the source basis must equal "
    "content(t) as exact pid->Fraction dictionaries, every target must be present and no key may refer to a label "
    "outside the two bases; untouched labels must map to themselves with coefficient 1. 'compose': "
    "inverse*forward and forward*inverse are exact identity maps on the full 14 labels. 'params': "
    "qed_rotation_parameters(nf) equals a..f of Matching.rst. 'content' is also asked after every single (thorough: every "
    "ordered pair of) earlier request(s) for any of the 12 maps, starting from a freshly loaded module (a map may not "
    "depend on what was asked before). Non-trivial = everything except the nf=4 QED "
    "forward entries pinned by tests/eko/evolution_operator/test_flavors.py; distinct by the case."
)
ASSUMPTIONS = [
    "the matching basis at a crossing nf-1 -> nf is the documented intrinsic (unified) evolution basis with nf-1 "
    "flavours, the new basis the one with nf flavours (vf/refs/flavor_ref.py, typed from FlavorSpace.rst)",
    "dictionary keys are 'target.source' (new.old for the forward map, old.new for the inverse), as in MemberName",
    "coefficients are floats that must lie within 1e-12 of a Fraction with denominator <= 1000; all algebra is exact",
]
LEVEL_TEXT = (
    "All 12 (nf, basis, direction) maps are enumerated and compared exactly with the documented flavour content of "
    "both bases, so the statement is decided exhaustively on its whole (finite) domain for a freshly loaded module; request histories are "
    "enumerated up to one (quick) / two (thorough) earlier requests."
)

NFS = (4, 5, 6)


def enumerate_cases(tier):
    cases = []
    for nf in NFS:
        for qed in (0, 1):
            for inv in (0, 1):
                cases.append({"kind": "content", "nf": nf, "qed": qed, "inverse": inv})
            cases.append({"kind": "compose", "nf": nf, "qed": qed})
        cases.append({"kind": "params", "nf": nf})
    # request histories: the same maps asked for after other maps, from a freshly loaded module (nothing may be remembered
    # between requests); quick: every single earlier request, thorough: every ordered pair of earlier requests
    combos = [(nf, qed, inv) for nf in NFS for qed in (0, 1) for inv in (0, 1)]
    priors = [[list(c)] for c in combos]
    if tier != "quick":
        priors += [[list(c), list(d)] for c in combos for d in combos]
    for nf, qed, inv in combos:
        for pr in priors:
            cases.append({"kind": "content", "nf": nf, "qed": qed, "inverse": inv, "prior": pr})
    return cases


def _fmt(d):
    return "{" + ", ".join(f"{p}: {c}" for p, c in sorted(d.items())) + "}"


def _load(nf, qed, inverse, res):
    """Call the code under test; returns {(target, source): Fraction} or None."""
    from eko.evolution_operator import flavors

    coords = f"qed={int(qed)}/{'inverse' if inverse else 'forward'}"
    try:
        m = flavors.rotate_matching_inverse(nf, bool(qed)) if inverse else flavors.rotate_matching(nf, bool(qed))
    except Exception as e:  # noqa: BLE001
        res.fail(exc_bucket(f"{ID}/call/{coords}", e), f"nf={nf}: {e!r}")
        return None
    out = {}
    for key, val in m.items():
        parts = str(key).split(".")
        if len(parts) != 2:
            res.fail(f"{ID}/key-format/{coords}", f"nf={nf}: key {key!r}")
            return None
        x = fr.to_fraction(val, max_den=1000)
        if x is None:
            res.fail(f"{ID}/non-rational/{coords}", f"nf={nf}: m[{key}] = {val!r}")
            return None
        out[(parts[0], parts[1])] = x
    return out


def _check_content(nf, qed, inverse, res):
    coords = f"qed={int(qed)}/{'inverse' if inverse else 'forward'}"
    m = _load(nf, qed, inverse, res)
    if m is None:
        return
    new, old = fr.intrinsic(nf, qed), fr.intrinsic(nf - 1, qed)
    tgt, src = (old, new) if inverse else (new, old)
    # keys must stay inside the two bases
    for t, s in m:
        if t not in tgt or s not in src:
            res.fail(f"{ID}/unknown-label/{coords}", f"nf={nf}: key {t}.{s} is outside the bases")
            return
    for t, want in tgt.items():
        row = {s: c for (tt, s), c in m.items() if tt == t and c != 0}
        if not row:
            res.fail(f"{ID}/missing-target/{coords}", f"nf={nf}: no entry produces {t}")
            continue
        acc = {}
        for s, c in row.items():
            fr.axpy(acc, c, src[s])
        if acc != fr.clean(want):
            res.fail(
                f"{ID}/content/{coords}",
                f"nf={nf}: {t} = " + " + ".join(f"({c})*{s}" for s, c in row.items()) + f" has flavour content "
                f"{_fmt(acc)}, the {'nf-1' if inverse else 'nf'}-flavour {t} is {_fmt(fr.clean(want))}",
            )
        # labels whose definition does not change across the threshold map to themselves
        if t in src and fr.clean(src[t]) == fr.clean(want) and row != {t: F(1)}:
            res.fail(f"{ID}/untouched/{coords}", f"nf={nf}: {t} is unchanged across the threshold but maps as {row}")


def _as_matrix(m, rows, cols):
    return [[m.get((r, c), F(0)) for c in cols] for r in rows]


def _check_compose(nf, qed, res):
    coords = f"qed={int(qed)}"
    fwd = _load(nf, qed, 0, res)
    inv = _load(nf, qed, 1, res)
    if fwd is None or inv is None:
        return
    new, old = list(fr.intrinsic(nf, qed)), list(fr.intrinsic(nf - 1, qed))
    for m, (rows, cols), name in ((fwd, (new, old), "forward"), (inv, (old, new), "inverse")):
        if any(t not in rows or s not in cols for t, s in m):
            res.fail(f"{ID}/unknown-label/{coords}/{name}", f"nf={nf}: a key is outside the bases")
            return
    a = _as_matrix(fwd, new, old)  # new <- old
    b = _as_matrix(inv, old, new)  # old <- new
    eye = [[F(int(i == j)) for j in range(14)] for i in range(14)]
    if fr.mat_mul(b, a) != eye:
        bad = [(old[i], old[j], x) for i, r in enumerate(fr.mat_mul(b, a)) for j, x in enumerate(r) if x != eye[i][j]]
        res.fail(f"{ID}/compose/inverse*forward/{coords}", f"nf={nf}: not the identity on the matching basis: {bad[:4]}")
    if fr.mat_mul(a, b) != eye:
        bad = [(new[i], new[j], x) for i, r in enumerate(fr.mat_mul(a, b)) for j, x in enumerate(r) if x != eye[i][j]]
        res.fail(f"{ID}/compose/forward*inverse/{coords}", f"nf={nf}: not the identity on the new basis: {bad[:4]}")


def _check_params(nf, res):
    from eko.evolution_operator import flavors

    try:
        got = flavors.qed_rotation_parameters(nf)
    except Exception as e:  # noqa: BLE001
        res.fail(exc_bucket(f"{ID}/params/call", e), f"nf={nf}: {e!r}")
        return
    want = fr.qed_rotation_parameters_doc(nf - 1)
    if len(got) != 6:
        res.fail(f"{ID}/params/shape", f"nf={nf}: {got}")
        return
    for name, g, w in zip("abcdef", got, want):
        x = fr.to_fraction(g, max_den=1000)
        if x is None or x != w:
            res.fail(f"{ID}/params/{name}", f"qed_rotation_parameters({nf}).{name} = {g!r}, Matching.rst gives {w}")


def check_case(case):
    res = CaseResult()
    kind = case["kind"]
    if kind == "content":
        nf, qed, inv = case["nf"], case["qed"], case["inverse"]
        res.classes = [f"content-{'qed' if qed else 'qcd'}-{'inv' if inv else 'fwd'}"]
        res.nontrivial = not (nf == 4 and qed == 1 and inv == 0)
        if case.get("prior"):
            import importlib

            from eko.evolution_operator import flavors

            importlib.reload(flavors)  # the case is the whole history since the module was loaded
            res.classes.append(f"after-{len(case['prior'])}-earlier-requests")
            res.nontrivial = True
            for pnf, pqed, pinv in case["prior"]:
                try:
                    (flavors.rotate_matching_inverse if pinv else flavors.rotate_matching)(pnf, bool(pqed))
                except Exception:  # noqa: BLE001 - judged by the case that asks for this map itself
                    pass
        _check_content(nf, qed, inv, res)
    elif kind == "compose":
        res.classes = [f"compose-{'qed' if case['qed'] else 'qcd'}"]
        _check_compose(case["nf"], case["qed"], res)
    elif kind == "params":
        res.classes = ["params"]
        _check_params(case["nf"], res)
    else:
        raise ValueError(kind)
    return res


def budget(tier):
    return dict(enum_shards=2 if tier == "quick" else 8, wall_s=60 if tier == "quick" else 600)

"""C23 exp_matrix_2D / exp_matrix: exponential vs scipy.linalg.expm, eigenvalues and projector algebra."""

import math

from hypothesis import strategies as st

from vf.core import CaseResult, exc_bucket
from vf.refs import k1_matrices as km

ID = "C23"
LEVEL = "exploration"
TECHNIQUE = (
    "matrices constructed as V diag(lambda) V^-1 with prescribed conditioning and eigenvalue separation; oracle = "
    "scipy.linalg.expm, the constructed spectrum, and the projector identities"
)
RULE = (
    "M = V diag(lambda) V^-1, V = U1 diag(s) U2 (Givens-built unitaries, cond(V) = kappa log-uniform in [1,50]), "
    "eigenvalues in distinct lattice cells of the square inscribed in |lambda| <= 50/kappa (so ||M||_2 <= 50) with "
    "min |lambda_i-lambda_j| >= 0.1 by construction ('spectral', 2/5 of the cases); 'singular' (1/5): the same with the "
    "first eigenvalue exactly 0 (1/4) or of modulus 10^-(k+u) * 50/kappa, k in 3..16, any phase (a singular or nearly "
    "singular matrix such as gamma_S(N=2); the other eigenvalues keep any phase); 'near' (2/5): a special matrix S "
    "(Hermitian, real symmetric, normal, diagonal or upper triangular, eigenvalues >= 0.2 apart by construction) plus "
    "a generic complex perturbation, M = S + eps ||S|| P/dim with |P_ij| <= 1 and eps = 10^-(k+u), k in 3..11 (or "
    "exactly 0, 1/8), kept when the perturbed matrix still has separation >= 0.1, norm <= 50, cond(V) <= 50 (else "
    "discarded and counted). exp_matrix_2D on 2x2, exp_matrix on 2x2 and 4x4. Checked: "
    "exp == scipy.linalg.expm(M); returned eigenvalues == constructed spectrum; P_i P_j = delta_ij P_i; sum P_i = 1; "
    "M = sum lambda_i P_i. Non-trivial = eigenvalues with both signs of the real part (all are complex); distinct by "
    "the full case."
)
ASSUMPTIONS = [
    "scipy.linalg.expm (Al-Mohy/Higham scaling and squaring) is the trusted reference exponential",
    "tolerances (2-norm): exp 1e-9*kappa*exp(max Re lambda) (DESIGN C23); P_iP_j 1e-9*kappa^2; sum P 1e-9*kappa; "
    "spectral sum and eigenvalues 1e-9*kappa*max(1,||M||)",
    "'near' family: eigenvalues and cond(V) of the perturbed matrix come from numpy.linalg.eig in the harness; they only "
    "scale the tolerances / confirm the domain, the verdict rests on expm, the projector identities and M = sum "
    "lambda_i P_i (Bauer-Fike: eigenvalues of a normal S move by <= eps ||S|| <= 0.05)",
    "domain = diagonalisable matrices with well separated eigenvalues (>= 0.1) as stated by the property; defective or "
    "degenerate matrices (where exp_matrix_2D divides by zero) are outside it",
]
LEVEL_TEXT = (
    "Exploration: thousands of generated diagonalisable complex matrices covering the 2x2 closed form and the general "
    "eigen-decomposition (2x2, 4x4) over the stated range of norms and conditioning; random sampling, not a proof."
)

TOL = 1e-9


def budget(tier):
    if tier == "quick":
        return dict(max_examples=3000, shards=8, wall_s=60, shrink_s=30)
    return dict(max_examples=50000, shards=16, wall_s=600, shrink_s=120)


@st.composite
def _case(draw):
    fn = draw(st.sampled_from(["2D", "gen2", "gen4"]))
    dim = 4 if fn == "gen4" else 2
    family = draw(st.sampled_from(["spectral", "spectral", "near", "near", "singular"]))
    if family == "near":
        return {"fn": fn, "near": draw(km.near_special_case(dim))}
    return {
        "fn": fn,
        "mat": draw(km.spectral_case(dim, kappa_max=50.0, norm_max=50.0, min_sep=0.1, tiny_first=family == "singular")),
    }


def strategy(tier):
    return _case()


def check_case(case):
    import numpy as np
    import scipy.linalg

    from ekore import anomalous_dimensions as ad

    fn = case["fn"]
    near = case.get("near")
    if near is None:
        m, _v, lam, kappa = km.materialise(case["mat"])
    else:
        # special matrix + small generic perturbation: spectrum and conditioning of the perturbed matrix are only
        # needed to scale the tolerances and to confirm the domain (they are not the oracle)
        m, _s = km.materialise_near(near)
        lam, vec = np.linalg.eig(m)
        kappa = float(np.linalg.cond(vec))
    dim = m.shape[0]
    nm = max(1.0, float(np.linalg.norm(m, 2)))
    emax = math.exp(float(max(lam.real)))
    res = CaseResult()
    both = bool((lam.real > 0).any() and (lam.real < 0).any())
    res.nontrivial = both
    res.classes = [
        fn,
        ("singular" if abs(lam[0]) < 1e-2 * max(abs(lam)) else "spectral") if near is None else f"near-{near['family']}",
        "kappa<3" if kappa < 3 else ("kappa<15" if kappa < 15 else "kappa>=15"),
        "norm<5" if nm < 5 else ("norm<20" if nm < 20 else "norm>=20"),
        "both-signs" if both else "one-sign",
    ]
    sep = min(abs(lam[i] - lam[j]) for i in range(dim) for j in range(i))
    if near is not None:
        eps = near["eps"]
        res.classes.append("eps=0" if eps == 0 else f"eps:1e{math.floor(math.log10(eps))}")
        if sep < 0.1 or nm > 50.0 or kappa > 50.0:
            return CaseResult(discarded=f"near-{near['family']}: outside the domain after perturbation")
    elif sep < 0.1 * (1 - 1e-12) or nm > 50.0 * (1 + 1e-9):
        raise AssertionError(f"generator broke its contract: sep={sep}, norm={nm}")  # harness error

    try:
        if fn == "2D":
            exp, lp, lm, ep, em = ad.exp_matrix_2D(m)
            w = np.array([lp, lm])
            proj = np.array([ep, em])
        else:
            exp, w, proj = ad.exp_matrix(m)
            w = np.asarray(w)
            proj = np.asarray(proj)
    except Exception as e:  # noqa: BLE001
        return res.fail(exc_bucket(f"{ID}/call/{fn}", e), f"{e!r} on M={m.tolist()}")
    exp = np.asarray(exp)
    fam = "" if near is None else f", {near['family']} + eps={near['eps']:.3g}"
    info = f"[{fn}{fam}, kappa={kappa:.3g}, ||M||={nm:.3g}, eig={lam.tolist()}, M={m.tolist()}]"
    if not (np.isfinite(exp).all() and np.isfinite(w).all() and np.isfinite(proj).all()):
        return res.fail(f"{ID}/{fn}/nonfinite", f"non-finite output {info}")

    def n2(x):
        return float(np.linalg.norm(x, 2))

    ref = scipy.linalg.expm(m)
    d = n2(exp - ref)
    if d > TOL * kappa * emax:
        res.fail(f"{ID}/{fn}/exp", f"||exp - expm|| = {d:.3e} > {TOL * kappa * emax:.3e} {info}")
    # spectrum
    left = list(lam)
    for x in w:
        jb = min(range(len(left)), key=lambda j: abs(left[j] - x))
        if abs(left[jb] - x) > TOL * kappa * nm:
            res.fail(f"{ID}/{fn}/eigenvalues", f"returned eigenvalues {w.tolist()} vs constructed {lam.tolist()} {info}")
            break
        left.pop(jb)
    # projector algebra
    eye = np.eye(dim)
    for i in range(dim):
        for j in range(dim):
            want = proj[i] if i == j else np.zeros((dim, dim))
            d = n2(proj[i] @ proj[j] - want)
            if d > TOL * kappa**2:
                res.fail(f"{ID}/{fn}/PiPj", f"||P{i}P{j} - delta P{i}|| = {d:.3e} > {TOL * kappa**2:.3e} {info}")
    d = n2(proj.sum(axis=0) - eye)
    if d > TOL * kappa:
        res.fail(f"{ID}/{fn}/sumP", f"||sum P - 1|| = {d:.3e} {info}")
    d = n2(sum(w[i] * proj[i] for i in range(dim)) - m)
    if d > TOL * kappa * nm:
        res.fail(f"{ID}/{fn}/spectral-sum", f"||sum lambda_i P_i - M|| = {d:.3e} > {TOL * kappa * nm:.3e} {info}")
    return res

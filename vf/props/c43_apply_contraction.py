"""C43 applying an EKO to a PDF is the operator contraction (ekobox.apply on synthetic EKOs)."""

import numpy as np

from vf import runner_util as ru
from vf.core import CaseResult, exc_bucket
from vf.refs import b_synth as bs

ID = "C43"
LEVEL = "exploration"
ENGINE = "B"
TECHNIQUE = (
    "Hypothesis-generated synthetic EKOs (public create/build API, random dense or single-entry operator and error "
    "tensors) applied to table PDFs; oracle = explicit-loop contraction, doc-typed evolution-basis tables, "
    "independent log-Lagrange interpolation matrix"
)
RULE = (
    "Synthetic EKOs with 1-4 evolution points (nf 3-6) listed in the operator card, in 40% of the cases 1-2 further "
    "points stored after build (eko[ep] = Operator(...)) and in 1/6 1-2 points added by ekos_product with a second "
    "synthetic EKO (reference = the operator stored for them), jittered grids of 3-8 points from x_min in [1e-9, "
    "0.25] (linear grids from 1e-4) with degree 1-4, QCD or QED "
    "theory card, per point a dense normal (or single-entry) operator and an optional error tensor, applied on the "
    "freshly built object or after close + EKO.read. Inputs: table PDFs xf(x,Q2) with a random subset of 0-13 "
    "flavours missing (apply_pdf with/without rotation to the (unified) evolution basis and with/without a target "
    "grid: 1-6 points mixing grid nodes and interior points, the grid itself, or the grid with nodes moved by < 8e-6 "
    "relative or < 1e-8 absolute (same length, np.allclose to it, not equal), each ascending, descending or in "
    "arbitrary order (results are expected at exactly the requested points in the requested order); one third of the EKOs built from a card with "
    "interpolation_is_log False (interpolation in x, freshly built object only); apply_pdf_flavor with a random "
    "m x 14 rotation and "
    "arbitrary labels), raw replica grids (apply_grids, 1-3 replicas) and wrongly shaped grids (must raise "
    "ValueError). Oracle: out[ep][a][j] = sum_{b,k} op[a,j,b,k] xf_b(x_k, mu0^2)/x_k by explicit loops (same for the "
    "error tensor, only where an error is stored), rotation rows from the documented basis definitions "
    "(vf.refs.flavor_ref), target grid by an independent Lagrange matrix (in ln x, or in x for linear grids) built from Interpolation.rst; key "
    "sets and label order as documented. Non-trivial = at least 2 points, a missing flavour and rotation or target "
    "grid on (apply_grids: >= 2 points and >= 2 replicas); distinct by case."
)
ASSUMPTIONS = [
    "tolerance 1e-10 x S + 1e-300 with S = sum |op||f| pushed through |rotation| and |interpolation weights|; for "
    "interpolated results S additionally contains 64 eps/1e-10 x the size of the monomial terms of each basis "
    "polynomial (prod (|t|+|t_k|)/|t_j-t_k|), because the code evaluates the polynomials in monomial form: measured "
    "worst deviations 5e-16 S without and 1.03 eps x monomial size with a target grid (1200 cases)",
    "evolution-basis definitions typed from doc/source/theory/FlavorSpace.rst in vf/refs/flavor_ref.py (the integer "
    "tables of eko.basis_rotation themselves are decided by C31)",
    "target points lie inside [x_min, 1], in any order; the code interpolates at the points in the order given "
    "(InterpolatorDispatcher.get_interpolation iterates the target grid), also for permutations and np.allclose-"
    "neighbours of the internal grid",
    "the returned dictionaries must hold every evolution point stored in the EKO (eko.items()), whether or not the "
    "operator card lists it",
    "interpolation in ln(x) or, for cards with interpolation_is_log False, in x with the same area/block rule; linear "
    "grids are applied on the freshly built object only, because the archive metadata cannot store the flag (open "
    "known finding C36/C40 'xgrid-log-flag')",
]
LEVEL_TEXT = (
    "Generated-input exploration of apply_pdf / apply_pdf_flavor / apply_grids / rotate_result on synthetic EKOs with "
    "an independent plain-loop oracle; the input space (tensors, PDFs, grids) is continuous, so it is sampled, not "
    "exhausted."
)

TOL = 1e-10
AMP_W = 64 * 2.220446049250313e-16 / TOL  # rounding of a monomial-form polynomial: 64 eps x size of its terms


def budget(tier):
    if tier == "quick":
        return dict(max_examples=304, shards=8, wall_s=80, shrink_s=40)
    return dict(max_examples=5000, shards=16, wall_s=800, shrink_s=200)


# --------------------------------------------------------------------------- generator


def strategy(tier):
    from hypothesis import strategies as st

    @st.composite
    def build(draw):
        n = draw(st.integers(3, 8))
        is_log = draw(st.sampled_from([True, True, False]))
        # logarithmic grids reach down to 1e-9 (np.allclose-type shortcuts bite there), linear ones to 1e-4
        xmin = 10 ** draw(st.floats(-9 if is_log else -4, -0.6))
        jit = [draw(st.floats(0.6, 1.6)) for _ in range(n - 1)]
        xgrid = bs.make_xgrid(n, xmin, jit)
        deg = draw(st.integers(1, min(4, n - 1)))
        npts = draw(st.sampled_from([1, 2, 2, 3, 4]))
        points, seen = [], set()
        for _ in range(npts):
            mu = float(round(10 ** draw(st.floats(0.0, 3.0)), 6))
            nf = draw(st.integers(3, 6))
            if (mu, nf) not in seen:
                seen.add((mu, nf))
                points.append([mu, nf])
        mode = draw(st.sampled_from(["pdf", "pdf", "pdf", "pdf", "flavor", "flavor", "grids", "badshape"]))
        nmiss = draw(st.sampled_from([0, 1, 2, 3, 5, 9, 13]))
        missing = sorted(draw(st.permutations(list(bs.FLAV)))[:nmiss])
        seen = {(mu, nf) for mu, nf in points}
        extra = []
        for _ in range(draw(st.sampled_from([0, 0, 0, 1, 2]))):
            mu = float(round(10 ** draw(st.floats(0.0, 3.0)), 6))
            nf = draw(st.integers(3, 6))
            if (mu, nf) not in seen:
                seen.add((mu, nf))
                extra.append([mu, nf])
        product = []
        if draw(st.sampled_from([False] * 5 + [True])):
            for _ in range(draw(st.integers(1, 2))):
                mu = float(round(10 ** draw(st.floats(0.0, 3.0)), 6))
                nf = draw(st.integers(3, 6))
                if (mu, nf) not in seen:
                    seen.add((mu, nf))
                    product.append([mu, nf])
        target, tkind = None, "none"
        if draw(st.sampled_from([False, True, True])):
            tkind = draw(st.sampled_from(["mixed", "mixed", "interior", "grid", "perturbed", "perturbed"]))
            if tkind == "grid":
                target = list(xgrid)
            elif tkind == "perturbed":
                # the grid itself with nodes moved by < 8e-6 relative or < 1e-8 absolute (lowest node only up, highest
                # only down, order and separation kept): same length, within np.allclose of the grid, not equal
                target = []
                for i, x in enumerate(xgrid):
                    how = draw(st.sampled_from(["keep", "rel", "abs"]))
                    u = draw(st.floats(0.1, 1.0))
                    sign = 1.0 if (draw(st.booleans()) or i == 0) and i != n - 1 else -1.0
                    y = x * (1.0 + sign * u * 8e-6) if how == "rel" else (x + sign * u * 0.9e-8 if how == "abs" else x)
                    lo = target[-1] * 1.001 if target else 0.0
                    hi = (xgrid[i + 1] - 1e-8) / 1.001 if i + 1 < n else 1.0
                    target.append(float(y) if lo < y <= hi else float(x))
                if target == list(xgrid):
                    target[0] = float(xgrid[0] * (1.0 + 4e-6))
            else:
                target = []
                for _ in range(draw(st.integers(1, 6))):
                    if tkind == "mixed" and draw(st.booleans()):
                        target.append(xgrid[draw(st.integers(0, n - 1))])
                    else:
                        u = draw(st.floats(0.0, 1.0))
                        target.append(float(np.exp(np.log(xgrid[0]) * (1.0 - u))))
                target = sorted(set(target))
            # results are delivered in the order of the requested points
            order = draw(st.sampled_from(["ascending", "ascending", "descending", "shuffled"]))
            if order == "descending":
                target = target[::-1]
            elif order == "shuffled":
                target = list(draw(st.permutations(target)))
        case = dict(
            seed=draw(st.integers(0, 2**31 - 1)),
            xgrid=xgrid,
            deg=deg,
            qed=draw(st.sampled_from([0, 0, 1])),
            init=[float(round(10 ** draw(st.floats(0.0, 1.0)), 6)), draw(st.integers(3, 6))],
            points=points,
            extra=extra,
            product=product,
            errs=[draw(st.integers(0, 3)) > 0 for _ in points],
            kind=draw(st.sampled_from(["dense", "dense", "dense", "unit"])),
            unit=[draw(st.integers(0, 13)), draw(st.integers(0, 7)), draw(st.integers(0, 13)), draw(st.integers(0, 7)),
                  draw(st.sampled_from([1.0, -2.0, 0.5]))],
            missing=missing,
            mode=mode,
            rotate=draw(st.booleans()),
            target=target,
            tkind=tkind,
            reopen=draw(st.booleans()),
            is_log=is_log,
            nrep=draw(st.integers(1, 3)),
            rot_rows=draw(st.sampled_from([0, 1, 3, 14, 16])),
            bad=draw(st.sampled_from(["2d", "flavours", "xpoints", "swapped", "4d"])),
        )
        if not case["is_log"]:
            # the archive metadata cannot store the interpolation type (open finding C36/C40 'xgrid-log-flag'):
            # a linear grid survives only on the freshly built object
            case["reopen"] = False
        return case

    return build()


# --------------------------------------------------------------------------- oracle pieces

# documented order of the output distributions (docstrings of basis_rotation.evol_basis / unified_evol_basis:
# "gamma, Sigma, g, V, V3, V8, V15, V24, V35, T3, T8, T15, T24, T35" and "g, gamma, Sigma, Sigma_Delta, V, V_Delta,
# Td3, Vd3, Tu3, Vu3, Td8, Vd8, Tu8, Vu8")
QCD_ORDER = ("ph", "S", "g", "V", "V3", "V8", "V15", "V24", "V35", "T3", "T8", "T15", "T24", "T35")
UNIFIED_ORDER = ("g", "ph", "S", "Sdelta", "V", "Vdelta", "Td3", "Vd3", "Tu3", "Vu3", "Td8", "Vd8", "Tu8", "Vu8")


def evolution_rows(qed):
    """[(label pid, {flavour pid: coefficient})] in the documented order of the (unified) evolution basis."""
    from vf.refs import flavor_ref as fr

    if qed:
        return [(fr.UNIFIED_EVOL_PIDS[name], fr.UNIFIED_EVOL[name]) for name in UNIFIED_ORDER]
    return [(fr.QCD_EVOL_PIDS[name], fr.QCD_EVOL[name]) for name in QCD_ORDER]


def rotate_rows(rows, out, scale):
    """rows: list of coefficient vectors over FLAV (list of 14 floats)."""
    new = np.zeros((len(rows), out.shape[1]))
    news = np.zeros_like(new)
    for i, row in enumerate(rows):
        for b in range(bs.NF):
            if row[b] != 0.0:
                new[i] += row[b] * out[b]
                news[i] += abs(row[b]) * scale[b]
    return new, news


def to_target(rmat, amat, out, scale):
    """Interpolate; the scale adds AMP_W x (size of the monomial terms of each basis polynomial) to |R|."""
    new = np.zeros((out.shape[0], rmat.shape[0]))
    news = np.zeros_like(new)
    for a in range(out.shape[0]):
        for i in range(rmat.shape[0]):
            new[a, i] = float(np.dot(rmat[i], out[a]))
            news[a, i] = float(np.dot(np.abs(rmat[i]) + AMP_W * amat[i], scale[a]))
    return new, news


def compare(res, bucket, what, got, want, scale):
    got = np.asarray(got, dtype=float)
    if got.shape != want.shape:
        res.fail(f"{bucket}/shape", f"{what}: shape {got.shape} instead of {want.shape}")
        return
    dev = np.abs(got - want)
    lim = TOL * scale + 1e-300
    if not np.all(np.isfinite(got)) or np.any(dev > lim):
        idx = np.unravel_index(int(np.nanargmax(dev - lim)), dev.shape)
        res.fail(
            bucket,
            f"{what}: entry {tuple(int(i) for i in idx)} is {got[idx]!r}, reference contraction gives {want[idx]!r} "
            f"(deviation {dev[idx]:.3e}, scale {scale[idx]:.3e})",
        )


# --------------------------------------------------------------------------- check


def check_case(case):
    from eko.io.struct import EKO
    from ekobox import apply

    res = CaseResult()
    xgrid, deg, qed, mode = case["xgrid"], case["deg"], bool(case["qed"]), case["mode"]
    is_log = bool(case.get("is_log", True))
    if not is_log and case["reopen"]:
        return CaseResult(discarded="linear grid re-read from disk (flag not stored: C36/C40)")
    n = len(xgrid)
    points = case["points"]
    target = case["target"]
    rng = np.random.default_rng(case["seed"])
    tensors = {}
    for p, has_err in zip(points, case["errs"]):
        op = bs.random_operator(rng, n, case["kind"], case["unit"])
        err = bs.random_error(rng, n) if has_err else None
        tensors[bs.ep_of(p)] = (op, err)
    extra_tensors = {}
    for p in case.get("extra", []):
        extra_tensors[bs.ep_of(p)] = (bs.random_operator(rng, n), bs.random_error(rng, n) if rng.uniform() < 0.6 else None)
    product_tensors = {}
    for p in case.get("product", []):
        product_tensors[bs.ep_of(p)] = (bs.random_operator(rng, n), bs.random_error(rng, n))
    pdf = bs.TablePDF(bs.random_pdf_params(rng, set(case["missing"])))
    mu20 = case["init"][0] ** 2
    rot_m = case["rot_rows"]
    rotation = rng.normal(size=(rot_m, bs.NF)) if rot_m else None
    labels = [1000 + 7 * i for i in range(rot_m)] if rot_m else [5000 + i for i in range(bs.NF)]
    reps = rng.normal(size=(case["nrep"], bs.NF, n))

    rot_on = (case["rotate"] if mode == "pdf" else rotation is not None) if mode in ("pdf", "flavor") else False
    tgt_on = target is not None and mode in ("pdf", "flavor")
    res.classes = [
        f"mode={mode}", f"qed={int(qed)}", f"points={len(points)}", f"n={n}", f"deg={deg}",
        f"missing={len(case['missing'])}", f"kind={case['kind']}", f"reopen={case['reopen']}",
        f"interp={'log' if is_log else 'linear'}",
        f"errors={sum(case['errs'])}/{len(points)}",
    ]
    res.classes += [f"extra-points={len(extra_tensors)}", f"product-points={len(product_tensors)}",
                    f"xmin={'<1e-6' if xgrid[0] < 1e-6 else '<1e-3' if xgrid[0] < 1e-3 else '>=1e-3'}"]
    if mode in ("pdf", "flavor"):
        torder = "none" if target is None else ("ascending" if target == sorted(target) else
                                                "descending" if target == sorted(target, reverse=True) else "shuffled")
        tk = case.get("tkind", "none" if target is None else "mixed")
        res.classes += [f"rotate={rot_on}", f"target={tk}", f"target-order={torder}",
                        f"target-len={'none' if target is None else 'n' if len(target) == n else 'other'}"]
    if mode in ("pdf", "flavor"):
        res.nontrivial = len(points) >= 2 and len(case["missing"]) >= 1 and (rot_on or tgt_on)
    elif mode == "grids":
        res.nontrivial = len(points) >= 2 and case["nrep"] >= 2
    else:
        res.nontrivial = False

    theory, operator = ru.cards(bs.card_case(xgrid, deg, case["init"], points, qed=int(qed), is_log=is_log))
    d = bs.fresh_dir("vf-c43-")
    eko = None
    try:
        path = d / "eko.tar"
        eko = bs.build_eko(path, theory, operator, tensors)
        # evolution points stored later, which the operator card does not list
        from eko.io.struct import Operator
        for ep, (op, err) in extra_tensors.items():
            eko[ep] = Operator(operator=np.array(op), error=None if err is None else np.array(err))
            tensors[ep] = (op, err)
        if product_tensors:
            # ... or put there by the library's own ekos_product; the reference is the operator it stored (the product
            # itself is C44's business)
            from ekobox import utils
            fin = None
            try:
                _, op_fin = ru.cards(bs.card_case(xgrid, deg, points[0], case["product"], qed=int(qed), is_log=is_log))
                fin = bs.build_eko(d / "fin.tar", theory, op_fin, product_tensors)
                try:
                    utils.ekos_product(eko, fin)
                except Exception as e:  # noqa: BLE001
                    res.fail(exc_bucket(f"{ID}/setup/ekos_product", e), repr(e))
                    return res
            finally:
                bs.safe_close(fin)
            for ep in product_tensors:
                stored = eko[ep]
                tensors[ep] = (np.array(stored.operator), None if stored.error is None else np.array(stored.error))
                del eko[ep]
        if case["reopen"]:
            eko.close()
            eko = EKO.read(path)

        # ---------------- wrongly shaped raw grids must be refused
        if mode == "badshape":
            bad = {
                "2d": np.ones((bs.NF, n)),
                "flavours": np.ones((2, bs.NF - 1, n)),
                "xpoints": np.ones((2, bs.NF, n + 1)),
                "swapped": np.ones((1, n, bs.NF)),
                "4d": np.ones((1, 1, bs.NF, n)),
            }[case["bad"]]
            res.classes.append(f"bad={case['bad']}")
            try:
                apply.apply_grids(eko, bad)
                res.fail(f"{ID}/badshape-accepted/{case['bad']}", f"apply_grids accepted input of shape {bad.shape}")
            except ValueError:
                pass
            except Exception as e:  # noqa: BLE001
                res.fail(exc_bucket(f"{ID}/badshape-wrong-exception", e), f"shape {bad.shape}: {e!r}")
            return res

        # ---------------- raw replica grids
        if mode == "grids":
            try:
                got, goterr = apply.apply_grids(eko, reps.copy())
            except Exception as e:  # noqa: BLE001
                res.fail(exc_bucket(f"{ID}/call/apply_grids", e), repr(e))
                return res
            _check_keys(res, "grids", got, goterr, tensors)
            for ep, (op, err) in tensors.items():
                for name, tens, container in (("value", op, got), ("error", err, goterr)):
                    if tens is None or ep not in container:
                        continue
                    want = np.array([bs.contract(tens, reps[r]) for r in range(len(reps))])
                    scale = np.array([bs.contract_scale(tens, reps[r]) for r in range(len(reps))])
                    compare(res, f"{ID}/grids/{name}", f"apply_grids {name} at {ep}", container[ep], want, scale)
            return res

        # ---------------- PDF-like input
        try:
            if mode == "pdf":
                got, goterr = apply.apply_pdf(eko, pdf, targetgrid=target, rotate_to_evolution_basis=case["rotate"])
            else:
                got, goterr = apply.apply_pdf_flavor(eko, pdf, labels, target, rotation)
        except Exception as e:  # noqa: BLE001
            res.fail(exc_bucket(f"{ID}/call/{mode}", e), repr(e))
            return res
        if any(q2 != mu20 for q2 in pdf.calls):
            res.fail(f"{ID}/input-scale", f"input PDF evaluated at Q2 in {sorted(set(pdf.calls))}, initial scale is {mu20}")
        _check_keys(res, mode, got, goterr, tensors)

        # expected labels and rotation rows
        if mode == "pdf":
            if case["rotate"]:
                rows_def = evolution_rows(qed)
                want_labels = [lab for lab, _ in rows_def]
                rows = [[float(dct.get(pid, 0)) for pid in bs.FLAV] for _, dct in rows_def]
            else:
                want_labels, rows = list(bs.FLAV), None
        else:
            want_labels = labels
            rows = None if rotation is None else rotation.tolist()
        rmat, amat = (None, None) if target is None else bs.interp_matrix(xgrid, deg, target, True, log=is_log)
        f = bs.input_table(pdf, xgrid, mu20)
        for ep, (op, err) in tensors.items():
            for name, tens, container in (("value", op, got), ("error", err, goterr)):
                if tens is None or ep not in container:
                    continue
                labelled = container[ep]
                if list(labelled.keys()) != list(want_labels):
                    res.fail(f"{ID}/{mode}/labels/rotate={rot_on}",
                             f"{name} at {ep}: labels {list(labelled.keys())} instead of {list(want_labels)}")
                    continue
                want = bs.contract(tens, f)
                scale = bs.contract_scale(tens, f)
                stage = "contract"
                if rows is not None:
                    want, scale = rotate_rows(rows, want, scale)
                    stage = "rotate"
                if rmat is not None:
                    want, scale = to_target(rmat, amat, want, scale)
                    stage = "target" if rows is None else "rotate+target"
                arr = np.array([np.asarray(labelled[lab], dtype=float) for lab in want_labels])
                compare(res, f"{ID}/{mode}/{name}/{stage}", f"{mode} {name} at {ep}", arr, want, scale)
        return res
    finally:
        bs.safe_close(eko)
        bs.remove_dir(d)


def _check_keys(res, mode, got, goterr, tensors):
    want = set(tensors)
    if set(got) != want:
        res.fail(f"{ID}/{mode}/keys", f"result points {sorted(got)} instead of {sorted(want)}")
    want_err = {ep for ep, (_, err) in tensors.items() if err is not None}
    if set(goterr) != want_err:
        res.fail(f"{ID}/{mode}/error-keys", f"error points {sorted(goterr)} instead of {sorted(want_err)}")

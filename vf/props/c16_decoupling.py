"""C16 threshold matching of the strong coupling: decoupling relations and path determinism.

Finite part (exhaustive over scheme x nl): constants vs literature, RG series identity for every logarithmic
coefficient, down = series inverse of up.  Generated part: jump across a matching scale vs a table rebuilt from the
literature constants + RG identity, walk differential on the plumbing, matching-scale independence (scaling law).
"""

import math

from hypothesis import strategies as st

from vf.core import CaseResult, exc_bucket
from vf.strategies import floats, log_floats

ID = "C16"
LEVEL = "exploration"
TECHNIQUE = (
    "exhaustive (scheme x nl) literature constants + exact-Fraction RG series identity + series inversion; generated "
    "threshold jumps vs an independently rebuilt table, path-walk differential, matching-scale scaling law"
)
RULE = (
    "Finite part, exhaustive: for POLE/MSBAR x nl=3,4,5 (a) c20, c30 vs CKS 1997 / Schroder-Steinhauser 2005, (b) every "
    "coefficient of the RG identity beta^(nl+1)(G) = dG/da beta^(nl) + dG/dL (1 [+2 gamma_m^(nl+1)(G)]) through a^4, "
    "(c) down(up(a)) = up(down(a)) = a through a^4. Generated part (Hypothesis): 'jump' = a(mu_h^2,nl) vs a(mu_h^2,nl+1) "
    "across one matching scale (up or down, ratio 1 or in [0.5,2], orders 1-4, both methods and schemes) against a "
    "table rebuilt from the literature constants and the RG identity; 'path' = Couplings.a(mu^2,nf) for random masses, "
    "ratios in [0.5,2], reference (scale,nf) and target (scale,nf|None) in any patch incl. scales on a matching scale, "
    "QED order 0-2, against the harness's own walk (own path model, code's single-patch solver and tables); "
    "'invariance' = a_s beyond a threshold for two matching ratios, difference must scale like lambda^(n+1); "
    "mixture path:jump:invariance = 3:2:1, discrete choices picked uniformly from a Hypothesis-drawn seed. "
    "Non-trivial = finite cases; jumps; invariance; paths with >= 1 matching and (order >= 3 or the crossed ratio != 1). "
    "Distinct by the full case."
)
ASSUMPTIONS = [
    "literature constants typed in vf/refs/q1_decoupling.py (CKS hep-ph/9706430, Schroder-Steinhauser hep-ph/0512058), "
    "cross-validated there through the two-loop pole/MSbar mass relation; relative tolerance 1e-5 against the code's "
    "rounded decimals",
    "RG identity evaluated in exact Fractions with the C20 literature beta (Herzog et al.) and gamma_m (Vermaseren et "
    "al.) tables; MSBAR: the mass is the (nl+1)-flavour MSbar mass at the matching scale (convention of the cited "
    "eq. 3.1), dL/dln mu^2 = 1 + 2 gamma_m; residual tolerance 1e-10 x largest contributing coefficient",
    "jump tolerance: 1e-5 of the jump + 1e-13 relative (rounded constants in the code); LO (any ratio) and NLO with "
    "unit ratio must be continuous to 1e-15 relative",
    "walk differential: the single-patch solver (Couplings.compute) and the coefficient tables are the code's own "
    "(judged by C15 and the finite part); agreement 1e-12 relative; segments within numpy.isclose of zero length are "
    "skipped as documented in Couplings.a; lepton number switches at m_tau = 1.777 GeV",
    "invariance: expanded method (rounding-level evaluation), masses held fixed while the ratio changes (pole masses; "
    "for MSBAR the scale-invariant masses m(m) the runner passes); exponent from the last pair of the constant-sign "
    "tail (>= 3 long) of lambda = 2^-k, k <= 8, differences > 1e-13 relative; required >= n+1-0.25",
    "paths whose LO alpha_s exceeds 0.45 anywhere are outside the perturbative domain (discarded, counted)",
    "interpretive decision (DESIGN 4/C16): the MSBAR table is judged in the convention of the equation it cites "
    "(mass at the matching scale); whether Couplings.a feeds it the matching logarithm of that mass is judged end to "
    "end by the invariance sub-check with the masses the runner passes (m(m)); refs/q1_decoupling.py documents the "
    "alternative 'MSBAR-SI' table that would make the latter hold",
]
LEVEL_TEXT = (
    "The coefficient tables are finite and exhausted (every entry for both schemes and nl=3-5 is tied either to the "
    "literature or to RG invariance); the plumbing (which scale, nf, ratio, direction) is explored with generated paths."
)

LAMBDAS = [2.0**-k for k in range(9)]
FOURPI = 4 * math.pi


def budget(tier):
    if tier == "quick":
        return dict(max_examples=500, shards=8, wall_s=80, shrink_s=20, enum_shards=3)
    return dict(max_examples=8000, shards=16, wall_s=600, shrink_s=120, enum_shards=3)


# --------------------------------------------------------------------------- finite part


def enumerate_cases(tier):
    cases = []
    for scheme in ("POLE", "MSBAR"):
        for nl in (3, 4, 5):
            for kind in ("const", "rg-identity", "inverse"):
                cases.append({"kind": kind, "scheme": scheme, "nl": nl})
    return cases


# --------------------------------------------------------------------------- generators


def _rng(draw, salt=()):
    """Uniform discrete configuration choices: a numpy Generator seeded by an integer drawn by Hypothesis and salted
    with the floats drawn before it (Hypothesis' own small-sample distributions over sampled_from are strongly
    clumped at 60 examples per shard, and it likes to re-use single drawn values)."""
    import numpy as np

    return np.random.default_rng([draw(st.integers(0, 2**32 - 1))] + [int(x * 2**44) for x in salt])


def _pick(rng, seq):
    return seq[int(rng.integers(0, len(seq)))]


@st.composite
def _masses_ratios(draw):
    if draw(st.booleans()):
        masses = [draw(floats(1.2, 1.8)), draw(floats(4.0, 5.5)), draw(floats(150.0, 180.0))]
    else:
        masses = [draw(floats(1.2, 2.0)), draw(floats(8.5, 12.0)), draw(floats(50.0, 200.0))]
    ratios = [draw(st.one_of(st.just(1.0), floats(0.5, 2.0))) for _ in range(3)]
    # keep the matching scales ordered (a disordered atlas is outside numpy.digitize's domain)
    for i in (0, 1):
        if masses[i] * ratios[i] >= 0.95 * masses[i + 1] * ratios[i + 1]:
            ratios[i], ratios[i + 1] = ratios[i + 1], ratios[i]
    return masses, ratios


def _scale_in_patch(draw, thr_mu, nf, lo=1.2, hi=1500.0):
    """A scale (GeV) inside the default patch of nf, given the matching scales thr_mu (GeV)."""
    walls = [lo] + list(thr_mu) + [hi]
    a, b = max(walls[nf - 3], lo), min(walls[nf - 2], hi)
    if not a * 1.02 < b / 1.02:
        return draw(log_floats(lo, hi))
    return draw(log_floats(a * 1.02, b / 1.02))


@st.composite
def _path_case(draw):
    from vf.refs.q1_decoupling import alphas_physical

    masses, ratios = draw(_masses_ratios())
    thr = [m * k for m, k in zip(masses, ratios)]
    rng = _rng(draw, masses)
    n = _pick(rng, [1, 2, 3, 4])
    m = _pick(rng, [0, 0, 0, 1, 2])
    nf_ref = _pick(rng, [3, 4, 5, 6])
    ref_wall = _pick(rng, [None] * 9 + [0, 1, 2])
    if ref_wall is not None:
        mu_ref = thr[ref_wall]
    elif rng.integers(0, 5) == 0:
        mu_ref = draw(log_floats(1.5, 500.0))
    else:
        mu_ref = _scale_in_patch(draw, thr, nf_ref)
    nf_to = _pick(rng, [3, 4, 5, 6, None])
    to_wall = _pick(rng, [None] * 5 + [0, 1, 2])
    if to_wall is not None:
        mu_to = thr[to_wall]
    elif nf_to is None or rng.integers(0, 4) == 0:
        mu_to = draw(log_floats(1.3, 1500.0))
    else:
        mu_to = _scale_in_patch(draw, thr, nf_to)
    alphas = alphas_physical(mu_ref) * draw(floats(0.8, 1.1))
    return dict(
        kind="path", scheme=_pick(rng, ["POLE", "MSBAR"]), order=[n, m],
        em_running=bool(rng.integers(0, 2)) if m else False, method=_pick(rng, ["exact", "expanded"]),
        masses=masses, ratios=ratios, alphas=alphas, alphaem=draw(floats(0.001, 0.01)),
        ref=[mu_ref, nf_ref], ref_wall=ref_wall, target=[mu_to, nf_to], to_wall=to_wall,
    )


@st.composite
def _jump_case(draw):
    from vf.refs.q1_decoupling import alphas_physical

    masses, ratios = draw(_masses_ratios())
    rng = _rng(draw, masses)
    q = _pick(rng, [0, 1, 2])
    if masses[q] * ratios[q] < 1.4:  # keep the charm matching scale perturbative (construction)
        ratios[q] = 1.0 if ratios[q] < 1.0 else ratios[q]
        ratios[q] = max(ratios[q], 1.4 / masses[q])
    thr = masses[q] * ratios[q]
    up = bool(rng.integers(0, 2))
    mu_ref = thr / draw(floats(1.1, 3.0)) if up else thr * draw(floats(1.1, 3.0))
    mu_ref = max(mu_ref, 1.0)
    return dict(
        kind="jump", scheme=_pick(rng, ["POLE", "MSBAR"]), order=[_pick(rng, [1, 2, 3, 4]), 0],
        method=_pick(rng, ["exact", "expanded"]), masses=masses, ratios=ratios, q=q,
        dir="up" if up else "down", alphas=alphas_physical(mu_ref) * draw(floats(0.8, 1.1)), mu_ref=mu_ref,
    )


@st.composite
def _invariance_case(draw):
    from vf.refs.q1_decoupling import alphas_physical

    masses, _ = draw(_masses_ratios())
    rng = _rng(draw, masses)
    q = _pick(rng, [0, 1, 2])
    kmin = 1.0 if q == 0 else 0.5  # the charm matching scale stays >= m_c >= 1.2 GeV
    k1 = draw(floats(kmin, 2.0))
    k2 = draw(floats(kmin, 2.0))
    if abs(math.log(k1 / k2)) < 0.3:
        k1, k2 = kmin * 1.05, 1.9
    up = bool(rng.integers(0, 2))
    lo = max(masses[q] * min(k1, k2) / draw(floats(1.15, 2.5)), 1.0)
    hi = masses[q] * max(k1, k2) * draw(floats(1.2, 4.0))
    mu_ref, mu_to = (lo, hi) if up else (hi, lo)
    return dict(
        kind="invariance", scheme=_pick(rng, ["POLE", "MSBAR"]), order=[_pick(rng, [1, 2, 3, 4]), 0],
        masses=masses, q=q, k1=k1, k2=k2, dir="up" if up else "down",
        alphas=alphas_physical(mu_ref) * draw(floats(0.8, 1.1)), mu_ref=mu_ref, mu_to=mu_to,
    )


def strategy(tier):
    return st.one_of(_path_case(), _path_case(), _path_case(), _jump_case(), _jump_case(), _invariance_case())


# --------------------------------------------------------------------------- helpers on the code under test


def _couplings(scheme, order, method, masses, ratios, alphas, alphaem, ref, em_running=False):
    from eko.couplings import Couplings
    from eko.quantities.couplings import CouplingEvolutionMethod, CouplingsInfo
    from eko.quantities.heavy_quarks import QuarkMassScheme

    info = CouplingsInfo.from_dict(
        dict(alphas=alphas, alphaem=alphaem, ref=(ref[0], ref[1]), em_running=em_running)
    )
    return Couplings(
        couplings=info,
        order=tuple(order),
        method=CouplingEvolutionMethod(method),
        masses=[m * m for m in masses],
        hqm_scheme=QuarkMassScheme[scheme],
        thresholds_ratios=[k * k for k in ratios],
    )


def _lit_table(scheme, nl):
    from vf.refs import q1_decoupling as d

    c20, c30 = d.literature_constants(scheme, nl)
    return d.solve_logs(c20, c30, scheme, nl)


def _invert(table):
    from fractions import Fraction as F

    from vf.refs import q1_decoupling as d

    inv = [[F(0)] * 4 for _ in range(4)]
    for n in range(1, 4):
        defect = d.composition_defect(inv, table)
        for l in range(n + 1):
            inv[n][l] = inv[n][l] - defect.coeff(n + 1, l)
    assert not d.composition_defect(inv, table).keys()
    return inv


# --------------------------------------------------------------------------- finite checks


def _check_finite(case):
    import numpy as np
    from eko import couplings as C

    from vf.refs import q1_decoupling as d

    scheme, nl, kind = case["scheme"], case["nl"], case["kind"]
    res = CaseResult(classes=[kind, scheme])
    try:
        up = np.array(C.compute_matching_coeffs_up(scheme, nl), dtype=float)
        down = np.array(C.compute_matching_coeffs_down(scheme, nl), dtype=float)
    except Exception as e:  # noqa: BLE001
        return res.fail(exc_bucket(f"{ID}/call/tables", e), repr(e))
    if up.shape != (4, 4) or down.shape != (4, 4):
        return res.fail(f"{ID}/table-shape", f"shapes {up.shape}, {down.shape}")

    if kind == "const":
        d.selfcheck()
        c20, c30 = d.literature_constants(scheme, nl)
        for (n, l), want in (((2, 0), float(c20)), ((3, 0), c30)):
            if not abs(up[n, l] - want) <= 1e-5 * abs(want):
                res.fail(f"{ID}/constants/{scheme}/c{n}{l}",
                         f"{scheme} nl={nl}: c{n}{l} = {up[n, l]!r} vs literature {want!r}")
        # nothing may sit outside the documented triangle, and c10 = 0 (no one-loop constant)
        for n in range(4):
            for l in range(4):
                if (n == 0 or l > n or (n, l) == (1, 0)) and up[n, l] != 0:
                    res.fail(f"{ID}/constants/{scheme}/stray", f"up[{n},{l}] = {up[n, l]!r} should be 0")
    elif kind == "rg-identity":
        R = d.rg_residual(up, scheme, nl)
        expected = d.rg_expected_logs(up, scheme, nl)
        scale = max(abs(float(v)) for v in d.beta_fracs(nl)) * max(1.0, float(np.abs(up).max()))
        for (i, j) in R.keys():
            r = float(R.coeff(i, j))
            if abs(r) > 1e-10 * scale:
                n, l = i - 1, j + 1
                want = expected.get((n, l))
                res.fail(
                    f"{ID}/log-coefficients/{scheme}/a^{i}",
                    f"{scheme} nl={nl}: RG identity violated at a^{i} L^{j} (residual {r:.6g}); it fixes c[{n}][{l}] = "
                    f"{want.limit_denominator(10**6) if want is not None else '?'} = "
                    f"{float(want) if want is not None else float('nan'):.8g}, table has {float(up[n, l]) if l <= 3 else '-'!r}",
                )
    elif kind == "inverse":
        for name, outer, inner in (("down(up)", down, up), ("up(down)", up, down)):
            defect = d.composition_defect(outer, inner)
            scale = max(1.0, float(np.abs(up).max()))
            for (i, j) in defect.keys():
                r = float(defect.coeff(i, j))
                if abs(r) > 1e-10 * scale:
                    res.fail(f"{ID}/inverse/{scheme}/a^{i}",
                             f"{scheme} nl={nl}: {name} - a has a^{i} L^{j} coefficient {r:.6g}")
    return res


# --------------------------------------------------------------------------- generated checks


def _check_jump(case):
    from vf.refs import q1_decoupling as d

    scheme, (n, _m), q = case["scheme"], case["order"], case["q"]
    nl = q + 3
    k = case["ratios"][q]
    thr2 = (case["masses"][q] * case["masses"][q]) * (k * k)
    L = math.log(k * k)
    up = case["dir"] == "up"
    res = CaseResult(classes=["jump", f"jump:{scheme}", f"jump:order={n}", f"jump:{case['dir']}",
                              "jump:ratio=1" if k == 1.0 else "jump:ratio!=1", f"jump:{case['method']}"])
    res.nontrivial = True
    nf_ref = nl if up else nl + 1
    try:
        sc = _couplings(scheme, (n, 0), case["method"], case["masses"], case["ratios"], case["alphas"], 0.0075,
                        (case["mu_ref"], nf_ref))
        a_lo = float(sc.a(thr2, nl)[0])
        a_hi = float(sc.a(thr2, nl + 1)[0])
    except Exception as e:  # noqa: BLE001
        return res.fail(exc_bucket(f"{ID}/call/jump", e), repr(e))
    if max(a_lo, a_hi) * FOURPI > 0.6 or not (math.isfinite(a_lo) and math.isfinite(a_hi)):
        return CaseResult(discarded="alpha_s at the matching scale > 0.6")
    table = _lit_table(scheme, nl)
    if up:
        src, got, want = a_lo, a_hi, d.apply_table(table, a_lo, L, n)
    else:
        src, got, want = a_hi, a_lo, d.apply_table(_invert(table), a_hi, L, n)
    if n == 1 or (n == 2 and k == 1.0):
        if not abs(got - src) <= 1e-15 * src:
            res.fail(f"{ID}/continuity/order={n}",
                     f"{scheme} order {n} ratio {k}: a_s jumps from {src!r} to {got!r} across the matching scale")
        return res
    tol = 1e-5 * abs(want - src) + 1e-13 * abs(src)
    if not abs(got - want) <= tol:
        res.fail(
            f"{ID}/jump-vs-literature/{scheme}/order={n}/{'ratio=1' if k == 1.0 else 'ratio!=1'}",
            f"{scheme} nl={nl} order {n} {case['dir']} L={L:.4f}: a_s {src!r} -> {got!r}, literature constants + RG "
            f"logs give {want!r} (difference {got - want:.3e}, {abs(got - want) / abs(want - src):.3e} of the jump)",
        )
    return res


def _lo_alpha_max(case, steps):
    """Largest LO alpha_s met along the walk (own closed form, no matching): perturbativity guard of the generator."""
    a = case["alphas"] / FOURPI
    worst = a
    for mu2_from, mu2_to, nf, _ in steps:
        den = 1.0 + (11.0 - 2.0 * nf / 3.0) * a * math.log(mu2_to / mu2_from)
        if den <= 0:
            return math.inf
        a = a / den
        worst = max(worst, a)
    return worst * FOURPI


def _check_path(case):
    import numpy as np

    from vf.refs import q1_decoupling as d
    from vf.refs.q1_rge import MTAU

    scheme, (n, m) = case["scheme"], case["order"]
    masses, ratios = case["masses"], case["ratios"]
    thr2 = [(mm * mm) * (k * k) for mm, k in zip(masses, ratios)]
    mu2_ref = thr2[case["ref_wall"]] if case.get("ref_wall") is not None else case["ref"][0] ** 2
    nf_ref = case["ref"][1]
    mu2_to = thr2[case["to_wall"]] if case.get("to_wall") is not None else case["target"][0] ** 2
    nf_to = case["target"][1]
    # the constructor squares the reference scale itself: hand it the root and use the square it will form
    mu_ref = math.sqrt(mu2_ref) if case.get("ref_wall") is not None else case["ref"][0]
    mu2_ref = mu_ref**2

    steps = d.walk(thr2, (mu2_ref, nf_ref), (mu2_to, nf_to))
    if _lo_alpha_max(case, steps) > 0.45:
        return CaseResult(discarded="LO alpha_s > 0.45 along the path")
    crossed = [c for *_, c in steps if c is not None]
    res = CaseResult()
    res.nontrivial = bool(crossed) and (n >= 3 or any(ratios[qq] != 1.0 for qq, _ in crossed))
    res.classes = [
        "path", f"path:{scheme}", f"path:order={n},{m}", f"path:{case['method']}", f"path:matchings={len(crossed)}",
        "path:flat" if not crossed else ("path:upward" if crossed[0][1] > 0 else "path:downward"),
        "path:nf_to=None" if nf_to is None else "path:nf_to given",
    ]
    if case.get("to_wall") is not None:
        res.classes.append("path:target-on-wall")
    if case.get("ref_wall") is not None:
        res.classes.append("path:ref-on-wall")
    if crossed and any((s[1] - s[0]) * crossed[0][1] < 0 for s in steps[:-1]):
        res.classes.append("path:counter-intuitive-leg")  # e.g. walking down in scale to activate a quark

    args = (scheme, (n, m), case["method"], masses, ratios, case["alphas"], case["alphaem"], (mu_ref, nf_ref),
            case["em_running"])
    try:
        sc = _couplings(*args)
        got = np.array(sc.a(mu2_to, nf_to), dtype=float)
        again = np.array(sc.a(mu2_to, nf_to), dtype=float)
        explicit = np.array(_couplings(*args).a(mu2_to, steps[-1][2]), dtype=float)
    except Exception as e:  # noqa: BLE001
        return res.fail(exc_bucket(f"{ID}/call/path", e), repr(e))

    # the harness's own walk, using the code's single-patch solver and coefficient tables as black boxes
    from eko import couplings as C

    try:
        solver = _couplings(*args)
        a = np.array([case["alphas"], case["alphaem"]]) / 4.0 / np.pi
        for mu2_from, mu2_next, nf, crossing in steps:
            if not d.is_short(mu2_from, mu2_next):
                nli = 3 if mu2_from > MTAU**2 else 2
                nlf = 3 if mu2_next > MTAU**2 else 2
                if m != 0 and nli != nlf:
                    a = solver.compute(a, nf, nli, mu2_from, MTAU**2)
                    a = solver.compute(a, nf, nlf, MTAU**2, mu2_next)
                else:
                    a = solver.compute(a, nf, nli, mu2_from, mu2_next)
            a = np.array(a, dtype=float)
            if crossing is not None:
                qq, direction = crossing
                L = math.log(ratios[qq] * ratios[qq])
                table = (C.compute_matching_coeffs_up if direction > 0 else C.compute_matching_coeffs_down)(
                    scheme, qq + 3
                )
                a[0] = d.apply_table(table, float(a[0]), L, n)
        want = a
    except Exception as e:  # noqa: BLE001
        return res.fail(exc_bucket(f"{ID}/call/walk-primitives", e), repr(e))

    def same(x, y, tol):
        return all((not math.isfinite(u) and not math.isfinite(v)) or abs(u - v) <= tol * abs(v) for u, v in zip(x, y))

    if not (np.all(np.isfinite(got)) or np.all(np.isfinite(want))):
        res.classes.append("path:nonfinite-both")  # C15's finding (expanded running alpha_em); nothing to compare
    shape = "flat" if not crossed else ("upward" if crossed[0][1] > 0 else "downward")
    if not same(got, want, 1e-12):
        res.fail(f"{ID}/path-walk/{shape}/matchings={len(crossed)}",
                 f"Couplings.a({mu2_to!r}, {nf_to}) = {got.tolist()} but the walk {steps} gives {want.tolist()} "
                 f"(rel {abs(got[0] - want[0]) / abs(want[0]):.3e})")
    if not same(again, got, 0.0):
        res.fail(f"{ID}/determinism/repeat", f"second identical query returned {again.tolist()} after {got.tolist()}")
    if not same(explicit, got, 0.0):
        res.fail(f"{ID}/determinism/default-nf",
                 f"a(mu2, nf_to={nf_to}) = {got.tolist()} differs from a(mu2, {steps[-1][2]}) = {explicit.tolist()}")
    return res


def _check_invariance(case):
    scheme, (n, _m), q = case["scheme"], case["order"], case["q"]
    up = case["dir"] == "up"
    nl = q + 3
    res = CaseResult(classes=["invariance", f"inv:{scheme}", f"inv:order={n}", f"inv:{case['dir']}", f"inv:quark={q}"])
    res.nontrivial = True
    nf_ref, nf_to = (nl, nl + 1) if up else (nl + 1, nl)
    diffs = []
    for lam in LAMBDAS:
        vals = []
        for k in (case["k1"], case["k2"]):
            ratios = [1.0, 1.0, 1.0]
            ratios[q] = k
            try:
                sc = _couplings(scheme, (n, 0), "expanded", case["masses"], ratios, case["alphas"] * lam, 0.0075,
                                (case["mu_ref"], nf_ref))
                vals.append(float(sc.a(case["mu_to"] ** 2, nf_to)[0]))
            except Exception as e:  # noqa: BLE001
                return res.fail(exc_bucket(f"{ID}/call/invariance", e), repr(e))
        if not all(math.isfinite(v) for v in vals):
            return CaseResult(discarded="non-finite expanded coupling (non-perturbative)")
        if lam == 1.0 and max(vals) * FOURPI > 0.6:
            return CaseResult(discarded="alpha_s > 0.6 in the invariance probe")
        dlt = vals[0] - vals[1]
        if abs(dlt) > 1e-13 * abs(vals[0]):
            diffs.append((lam, dlt))
    tail = []
    for lam, dlt in reversed(diffs):
        if tail and (dlt > 0) != (tail[-1][1] > 0):
            break
        tail.append((lam, dlt))
    if len(tail) < 3:
        res.classes.append("invariance-trivial")
        res.nontrivial = False
        return res
    (l2, d2), (l1, d1) = tail[0], tail[1]
    p = math.log(d1 / d2) / math.log(l1 / l2)
    need = n + 1 - 0.25
    if not p >= need:
        res.fail(
            f"{ID}/rg-invariance/{scheme}/order={n}/p~{int(round(p))}",
            f"{scheme} order {n} {case['dir']} across quark {q}: a_s(mu_to) for matching ratios {case['k1']:.3f} vs "
            f"{case['k2']:.3f} (masses fixed) differs like lambda^{p:.2f} (lambda {l1}->{l2}: {d1:.3e}->{d2:.3e}); "
            f"matching-scale independence needs >= {need}",
        )
    return res


def check_case(case):
    kind = case["kind"]
    if kind in ("const", "rg-identity", "inverse"):
        return _check_finite(case)
    if kind == "jump":
        return _check_jump(case)
    if kind == "path":
        return _check_path(case)
    if kind == "invariance":
        return _check_invariance(case)
    raise ValueError(kind)

"""C27 large-N behaviour of the diagonal anomalous dimensions vs the literature cusp coefficients."""

import math

from hypothesis import strategies as st

from vf.core import CaseResult, exc_bucket
from vf.strategies import floats

ID = "C27"
LEVEL = "exploration"
TECHNIQUE = (
    "generated pairs of large Mellin moments; oracle: finite-difference slope in ln N against cusp coefficients A_1..A_4 "
    "typed from the literature (quark and gluon, incl. the quartic-Casimir four-loop gluon value)"
)
RULE = (
    "Hypothesis draws nf in 3..5, N1 log-uniform in [1e3, 1e4], N2 = r N1 with r log-uniform in [10, 1e5/N1] (so both lie in "
    "[1e3, 1e5] and N2/N1 >= 10 by construction), a common phase theta (0 for half of the cases, else in [-1, 1] rad: "
    "N = |N| e^{i theta}, the solver's contour reaches such points) and an N3LO variation index 0..2. For every case the "
    "slope (gamma(N2) - gamma(N1)) / (ln N2 - ln N1) of every order of gamma_ns (ns+, ns-, nsv) of the unpolarised "
    "(orders 1-4, both N3LO families), time-like (1-3) and polarised (1-3) towers and of the unpolarised gamma_gg "
    "(1-4, both families) is compared with A_k resp. A_{k,g}. All cases are non-trivial (38 asserted slopes each, orders >= 2 "
    "included); distinct by the full case. Time-like and polarised gamma_gg slopes are recorded as classes only (the "
    "property does not state them)."
)
ASSUMPTIONS = [
    "cusp coefficients typed in vf/refs/e2_cusp.py (Kodaira-Trentadue; Moch-Vermaseren-Vogt 2004 eq. 3.11; four loops: "
    "Moch et al. 2017 / Henn-Korchemsky-Mistlberger 2019 / von Manteuffel-Panzer-Schabinger 2020), a = alpha_s/4pi, Nc = 3",
    "gluon-gluon: (C_A/C_F) A_k for k <= 3; at k = 4 the published A_{4,g} = 40880.33 - 11714.25 nf + 440.0488 nf^2 + "
    "7.362775 nf^3 is used because Casimir scaling is broken by quartic Casimirs (DESIGN 5.1: asserting C_A/C_F at four "
    "loops would contradict the literature; measured slope / (2.25 A_4) = 0.62 at nf = 3)",
    "two estimators, both relative to the sum of magnitudes of the nf-terms of A_k (A_4(nf=5) = 141 is a cancellation of "
    "terms of size 2e4), real and imaginary part together: (a) the plain slope (gamma(N2) - gamma(N1)) / ln(N2/N1) named in "
    "the property, tolerance 3e-3: it carries the known bias (C ln N1 + D)/(N1 ln(N2/N1)) of the large-N expansion, whose "
    "supremum over the domain (N1 = 1e3, N2/N1 = 10, |theta| = 1, gluon, two loops) is 2.28e-3 on the unchanged tree; (b) the "
    "coefficient of ln N from the exact solution of gamma = A ln N + c + (C ln N + D)/N on four moments equidistant in ln N "
    "between N1 and N2 (MVV 2004 eq. 4.14 structure), which removes that bias: 1e-5 for orders 1-3 (measured <= 1.6e-6, "
    "i.e. the typed literature values and the code agree to six digits), 5e-4 at four loops where the FHMRUVV error-band "
    "members differ by 4e-4 in A_4 (A4ap1/A4ap2) and A_4 itself was known to 1e-4 when the parametrisation was made "
    "(measured <= 1.5e-4)",
]
LEVEL_TEXT = (
    "Exploration: the coefficient of ln N is measured on generated pairs in the stated window and compared with "
    "independently typed literature values to 1e-5 (three loops) / 5e-4 (four loops); defects that leave the ln N "
    "coefficient untouched are not visible to this check."
)

TOL = 3e-3  # plain two-point slope (the estimator named in the property), dominated by its known O(ln N / N) bias
TOL_FIT = {1: 1e-5, 2: 1e-5, 3: 1e-5, 4: 5e-4}  # bias-free four-point estimate
_OBS = None  # calibration aid


def _observe(key, v):
    if _OBS is not None and v == v:
        _OBS[key] = max(_OBS.get(key, 0.0), float(v))

MODES = (("ns+", 10101), ("ns-", 10201), ("nsv", 10200))


@st.composite
def _case(draw):
    nf = draw(st.integers(3, 5))
    l1 = draw(floats(math.log(1e3), math.log(1e4)))
    n1 = math.exp(l1)
    u = draw(floats(0.0, 1.0))
    lr = math.log(10.0) + u * max(0.0, math.log(1e5) - l1 - math.log(10.0))
    n2 = min(n1 * math.exp(lr), 1e5)
    theta = draw(st.one_of(st.just(0.0), floats(-1.0, 1.0)))
    var = draw(st.integers(0, 2))
    return {"nf": nf, "N1": n1, "N2": n2, "theta": theta, "var": var}


def strategy(tier):
    return _case()


def enumerate_cases(tier):
    return [
        {"nf": nf, "N1": n1, "N2": n2, "theta": th, "var": 0}
        for nf in (3, 4, 5)
        for n1, n2, th in ((1e3, 1e4, 0.0), (1e4, 1e5, 0.0), (1e3, 1e5, 0.0), (3e3, 4e4, 0.8))
    ]


def budget(tier):
    if tier == "quick":
        return dict(max_examples=400, shards=8, wall_s=60, enum_shards=2, shrink_s=30)
    return dict(max_examples=6000, shards=16, wall_s=600, enum_shards=2, shrink_s=120)


def _slopes(case):
    """{(family, sector, k, variant): slope} from the code, plus exceptions per family."""
    import cmath

    from vf.refs import e2_cusp as ref

    import ekore.anomalous_dimensions.polarized.space_like as pol
    import ekore.anomalous_dimensions.unpolarized.space_like as sl
    import ekore.anomalous_dimensions.unpolarized.time_like as tl

    nf, var = case["nf"], case["var"]
    ph = cmath.exp(1j * case["theta"])
    n1, n2 = case["N1"] * ph, case["N2"] * ph
    dl = cmath.log(n2) - cmath.log(n1)
    # two interior points, equidistant in ln N, for the bias-free estimate
    pts = [n1, n1 * cmath.exp(dl / 3.0), n1 * cmath.exp(2.0 * dl / 3.0), n2]
    v = (var,) * 7
    out, errors = {}, []

    def add(key, f, orders):
        try:
            vals = [f(n) for n in pts]
        except Exception as e:  # noqa: BLE001
            errors.append((key, e))
            return
        for k in range(1, orders + 1):
            col = [x[k - 1] for x in vals]
            out[key + (k,)] = ((col[3] - col[0]) / dl, ref.log_coefficient(pts, col))

    for fam_name, fh in (("fhmruvv", True), ("an3lo", False)):
        for sec, mode in MODES:
            add(("unpolarized", sec, fam_name),
                lambda n, mode=mode, fh=fh: sl.gamma_ns((4, 0), mode, n, nf, v, fh), 4)
        add(("unpolarized", "gg", fam_name), lambda n, fh=fh: sl.gamma_singlet((4, 0), n, nf, v, fh)[:, 1, 1], 4)
    for fam, mod in (("time_like", tl), ("polarized", pol)):
        for sec, mode in MODES:
            add((fam, sec, ""), lambda n, mode=mode, mod=mod: mod.gamma_ns((3, 0), mode, n, nf), 3)
        add((fam, "gg", ""), lambda n, mod=mod: mod.gamma_singlet((3, 0), n, nf)[:, 1, 1], 3)
    return out, errors


def check_case(case):
    from vf.refs import e2_cusp as ref

    ref.self_check()
    res = CaseResult()
    nf = case["nf"]
    res.classes = [
        f"nf={nf}",
        "real-N" if case["theta"] == 0.0 else "complex-N",
        "N1<3e3" if case["N1"] < 3e3 else "N1>=3e3",
        "ratio<30" if case["N2"] / case["N1"] < 30 else "ratio>=30",
        f"var={case['var']}",
    ]
    slopes, errors = _slopes(case)
    for key, e in errors:
        res.fail(exc_bucket(f"{ID}/call/{key[0]}/{key[1]}", e), f"{key}: {e!r}; case {case}")
    seen = set()
    for (fam, sec, variant, k), (slope, coef) in sorted(slopes.items()):
        if k < 4 and variant == "an3lo":
            continue  # identical code path to the fhmruvv call below four loops
        terms = ref.gluon_terms(k, nf) if sec == "gg" else ref.quark_terms(k, nf)
        want, mag = sum(terms), sum(abs(t) for t in terms)
        dev = abs(slope - want) / mag
        dev_fit = abs(coef - want) / mag
        _observe(f"slope/{fam}/{sec}/{k}/{variant}", dev)
        _observe(f"fit/{fam}/{sec}/{k}/{variant}", dev_fit)
        label = f"{fam}/{sec}/order={k}" + (f"/{variant}" if k == 4 else "")
        if sec == "gg" and fam != "unpolarized":
            res.classes.append(f"extra/{fam}-gg/" + ("agrees" if dev_fit <= TOL_FIT[k] else "deviates"))
            continue
        seen.add(label)
        if dev_fit <= TOL_FIT[k] and not (dev <= TOL):  # (a) is implied by a failure of (b): one bucket per root cause
            res.fail(
                f"{ID}/slope/{label}",
                f"{label}: slope of gamma in ln N between N1={case['N1']:.6g} and N2={case['N2']:.6g} (phase "
                f"{case['theta']:.3g}) is {slope!r}, literature cusp coefficient {want:.8g} (nf-terms {terms}); "
                f"deviation {dev:.3e} of the magnitude {mag:.6g}, allowed {TOL:.1e}; nf={nf}, variation={case['var']}",
            )
        if not (dev_fit <= TOL_FIT[k]):
            res.fail(
                f"{ID}/cusp/{label}",
                f"{label}: coefficient of ln N fitted on four moments between N1={case['N1']:.6g} and N2={case['N2']:.6g} "
                f"(phase {case['theta']:.3g}) is {coef!r}, literature cusp coefficient {want:.8g} (nf-terms {terms}); "
                f"deviation {dev_fit:.3e} of the magnitude {mag:.6g}, allowed {TOL_FIT[k]:.1e}; nf={nf}, "
                f"variation={case['var']}",
            )
    res.nontrivial = len(seen) >= 30
    res.classes = sorted(set(res.classes))
    return res

"""C36 EKO archives round-trip all their content (points, arrays bitwise, cards, metadata; edits preserve the rest)."""

import copy
import math

from vf import runner_util as ru
from vf.core import CaseResult, exc_bucket
from vf.refs import s1_store as s1

ID = "C36"
LEVEL = "exploration"
TECHNIQUE = (
    "Hypothesis-generated archive contents written through the public EKO API, closed, re-read, edited once, closed and "
    "re-read again; oracle = the written content itself (dict model, arrays compared through tobytes())"
)
RULE = (
    "Each case: a random tiny theory/operator card pair (orders, couplings, POLE/MSBAR masses, ratios, xif, N3LO "
    "variations, matching order, 0-4 card targets, 2-8 point grid, every method/enum) built with from_dict; 0-6 evolution "
    "points whose scale is a Python float, np.float64, Python int or np.int64 (integer-valued), an element of the card's own "
    "mu2grid array or evolgrid list, or 1-2 ulps above/below an earlier point, nf 3-6 as int or np.int64; operators of shape "
    "(14,k,14,k) on the card's grid or any square (p,q,p,q) <= 14x8x14x8, filled with normal numbers, arbitrary 64-bit "
    "patterns, or normal numbers with +-0, +-inf, quiet/signalling/payload NaNs, denormals planted, in C / Fortran / strided "
    "layout, with or without an error array; 0-2 parts / matching parts with free shapes of 0-4 dimensions (0..14 x 0..8 "
    "x ..) and 0-2 contentless recipes at inventory level.  Oracle after close + EKO.read: same set of (float, int) points, "
    "arrays bitwise, theory card, operator card and metadata equal (raw dictionaries, NaN-aware, exact floats), parts and "
    "recipes equal after sync; then EKO.edit + one change (nothing / add a point / overwrite a point, possibly switching "
    "error presence / set xgrid (log or linear) / add a part) + close + EKO.read: the change is visible and everything else "
    "is bitwise unchanged.  Both the creating and the edit session continue with 0-3 further actions before their close: "
    "update a stored operator in place (the object held from the store or loaded with eko[ep]) and save it by assigning the "
    "same object again, eko.dump(other path) snapshots (each re-read and compared with the content at that moment), "
    "eko.dump() on the registered path, metadata.xgrid = .. followed by metadata.update(), del / unload(); the model follows "
    "every action and the registered archive is compared after the close.  Non-trivial = >= 2 distinct points and (a NumPy scalar in a key, or a special-value / "
    "bit-pattern array, or an error array); distinct by case."
)
ASSUMPTIONS = [
    "scales are positive finite numbers; integer types only for integer-valued scales",
    "points are compared as (float(scale), int(nf)) with exact float equality (so scales one ulp apart stay distinct)",
    "cards and metadata are compared through their raw dictionaries (the form that is written), NaN == NaN, tuples == lists; "
    "object-level card equality and from_dict(raw) are decided by C40",
    "the XGrid log flag of the metadata is part of 'equal metadata' (it selects the interpolation basis in "
    "eko.io.manipulate); reported in its own bucket because XGrid.__eq__ ignores it",
    "parts / recipes are read back with Inventory.sync() on the re-read EKO (EKO.read syncs only the operators)",
]
LEVEL_TEXT = (
    "Generated-input exploration of the archive writer/reader with the written content as exact oracle; the input space "
    "(arrays, key types, cards) is sampled, not exhausted."
)


def budget(tier):
    if tier == "quick":
        return dict(max_examples=160, shards=8, wall_s=90, shrink_s=40)
    return dict(max_examples=3000, shards=16, wall_s=900, shrink_s=200)


# --------------------------------------------------------------------------- strategy


def st_card():
    from hypothesis import strategies as st

    @st.composite
    def build(draw):
        xs, deg = draw(ru.st_xgrid(2, 8))
        scheme = draw(st.sampled_from(["POLE", "POLE", "MSBAR"]))
        masses = [draw(st.floats(1.2, 2.0)), draw(st.floats(3.5, 6.0)), draw(st.floats(100.0, 200.0))]
        qcd = draw(st.integers(1, 4))
        card = dict(
            order=[qcd, draw(st.integers(0, 2))],
            alphas=draw(st.floats(0.05, 0.4)),
            alphaem=draw(st.floats(0.005, 0.01)),
            ref=[draw(st.floats(1.0, 200.0)), draw(st.integers(3, 6))],
            em_running=draw(st.booleans()),
            masses=masses,
            ratios=[draw(st.floats(0.5, 2.0)) for _ in range(3)],
            scheme=scheme,
            xif=draw(st.floats(0.5, 2.0)),
            n3lo=[draw(st.integers(0, 2)) for _ in range(7)],
            use_fhmruvv=draw(st.booleans()),
            matching_order=draw(st.sampled_from([None, [qcd - 1, 0], [qcd, 0]])),
            init=[draw(st.floats(1.0, 100.0)), draw(st.integers(3, 6))],
            mugrid=[[draw(st.floats(1.0, 1e4)), draw(st.integers(3, 6))] for _ in range(draw(st.integers(0, 4)))],
            xgrid=xs,
            deg=deg,
            method=draw(st.sampled_from(ru.METHODS)),
            max_order=[draw(st.integers(1, 12)), draw(st.integers(0, 2))],
            iters=draw(st.integers(1, 30)),
            is_log=draw(st.booleans()),
            sv=draw(st.sampled_from([None, "exponentiated", "expanded"])),
            inv=draw(st.sampled_from([None, "exact", "expanded"])),
            cores=draw(st.integers(1, 4)),
            pol=draw(st.booleans()),
            tl=draw(st.booleans()),
        )
        if scheme == "MSBAR":
            card["mass_refs"] = [draw(st.floats(1.0, 200.0)) for _ in range(3)]
        return card

    return build()


def st_array(shape_st):
    from hypothesis import strategies as st

    return st.fixed_dictionaries(
        dict(
            seed=st.integers(0, 2**32 - 1),
            mode=st.sampled_from(["unit", "special", "special", "bits", "bits", "mzero"]),
            shape=shape_st,
            order=st.sampled_from(["C", "C", "F", "S"]),
        )
    )


def strategy(tier):
    from hypothesis import strategies as st

    free_shape = st.lists(st.integers(0, 14), min_size=0, max_size=4).map(
        lambda l: [min(d, 8) if i % 2 else d for i, d in enumerate(l)]
    )

    @st.composite
    def st_part(draw):
        shape = draw(free_shape)
        op = draw(st_array(st.just(shape)))
        err = draw(st.none() | st_array(st.just(shape)))
        if draw(st.booleans()):
            hdr = ["evolution", draw(st.floats(1.0, 1e4)), draw(st.floats(1.0, 1e4)), draw(st.integers(3, 6)), draw(st.booleans())]
        else:
            hdr = ["matching", draw(st.floats(1.0, 1e4)), draw(st.integers(4, 6)), draw(st.booleans())]
        return dict(h=hdr, op=op, err=err)

    @st.composite
    def st_point(draw, k, prev, ncard, use_np=True):
        """prev: scales/nf of the points drawn so far (for ulp neighbours); ncard: number of card targets; use_np: whether
        NumPy scalars may appear in keys (decided once per case so that half of the cases are free of them)."""
        how = draw(st.sampled_from(["free", "free", "int", "ulp", "ulp", "card"]))
        nft = draw(st.sampled_from("iin" if use_np else "i"))
        nf = draw(st.integers(3, 6))
        fl, it = ("fnn", "ijfn") if use_np else ("f", "if")
        if how == "ulp" and prev:
            s0, nf = prev[draw(st.integers(0, len(prev) - 1))]
            s = s0
            for _ in range(draw(st.integers(1, 2))):
                s = math.nextafter(s, math.inf if draw(st.booleans()) else 0.0)
            key = [s, nf, draw(st.sampled_from(fl)) + nft]
        elif how == "card" and ncard:
            key = ["card", draw(st.integers(0, ncard - 1)), draw(st.sampled_from(["mu2grid", "evolgrid"] if use_np else ["evolgrid"])), nft]
        elif how == "int":
            key = [float(draw(st.integers(1, 10**6))), nf, draw(st.sampled_from(it)) + nft]
        else:
            key = [math.exp(draw(st.floats(math.log(1.0), math.log(1e8)))), nf, draw(st.sampled_from(fl)) + nft]
        if draw(st.integers(0, 3)) == 0:
            p, q = draw(st.integers(1, 14)), draw(st.integers(1, 8))
            shape = [p, q, p, q]
        else:
            shape = [14, k, 14, k]
        op = draw(st_array(st.just(shape)))
        err = draw(st.none() | st_array(st.just(shape)))
        return dict(k=key, op=op, err=err)

    @st.composite
    def st_action(draw):
        kind = draw(st.sampled_from(["mutate", "snapshot", "mutate", "snapshot", "mutate", "snapshot", "meta_xgrid", "dump", "unload", "del"]))
        if kind == "mutate":
            return [
                "mutate", draw(st.integers(0, 5)), draw(st.integers(0, 2**32 - 1)),
                draw(st.sampled_from(["special", "bits", "unit", "mzero"])), draw(st.sampled_from(["load", "held"])),
            ]
        if kind == "meta_xgrid":
            xs, _ = draw(ru.st_xgrid(2, 8))
            return ["meta_xgrid", xs, draw(st.booleans())]
        if kind == "del":
            return ["del", draw(st.integers(0, 5))]
        return [kind]

    @st.composite
    def build(draw):
        card = draw(st_card())
        k = len(card["xgrid"])
        ncard = len(card["mugrid"])
        use_np = draw(st.integers(0, 2**16)) % 2 == 1  # parity of a wide integer: not biased towards 'simple' like booleans()
        points, prev = [], []
        for _ in range(draw(st.sampled_from([3, 2, 4, 1, 2, 5, 3, 6, 0]))):
            pt = draw(st_point(k, prev, ncard, use_np))
            points.append(pt)
            if pt["k"][0] != "card":
                prev.append((pt["k"][0], pt["k"][1]))
        parts = [draw(st_part()) for _ in range(draw(st.integers(0, 2)))]
        recipes = [draw(st_part())["h"] for _ in range(draw(st.integers(0, 2)))]
        kind = draw(st.sampled_from(["none", "add", "overwrite", "overwrite", "xgrid", "part"]))
        edit = dict(kind=kind)
        if kind == "add":
            edit["point"] = draw(st_point(k, prev, ncard, use_np))
        elif kind == "overwrite":
            if points:
                i = draw(st.integers(0, len(points) - 1))
                new = draw(st_point(k, [], 0, use_np))
                new["k"] = points[i]["k"]
                edit.update(point=new)
            else:
                edit = dict(kind="add", point=draw(st_point(k, prev, ncard, use_np)))
        elif kind == "xgrid":
            xs, _ = draw(ru.st_xgrid(2, 8))
            edit.update(xgrid=xs, log=draw(st.booleans()))
        elif kind == "part":
            edit["part"] = draw(st_part())
        # further actions inside the creating session (after the writes) and inside the edit session (after the change)
        create_after = [draw(st_action()) for _ in range(draw(st.sampled_from([0, 1, 0, 2])))]
        after = [draw(st_action()) for _ in range(draw(st.sampled_from([2, 1, 0, 3])))]
        return dict(card=card, points=points, parts=parts, recipes=recipes, create_after=create_after, edit=edit, after=after)

    return build()


# --------------------------------------------------------------------------- oracle


def resolve_key(key, opcard):
    """JSON key -> (evolution point object handed to the store, model key, has numpy scalar)."""
    import numpy as np

    if key[0] == "card":
        _, i, src, nft = key
        nf = opcard.mugrid[i][1]
        if src == "mu2grid":
            scale = opcard.mu2grid[i]  # np.float64 element of the card's own array
        else:
            scale = opcard.evolgrid[i][0]
        nfo = np.int64(nf) if nft == "n" else int(nf)
        return (scale, nfo), (float(scale), int(nf)), (src == "mu2grid" or nft == "n")
    ep, k = s1.ep_of(key)
    return ep, k, s1.is_numpy_key(key)


def header_of(h):
    from eko.io.items import Evolution, Matching

    if h[0] == "evolution":
        return Evolution(origin=h[1], target=h[2], nf=h[3], cliff=h[4])
    return Matching(scale=h[1], hq=h[2], inverse=h[3])


def header_key(hdr):
    from dataclasses import asdict

    return (type(hdr).__name__,) + tuple((k, s1.norm(v)) for k, v in sorted(asdict(hdr).items()))


def snapshot(eko, with_inventories=True):
    """Everything visible in an open EKO, in comparable form."""
    snap = {}
    snap["points"] = {s1.mkey(ep): s1.op_frozen(op) for ep, op in eko.items()}
    snap["iter"] = sorted(s1.mkey(ep) for ep in eko)
    snap["theory"] = eko.theory_card.raw
    snap["operator"] = eko.operator_card.raw
    snap["metadata"] = eko.metadata.raw
    snap["xgrid_log"] = bool(eko.metadata.xgrid.log)
    if with_inventories:
        for name in ("parts", "parts_matching"):
            inv = getattr(eko, name)
            inv.sync()
            snap[name] = {header_key(h): s1.op_frozen(inv[h]) for h in list(inv)}
        for name in ("recipes", "recipes_matching"):
            inv = getattr(eko, name)
            inv.sync()
            snap[name] = sorted(header_key(h) for h in inv)
    return snap


def compare(res, stage_full, want, got):
    """Append one violation per differing component (bucket = component + stage family; details in the message)."""
    stage = "reread" if stage_full in ("reread", "snapshot@write") else "after-edit"
    if got["iter"] != sorted(got["points"]):
        res.fail(f"{ID}/{stage}/points/iter-vs-items", f"iteration {got['iter']} vs items() {sorted(got['points'])}")
    if sorted(want["points"]) != sorted(got["points"]):
        extra = sorted(set(got["points"]) - set(want["points"]))
        missing = sorted(set(want["points"]) - set(got["points"]))
        res.fail(f"{ID}/{stage}/points/keys", f"[{stage_full}] points written {sorted(want['points'])}, read {sorted(got['points'])} (extra {extra}, missing {missing})")
    for k in sorted(set(want["points"]) & set(got["points"])):
        for i, part in enumerate(("operator", "error")):
            if want["points"][k][i] != got["points"][k][i]:
                res.fail(f"{ID}/{stage}/points/{part}", f"[{stage_full}] {part} of {k}: {s1.describe_diff(want['points'][k][i], got['points'][k][i])}")
    for comp in ("theory", "operator", "metadata"):
        d = s1.raw_diff(want[comp], got[comp])
        if d:
            res.fail(f"{ID}/{stage}/{comp}", f"[{stage_full}] {comp} differs at {d}")
    if want["xgrid_log"] != got["xgrid_log"]:
        res.fail(f"{ID}/{stage}/metadata/xgrid-log-flag", f"metadata.xgrid.log written {want['xgrid_log']}, read {got['xgrid_log']}")
    for name in ("parts", "parts_matching"):
        if sorted(want[name]) != sorted(got[name]):
            res.fail(f"{ID}/{stage}/{name}/headers", f"{name} headers written {sorted(want[name])}, read {sorted(got[name])}")
        for h in sorted(set(want[name]) & set(got[name])):
            for i, part in enumerate(("operator", "error")):
                if want[name][h][i] != got[name][h][i]:
                    res.fail(f"{ID}/{stage}/{name}/{part}", f"{part} of {h}: {s1.describe_diff(want[name][h][i], got[name][h][i])}")
    for name in ("recipes", "recipes_matching"):
        if want[name] != got[name]:
            res.fail(f"{ID}/{stage}/{name}", f"{name} written {want[name]}, read {got[name]}")


def raised_bucket(e):
    """One bucket per exception type and innermost repo frame, whatever the stage it surfaced at."""
    tag = ""
    if type(e).__name__ == "LookupError":
        tag = "/too-many" if "Too many" in str(e) else "/not-available"
    return exc_bucket(f"{ID}/raised", e) + tag


def inv_name(hdr, content):
    from eko.io.items import Evolution

    base = "parts" if content else "recipes"
    return base if isinstance(hdr, Evolution) else base + "_matching"


def check_case(case):
    res = CaseResult()
    with s1.Sandbox() as sb:
        _check(case, res, sb)
    return res


def _check(case, res, sb):
    import eko.version as vmod
    from eko.interpolation import XGrid
    from eko.io.struct import EKO

    th, opc = ru.cards(case["card"])
    path = sb.dir / "a.tar"

    # ---- expected content (model)
    want = dict(points={}, parts={}, parts_matching={}, recipes=[], recipes_matching=[])
    want["theory"] = th.raw
    want["operator"] = opc.raw
    want["metadata"] = dict(
        origin=[opc.init[0] ** 2, opc.init[1]], xgrid=opc.xgrid.tolist(), version=vmod.__version__, data_version=vmod.__data_version__
    )
    want["xgrid_log"] = bool(opc.xgrid.log)

    numpy_key = special = with_err = False
    modes = set()

    eps, held, snapshots, actions_done = {}, {}, [], set()

    def put_point(eko, pt):
        nonlocal numpy_key, special, with_err
        ep, k, isnp = resolve_key(pt["k"], opc)
        op = s1.make_operator(pt["op"], pt["err"])
        eko[ep] = op
        eps.setdefault(k, ep)
        held[k] = op
        want["points"][k] = s1.op_frozen(op)
        numpy_key |= isnp
        special |= pt["op"]["mode"] in ("special", "bits", "mzero")
        with_err |= pt["err"] is not None
        modes.add(pt["op"]["mode"])

    def put_part(eko, pr):
        hdr = header_of(pr["h"])
        op = s1.make_operator(pr["op"], pr["err"])
        name = inv_name(hdr, True)
        getattr(eko, name)[hdr] = op
        want[name][header_key(hdr)] = s1.op_frozen(op)

    def run_actions(eko, actions, session):
        """Further public-API actions inside an open writable session; the model follows every one of them."""
        nonlocal special
        for a in actions:
            kind = a[0]
            keys = sorted(want["points"])
            if kind in ("mutate", "del") and not keys:
                continue
            if kind == "mutate":
                # update a stored operator in place and save it the documented way (Inventory.__delitem__ docstring):
                # assign the same object again
                _, i, seed, mode, via = a
                k = keys[i % len(keys)]
                op = held.get(k) if via == "held" else None
                if op is None:
                    op = eko[eps[k]]
                    via = "load"
                op.operator[...] = s1.make_array({"seed": seed, "mode": mode, "shape": list(op.operator.shape)})
                if op.error is not None:
                    op.error[...] = s1.make_array({"seed": seed + 1, "mode": mode, "shape": list(op.error.shape)})
                eko[eps[k]] = op
                held[k] = op
                want["points"][k] = s1.op_frozen(op)
                special |= mode != "unit"
                actions_done.add(f"{session}:mutate-{via}")
            elif kind == "del":
                del eko[eps[keys[a[1] % len(keys)]]]
                actions_done.add(f"{session}:del")
            elif kind == "unload":
                eko.unload()
                actions_done.add(f"{session}:unload")
            elif kind == "dump":
                eko.dump()
                actions_done.add(f"{session}:dump")
            elif kind == "snapshot":
                # a copy of the current content written to another archive; the registered archive is written at close
                dest = sb.dir / f"snapshot{len(snapshots)}.tar"
                eko.dump(dest)
                snapshots.append((dest, copy.deepcopy(want), f"snapshot@{session}"))
                actions_done.add(f"{session}:snapshot")
            elif kind == "meta_xgrid":
                # Metadata docstring: nested changes need a manual call to update()
                eko.metadata.xgrid = XGrid(a[1], log=a[2])
                eko.metadata.update()
                want["metadata"]["xgrid"] = [float(x) for x in sorted(a[1])]
                want["xgrid_log"] = bool(a[2])
                actions_done.add(f"{session}:meta_xgrid")
            else:
                raise ValueError(f"unknown action {a}")
        if actions and actions[-1][0] == "snapshot":
            actions_done.add(f"{session}:snapshot-last")

    def check_snapshots():
        for dest, model, label in snapshots:
            try:
                with _opened(EKO.read, dest) as r:
                    got = snapshot(r)
            except Exception as e:  # noqa: BLE001
                res.fail(raised_bucket(e), f"stage {label}, reading the archive written by dump(path): {e!r}")
                continue
            compare(res, label, model, got)
        del snapshots[:]

    # ---- stage 1: write, close
    stage = "write"
    try:
        eko = EKO.create(path).load_cards(th, opc).build()
        for pt in case["points"]:
            put_point(eko, pt)
        for pr in case["parts"]:
            put_part(eko, pr)
        for h in case["recipes"]:
            hdr = header_of(h)
            eko.load_recipes([hdr])
            name = inv_name(hdr, False)
            want[name] = sorted(set(want[name]) | {header_key(hdr)})
        run_actions(eko, case.get("create_after", []), "write")
        eko.close()
    except Exception as e:  # noqa: BLE001 - repo call on in-domain input
        res.fail(raised_bucket(e), f"stage {stage}: {e!r}")
    npts = len(want["points"])
    edit = case["edit"]
    res.classes = [
        f"points={npts}", f"edit={edit['kind']}", f"numpy-key={numpy_key}", f"err={with_err}",
        f"parts={len(case['parts'])}", f"recipes={len(case['recipes'])}", f"scheme={case['card']['scheme']}",
    ] + [f"mode={m}" for m in sorted(modes)]
    if any(p["k"][0] == "card" for p in case["points"]):
        res.classes.append("key-from-card")
    if _has_ulp_pair(want["points"]):
        res.classes.append("ulp-pair")
    res.nontrivial = bool(npts >= 2 and (numpy_key or special or with_err))
    if res.violations:
        return

    # ---- stage 2: re-read
    stage = "reread"
    try:
        with _opened(EKO.read, path) as r:
            got = snapshot(r)
    except Exception as e:  # noqa: BLE001
        res.fail(raised_bucket(e), f"stage {stage}: {e!r}")
        return
    compare(res, stage, want, got)
    check_snapshots()
    res.classes += sorted(actions_done)
    if res.violations:
        return

    # ---- stage 3: edit one thing, close, re-read
    stage = f"edit-{edit['kind']}"
    try:
        eko = EKO.edit(path)
        held.clear()
        if edit["kind"] in ("add", "overwrite"):
            before = dict(want["points"])
            put_point(eko, edit["point"])
            k = resolve_key(edit["point"]["k"], opc)[1]
            if k in before and (before[k][1] is None) != (want["points"][k][1] is None):
                res.classes.append("overwrite-errflip")
        elif edit["kind"] == "xgrid":
            eko.xgrid = XGrid(edit["xgrid"], log=edit["log"])
            want["metadata"]["xgrid"] = [float(x) for x in sorted(edit["xgrid"])]
            want["xgrid_log"] = bool(edit["log"])
            res.classes.append(f"xgrid-log={edit['log']}")
        elif edit["kind"] == "part":
            put_part(eko, edit["part"])
        run_actions(eko, case.get("after", []), "edit")
        eko.close()
    except Exception as e:  # noqa: BLE001
        res.fail(raised_bucket(e), f"stage {stage}: {e!r}")
        return
    try:
        with _opened(EKO.read, path) as r:
            got = snapshot(r)
    except Exception as e:  # noqa: BLE001
        res.fail(raised_bucket(e), f"stage {stage}, re-reading: {e!r}")
        return
    compare(res, stage, want, got)
    check_snapshots()
    res.classes += sorted(a for a in actions_done if a.startswith("edit:"))


def _has_ulp_pair(points):
    ks = sorted(points)
    return any(a[1] == b[1] and 0 < abs(a[0] - b[0]) <= 4 * math.ulp(a[0]) for a, b in zip(ks, ks[1:]))


class _opened:
    """Open with the given constructor; always close the handle (the sandbox removes whatever is left)."""

    def __init__(self, ctor, path):
        self.ctor, self.path = ctor, path

    def __enter__(self):
        self.eko = self.ctor(self.path)
        return self.eko

    def __exit__(self, *exc):
        if self.eko.access.open:
            self.eko.close()
        return False

"""C54 archives written by the Python library are read identically by the Rust reader (crates/dekoder)."""

import pathlib
import shutil
import tempfile

import numpy as np

from vf import runner_util as ru
from vf.core import CaseResult, HarnessError, exc_bucket

ID = "C54"
LEVEL = "exploration"
ENGINE = "S"
TECHNIQUE = (
    "Hypothesis-generated archives written through the Python store (and a few tiny full solves); differential oracle: "
    "the dekoder sources of the tree, rebuilt offline into a dump binary, vs the Python reader (EKO.read), byte for byte"
)
RULE = (
    "Generated archives with 1-4 evolution points: scales log-uniform floats in [1, 1e6], integer-valued floats and "
    "Python ints, plus near neighbours (same nf, 2-20 x the reader's documented tolerance atol 1e-3 + rtol 1e-5*|s| apart) "
    "and equal scales with different nf; nf 3-6; operator AND error tensors of shape (14,k,14,k), k 2-6, random normal / "
    "sparse (compressible) / special values (nan, inf, -0.0, subnormals) / identity-like, C-ordered, Fortran-ordered or "
    "non-contiguous views, and (half of the store cases) tensors exactly representable in single precision: exact identity "
    "with zero error, small integers, dyadic rationals, zero error under a random operator, float32-rounded operator; "
    "written with EKO.create(path).load_cards(..).build(), eko[ep] = Operator(op, err), close. In 3/7 of the store cases "
    "points have a write history (stored without error then re-stored with error, n-n-e, e-n-e, e-e; always ending with "
    "error) whose later steps may happen after close + EKO.edit, and points may first appear in the second session. A "
    "minority of cases is a full tiny LO solve (eko.solve, 2-4 grid points, 1-3 targets, integer and float mu, sometimes the initial point itself = exact identity). In about "
    "45% of the store cases the evolution points are handed to the store as numpy scalars (as a grid built from numpy "
    "arrays would): scale numpy.float64, or numpy.int64 when integer-valued, and / or nf numpy.int64 / numpy.int32, for "
    "all points or a random subset (compared like any other point; discarded and counted only if the Python reader "
    "refuses its own header). Oracle: the Rust reader opens the archive, lists the same (scale, nf) set as "
    "EKO.read, has_operator is true and load_operator returns operator and error tensors with the same shape and "
    "identical bytes (logical row-major order) for every point; a lookup displaced by 0.4 x the documented tolerance "
    "finds the same operator. Non-trivial = at least 2 points and at least one integer-valued scale; distinct by (mode, "
    "k, number of points, scale kinds, near pair, same-scale pair, tensor kind, layout, numpy key types, history shapes, "
    "second session)."
)
ASSUMPTIONS = [
    "the reader's own sources (crates/dekoder/src) are compiled from the tree under test, against the real `tar` 0.4.45 "
    "and `thiserror` 1.0.69 crates from the offline registry cache and against stand-ins written for this harness for the "
    "four crates that cannot be obtained offline: yaml-rust2 (block/flow subset with yaml-rust2 0.8's scalar typing "
    "rules, typed from memory of its source), lz4_flex (LZ4 frame decoder written from the format specification, all "
    "checksums verified), ndarray (Array4 only), ndarray-npy (ZIP stored/deflate + NPY 1.0/2.0/3.0, exact member names, "
    "'<f8'/'>f8' only, CRC verified); the stand-ins are the trusted base and are compared with Python's lz4, numpy and "
    "PyYAML by `python -m vf.refs.c54_rust selftest` (56 frames, 53 members, 915 documents)",
    "a construct outside a stand-in's subset is never given a silent meaning: it is reported by the dump binary and "
    "turned into a harness error (exit 2), not into a verdict",
    "documented tolerance of the reader: EvolutionPoint equality is nf equal and |a-b| <= 1e-3 + 1e-5*|b| (EP_CMP_ATOL, "
    "EP_CMP_RTOL in crates/dekoder/src/eko.rs); generated same-nf scales are at least 2x that apart, so they are "
    "distinguishable and a request displaced by 0.4x is unambiguous",
    "bitwise comparison is on the logical row-major element order (what both readers expose), not on the memory layout",
    "a compile error located in crates/dekoder is a violation; a failure to build the harness or a stand-in, or an API "
    "of a replaced crate that the stand-in lacks, is a harness error",
]
LEVEL_TEXT = (
    "Generated-input differential exploration: the Rust reader's own code is executed on archives produced by the real "
    "Python writer and compared byte for byte with the Python reader. It samples archives, it does not exhaust them, and "
    "the decoders of four third-party crates are replaced by harness-side stand-ins (trusted base)."
)

ATOL = 1e-3
RTOL = 1e-5
SEP = 2.0  # generated same-nf scales are at least SEP x tolerance apart
DISPLACE = 0.4


def budget(tier):
    # core.py evaluates the budget before it starts a shard's clock (and once in the orchestrator before any shard is
    # spawned): building here keeps a cold `cargo build` (minutes on a fresh .build directory) out of the shards' wall budget
    from vf.refs import c54_rust

    c54_rust.get()
    if tier == "quick":
        return dict(max_examples=30, shards=5, wall_s=80, shrink_s=40)
    return dict(max_examples=400, shards=10, wall_s=700, shrink_s=150)


def tol(a, b=0.0):
    return ATOL + RTOL * max(abs(a), abs(b))


def _distinct(points):
    """Greedy filter: keep points that are distinguishable (same nf: more than SEP x tolerance apart) from those kept."""
    kept = []
    for s, nf in points:
        if all(n != nf or abs(float(s) - float(t)) > SEP * tol(float(s), float(t)) for t, n in kept):
            kept.append([s, nf])
    return kept


def strategy(tier):
    from hypothesis import strategies as st

    nfs = st.integers(3, 6)
    log_float = st.floats(0.0, 6.0).map(lambda e: float(10.0**e))
    int_float = st.integers(1, 10**6).map(float)
    py_int = st.integers(1, 10**6)
    scale = st.one_of(log_float, log_float, int_float, py_int, st.sampled_from([100.0, 10000, 1.0, 1e6, 2.5, 65.25]))

    @st.composite
    def store(draw):
        n = draw(st.sampled_from([1, 2, 2, 3, 3, 4]))
        pts = [[draw(scale), draw(nfs)] for _ in range(n)]
        extra = draw(st.sampled_from(["none", "none", "near", "near", "same-scale", "int-forced"]))
        if extra == "near":
            s, nf = pts[0]
            f = draw(st.floats(SEP * 1.05, 20.0))
            sign = draw(st.sampled_from([1.0, -1.0]))
            t = float(s) + sign * f * tol(float(s), float(s) * 1.001)
            if t > 0.5:
                pts.insert(1, [t, nf])
        elif extra == "same-scale":
            s, nf = pts[0]
            pts.insert(1, [s, 3 + (nf - 3 + draw(st.integers(1, 3))) % 4])
        elif extra == "int-forced":
            pts.insert(0, [draw(st.one_of(int_float, py_int)), draw(nfs)])
        pts = _distinct(pts)[:4]
        # how each key is handed to the store: python builtins or numpy scalars (grids built from numpy arrays)
        style = draw(st.sampled_from(["py", "py", "py", "py", "py", "np-all", "np-all", "np-nf", "np-mixed"]))
        nptypes = []
        for _ in pts:
            if style == "py":
                nptypes.append(["py", "py"])
            elif style == "np-all":
                nptypes.append([draw(st.sampled_from(["f8", "i8"])), draw(st.sampled_from(["i8", "i4"]))])
            elif style == "np-nf":
                nptypes.append(["py", draw(st.sampled_from(["i8", "i4"]))])
            else:
                nptypes.append([draw(st.sampled_from(["py", "f8", "i8"])), draw(st.sampled_from(["py", "i8", "i4"]))])
        # write history of each point: steps "e" (operator with error) / "n" (operator without error), the last one always
        # with error (the property's domain); `split` steps happen in the creating session, the rest after close + EKO.edit
        rewrite = draw(st.sampled_from([False, False, False, False, True, True, True]))
        once = [["e"]]
        upgrades = [["n", "e"], ["n", "n", "e"], ["e", "n", "e"]]
        history = []
        for i in range(len(pts)):
            if not rewrite:
                steps = ["e"]
            elif i == 0:
                steps = draw(st.sampled_from(upgrades))
            else:
                steps = draw(st.sampled_from(once * 3 + upgrades + [["e", "e"]]))
            split = draw(st.integers(0, len(steps))) if rewrite and draw(st.booleans()) else len(steps)
            history.append([list(steps), split])
        return dict(
            mode="store",
            k=draw(st.integers(2, 6)),
            points=pts,
            seed=draw(st.integers(0, 2**32 - 1)),
            tensor=draw(st.sampled_from(TENSOR_KINDS)),
            history=history,
            layout=draw(st.sampled_from(["C", "C", "C", "F", "view"])),
            nptypes=nptypes,
        )

    @st.composite
    def solve(draw):
        k = draw(st.integers(2, 4))
        # [2.0, 4] / [2, 4] is the initial point itself: the solve stores the exact identity with vanishing error
        cands = [[3, 4], [3.0, 4], [3.5, 4], [4, 4], [10, 5], [10.0, 5], [20.5, 5], [100, 5], [7.25, 5], [2.0, 4], [2, 4], [2.0, 4]]
        n = draw(st.sampled_from([1, 2, 2, 3]))
        idx = draw(st.lists(st.integers(0, len(cands) - 1), min_size=n, max_size=n, unique=True))
        mugrid = []
        for i in idx:
            mu, nf = cands[i]
            if all(float(mu) != float(m) for m, _ in mugrid):
                mugrid.append([mu, nf])
        return dict(mode="solve", k=k, mugrid=mugrid, xmin=draw(st.sampled_from([1e-3, 1e-2, 0.1])))

    return st.one_of(store(), store(), store(), store(), store(), solve())


# ----------------------------------------------------------------------------------------------------------- writers


# tensor kinds; the second group has operator and / or error exactly representable in single precision
TENSOR_KINDS = ["normal", "normal", "sparse", "special", "identity",
                "identity-exact", "integers", "dyadic", "zero-error", "f32-operator"]
F32_EXACT = {"identity-exact": "op+err", "integers": "op+err", "dyadic": "op+err", "zero-error": "err", "f32-operator": "op"}


def tensors(case, index, version=0):
    """Operator and error tensors of write ``version`` of point ``index`` (deterministic in the case)."""
    k = case["k"]
    shape = (14, k, 14, k)
    rng = np.random.default_rng([case["seed"], index, version])
    kind = case["tensor"]

    def one():
        a = rng.standard_normal(shape)
        if kind == "sparse":
            a = np.where(rng.random(shape) < 0.9, 0.0, a)
        elif kind == "special":
            flat = a.reshape(-1)
            specials = [np.nan, np.inf, -np.inf, -0.0, 0.0, 5e-324, -2.2250738585072014e-308, 1.7976931348623157e308,
                        float(np.frombuffer(b"\x01\x00\x00\x00\x00\x00\xf8\x7f", dtype="<f8")[0])]
            pos = rng.choice(flat.size, size=min(flat.size, 3 * len(specials)), replace=False)
            for j, p in enumerate(pos):
                flat[p] = specials[j % len(specials)]
        elif kind == "identity":
            a = np.zeros(shape)
            for p in range(14):
                for j in range(k):
                    a[p, j, p, j] = 1.0
            a += np.where(rng.random(shape) < 0.02, rng.standard_normal(shape) * 1e-7, 0.0)
        return a

    if kind == "identity-exact":
        op = np.zeros(shape)
        for p in range(14):
            for j in range(k):
                op[p, j, p, j] = 1.0
        err = np.zeros(shape)
    elif kind == "integers":
        op = rng.integers(-3, 4, shape).astype(float)
        err = rng.integers(0, 3, shape).astype(float)
    elif kind == "dyadic":
        op = rng.integers(-(2**10), 2**10, shape) / 2.0**7
        err = rng.integers(0, 2**8, shape) / 2.0**12
    elif kind == "zero-error":
        op, err = one(), np.zeros(shape)
    elif kind == "f32-operator":
        op, err = one().astype(np.float32).astype(np.float64), np.abs(one())
    else:
        op, err = one(), np.abs(one()) if kind != "special" else one()
    layout = case["layout"]
    if layout == "F":
        op, err = np.asfortranarray(op), np.asfortranarray(err)
    elif layout == "view":
        # non-contiguous views with the same logical content
        big = np.zeros((14, 2 * k, 14, k))
        big[:, ::2] = op
        op = big[:, ::2]
        err = np.ascontiguousarray(err.transpose(3, 2, 1, 0)).transpose(3, 2, 1, 0)
    return op, err


def write_store(case, path):
    from eko.io.items import Operator
    from eko.io.struct import EKO

    xgrid = np.geomspace(1e-3, 1.0, case["k"]).tolist()
    th, opc = ru.cards(dict(xgrid=xgrid, mugrid=[[10.0, 4]]))
    keys = []
    for i, (s, nf) in enumerate(case["points"]):
        st_, nt_ = case["nptypes"][i]
        if st_ == "i8" and float(s).is_integer():
            s = np.int64(int(s))
        elif st_ in ("f8", "i8"):
            s = np.float64(s)
        if nt_ != "py":
            nf = {"i8": np.int64, "i4": np.int32}[nt_](nf)
        keys.append((s, nf))  # keys exactly as typed above
    history = case.get("history") or [[["e"], 1] for _ in keys]
    sessions = [[], []]
    nsteps = max(len(steps) for steps, _ in history)
    for j in range(nsteps):
        for i, (steps, split) in enumerate(history):
            if j < len(steps):
                sessions[0 if j < split else 1].append((i, j, steps[j] == "e"))

    def run(eko, writes):
        for i, j, with_err in writes:
            op, err = tensors(case, i, j)
            eko[keys[i]] = Operator(operator=op, error=err if with_err else None)

    with EKO.create(path).load_cards(th, opc).build() as eko:
        run(eko, sessions[0])
    if sessions[1]:
        with EKO.edit(path) as eko:
            run(eko, sessions[1])


def write_solve(case, path):
    xgrid = np.geomspace(case["xmin"], 1.0, case["k"]).tolist()
    ru.solve_to(dict(order=[1, 0], xgrid=xgrid, mugrid=case["mugrid"], init=[2.0, 4], deg=1, iters=1), path)


def read_python(path):
    """[(scale as stored, nf, operator, error)] through the Python reader."""
    from eko.io.struct import EKO

    out = []
    with EKO.read(path) as eko:
        for ep in list(eko):
            op = eko[ep]
            out.append((ep[0], int(ep[1]), np.array(op.operator), None if op.error is None else np.array(op.error)))
            del eko[ep]
    return out


def logical_bytes(a):
    return np.ascontiguousarray(a).astype("<f8", copy=False).tobytes()


def scale_kind(s):
    if isinstance(s, int):
        return "int"
    return "float-integer" if float(s).is_integer() else "float"


def first_diff(a, b):
    n = min(len(a), len(b))
    x = np.frombuffer(a[: n - n % 8], dtype="<u8")
    y = np.frombuffer(b[: n - n % 8], dtype="<u8")
    d = np.nonzero(x != y)[0]
    if len(d) == 0:
        return f"lengths {len(a)} vs {len(b)}"
    i = int(d[0])
    return f"{len(d)} of {len(x)} entries differ; first at flat index {i}: rust bits {int(x[i]):016x}, python bits {int(y[i]):016x}"


# ----------------------------------------------------------------------------------------------------------- oracle


def check_case(case):
    from vf.refs import c54_rust

    res = CaseResult()
    mode = case["mode"]
    if mode == "store":
        pts = case["points"]
        kinds = sorted({scale_kind(s) for s, _ in pts})
        near = any(
            a[1] == b[1] and abs(float(a[0]) - float(b[0])) <= 25 * tol(float(a[0]), float(b[0]))
            for i, a in enumerate(pts) for b in pts[i + 1:]
        )
        same = any(float(a[0]) == float(b[0]) and a[1] != b[1] for i, a in enumerate(pts) for b in pts[i + 1:])
        np_scale = sorted({("i8" if t[0] == "i8" and float(p[0]).is_integer() else "f8") for p, t in zip(pts, case["nptypes"]) if t[0] != "py"})
        np_nf = sorted({t[1] for t in case["nptypes"] if t[1] != "py"})
        history = case.get("history") or [[["e"], 1] for _ in pts]
        shapes = sorted({"".join(steps) for steps, _ in history})
        edited = any(split < len(steps) for steps, split in history)
        res.key = ["store", case["k"], len(pts), kinds, near, same, case["tensor"], case["layout"], np_scale, np_nf, shapes, edited]
        res.classes = [
            "mode=store", f"k={case['k']}", f"points={len(pts)}", f"tensor={case['tensor']}", f"layout={case['layout']}",
            f"near-pair={near}", f"same-scale-other-nf={same}", f"numpy-keys={bool(np_scale or np_nf)}",
        ] + [f"numpy-scale={x}" for x in np_scale] + [f"numpy-nf={x}" for x in np_nf] + [f"scale-kind={x}" for x in kinds] + [
            f"history={x}" for x in shapes] + [f"second-session(EKO.edit)={edited}", f"float32-exact={F32_EXACT.get(case['tensor'], 'none')}"]
        res.nontrivial = len(pts) >= 2 and any(x != "float" for x in kinds)
    else:
        mus = case["mugrid"]
        kinds = sorted({scale_kind(m * m) for m, _ in mus})
        res.key = ["solve", case["k"], len(mus), kinds, case["xmin"]]
        res.classes = ["mode=solve", f"k={case['k']}", f"points={len(mus)}"] + [f"scale-kind={x}" for x in kinds]
        res.nontrivial = len(mus) >= 2 and any(x != "float" for x in kinds)

    status, exe = c54_rust.get()
    if status == "violation":
        res.fail(f"{ID}/build", exe)
        return res

    old_tmp = tempfile.tempdir
    base = pathlib.Path(tempfile.mkdtemp(prefix="c54-"))
    tempfile.tempdir = str(base)  # the store's own scratch directories land inside (and are removed with) the case directory
    try:
        archive = base / "eko.tar"
        try:
            if mode == "store":
                write_store(case, archive)
            else:
                write_solve(case, archive)
        except Exception as e:  # noqa: BLE001 - the writer is repo code; in-domain input must be written
            res.fail(exc_bucket(f"{ID}/python-write/{mode}", e), repr(e))
            return res
        try:
            ref = read_python(archive)
        except Exception as e:  # noqa: BLE001
            if mode == "store" and any(t != ["py", "py"] for t in case["nptypes"]):
                # the header of a numpy-scalar key is not re-readable by the Python reader itself (decided by C36/C40): there
                # is no reference to compare the Rust reader with
                return CaseResult(discarded=f"python reader refuses its own numpy-scalar header ({type(e).__name__})")
            res.fail(exc_bucket(f"{ID}/python-read/{mode}", e), repr(e))
            return res
        if any(err is None for *_, err in ref):
            return CaseResult(discarded="operator without errors (outside the property)")

        requests = [(float(s), nf) for s, nf, _, _ in ref]
        displaced = []
        for i, (s, nf) in enumerate(requests):
            sign = 1.0 if i % 2 == 0 else -1.0
            displaced.append((s + sign * DISPLACE * tol(s), nf))
        (base / "out").mkdir()
        r = c54_rust.read(exe, archive, base / "rust-work", base / "out", requests + displaced)

        if r["notes"] is None and r["rc"] == 0:
            raise HarnessError(f"dump binary printed no notes record: {r['stderr']}")
        if r["notes"] and any(r["notes"].values()):
            raise HarnessError(f"archive uses a construct outside the stand-in decoders' subset (not decidable): {r['notes']}")
        if r["rc"] != 0:
            res.fail(f"{ID}/reader-crash/rc={r['rc']}", f"the reader process ended with status {r['rc']}: {r['stderr'][-600:]}")
            return res
        if not r["open"] or not r["open"].get("ok"):
            err = (r["open"] or {}).get("error", "?")
            res.fail(f"{ID}/open/{err.split('(')[0]}", f"EKO::extract failed on an archive the Python reader reads: {err}")
            return res

        want = sorted((nf, float(s)) for s, nf, _, _ in ref)
        got = sorted((nf, s) for s, nf in r["points"])
        if want != got:
            res.fail(
                f"{ID}/points" + ("/count" if len(want) != len(got) else "/values"),
                f"evolution points differ: python {[(s, nf) for nf, s in want]} vs rust {[(s, nf) for nf, s in got]}",
            )
        n = len(ref)
        for i, (s, nf, op, err) in enumerate(ref):
            for what, j in (("exact", i), ("displaced", n + i)):
                rec = r["loads"].get(j)
                asked = (requests + displaced)[j]
                if rec is None:
                    raise HarnessError(f"no load record {j} from the dump binary")
                tag = "" if what == "exact" else "tolerant-lookup/"
                if not rec["has"]:
                    res.fail(f"{ID}/{tag}has", f"has_operator({asked}) is false; python lists {(s, nf)}")
                if not rec["ok"]:
                    res.fail(f"{ID}/{tag}load/{rec['error'].split('(')[0]}", f"load_operator({asked}) failed: {rec['error']}")
                    continue
                for label, arr in (("op", op), ("err", err)):
                    t = rec[label]
                    if t is None:
                        res.fail(f"{ID}/{tag}missing/{label}", f"load_operator({asked}) returned no {label} tensor")
                        continue
                    shape, data = t
                    if tuple(shape) != tuple(arr.shape):
                        res.fail(f"{ID}/{tag}shape/{label}", f"point {asked}: rust shape {tuple(shape)} vs python {tuple(arr.shape)}")
                        continue
                    expect = logical_bytes(arr)
                    if data != expect:
                        res.fail(f"{ID}/{tag}bytes/{label}", f"point {asked}: {first_diff(data, expect)}")
        return res
    finally:
        tempfile.tempdir = old_tmp
        shutil.rmtree(base, ignore_errors=True)

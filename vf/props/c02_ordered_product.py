"""C02 each final EKO is the ordered product of the parts along its matched path."""

import io
import math
import pathlib
import shutil
import tarfile

import numpy as np

from vf import runner_util as ru
from vf.core import CaseResult, exc_bucket

ID = "C02"
LEVEL = "exploration"
ENGINE = "R"
TECHNIQUE = (
    "generated multi-target runcards solved end to end; independent path model + re-multiplication of the archived parts "
    "read straight from the tar + call counting of the part computations"
)
RULE = (
    "Generated operator cards with 1-5 targets whose (scale, nf) produce paths of 1-7 blocks (0-3 matchings; upward, "
    "downward, mixed in scale), LO/NLO, 2-3 point grids, matching ratios in [0.5, 2] (in a quarter of the cases chosen so that the charm matching scale lies above the bottom one). (a) An independent path model "
    "written from the property statement gives, per target, the ordered list of segments (origin, target, nf) and "
    "matchings (scale, heavy quark, inverse); the archive's parts/ and parts/matching/ directories (headers read from the "
    "YAML files in the tar, arrays from the sibling lz4 files, no use of the repository's name encoding) must contain "
    "exactly the union of these, each once, and the wrapped runner.parts.evolve / match must be called exactly once per "
    "element of the union. (b) For each target the einsum left-fold of the archived parts in path order (later to the "
    "left) equals the stored operator (1e-12 relative to the largest entry) and the stored error equals the first-order "
    "rule applied in the same association. Non-trivial = >=2 blocks whose product does not commute, or >=2 targets sharing "
    "a part; distinct by (order, nf0, sorted target nf list, shapes)."
)
ASSUMPTIONS = [
    "scales compared with relative tolerance 1e-13 (squares of generated floats)",
    "operator comparison 1e-12 x max|entry|; error comparison 1e-10 x max|error| in the association the runner documents (reduce from the target side)",
    "call counting wraps eko.runner.parts.evolve/match from the harness process only (no repository change)",
    "interpreted mode (NUMBA_DISABLE_JIT=1)",
]
LEVEL_TEXT = (
    "Generated-input exploration of the runner's orchestration (recipes, parts, join) against a reference path model and "
    "a re-computation from the archive's own parts; samples multi-target cards, does not exhaust them."
)


def budget(tier):
    if tier == "quick":
        return dict(max_examples=64, shards=16, wall_s=90, shrink_s=40)
    return dict(max_examples=700, shards=16, wall_s=1500, shrink_s=200)


def strategy(tier):
    from hypothesis import strategies as st

    @st.composite
    def build(draw):
        base = draw(
            ru.st_tiny_card(orders=(1, 1, 2), methods=("iterate-exact", "truncated", "decompose-exact"),
                            n_extra_targets=(1, 5), grid_pts=(2, 3), iters=(1, 2), weird_nf=0.4)
        )
        if base["order"][0] == 2:
            base["xgrid"] = base["xgrid"][-2:]
            base["deg"] = 1
        # often reuse a scale or an nf between targets so that parts are shared
        if len(base["mugrid"]) >= 2 and draw(st.booleans()):
            i = draw(st.integers(0, len(base["mugrid"]) - 1))
            j = draw(st.integers(0, len(base["mugrid"]) - 1))
            if i != j:
                base["mugrid"][j] = [base["mugrid"][i][0], draw(st.sampled_from((3, 4, 5, 6)))]
        # unordered matching scales (charm wall above the bottom wall) are valid input: "any matching-scale ratios"
        if draw(st.integers(0, 3)) == 0:
            base["masses"][0] = max(base["masses"][0], 1.5)
            base["ratios"][0], base["ratios"][1] = 2.0, 0.5
        seen, mg = set(), []
        for m, n in base["mugrid"]:
            if (m, n) not in seen:
                seen.add((m, n))
                mg.append([m, n])
        base["mugrid"] = mg
        if any(n < base["init"][1] for _, n in mg) and base["inv"] is None:
            base["inv"] = draw(st.sampled_from(("exact", "expanded")))
        # all walls between 3 and 6 may be crossed: anchor the coupling at the lowest scale overall
        walls = ru.walls_of(base)
        lowest = min([base["init"][0], base["ref"][0]] + [m for m, _ in mg] + walls[:2])
        base["alphas"] = float(ru.lo_alpha(draw(st.floats(0.1, 0.3)), lowest, base["ref"][0]))
        return base

    return build()


# ------------------------------------------------------------------ reference path model (from the statement)


def model_path(origin, target, walls2):
    """Ordered blocks from origin (mu2, nf) to target (mu2, nf): ('seg', from, to, nf) / ('match', scale, hq, inverse)."""
    mu20, nf0 = origin
    mu2, nf = target
    blocks = []
    cur = mu20
    if nf >= nf0:
        for k in range(nf0, nf):  # activate quark k+1 at its matching scale
            w = walls2[k - 3]
            blocks.append(("seg", cur, w, k))
            blocks.append(("match", w, k + 1, False))
            cur = w
        blocks.append(("seg", cur, mu2, nf))
    else:
        for k in range(nf0, nf, -1):  # deactivate quark k at its matching scale
            w = walls2[k - 4]
            blocks.append(("seg", cur, w, k))
            blocks.append(("match", w, k, True))
            cur = w
        blocks.append(("seg", cur, mu2, nf))
    return blocks


def close(a, b):
    return a == b or abs(a - b) <= 1e-13 * max(abs(a), abs(b))


def same_block(x, y):
    if x[0] != y[0]:
        return False
    if x[0] == "seg":
        return close(x[1], y[1]) and close(x[2], y[2]) and x[3] == y[3]
    return close(x[1], y[1]) and x[2] == y[2] and bool(x[3]) == bool(y[3])


def assign(b, union):
    """Index of the model block that b realises: the nearest one within the tolerance (exact matches win), else None."""
    cand = [i for i, u in enumerate(union) if same_block(b, u)]
    if not cand:
        return None
    if b[0] == "seg":
        return min(cand, key=lambda i: abs(union[i][1] - b[1]) + abs(union[i][2] - b[2]))
    return min(cand, key=lambda i: abs(union[i][1] - b[1]))


def read_parts(root):
    """[(block, operator, error)] from the extracted archive, pairing YAML headers and lz4 arrays by file stem."""
    import lz4.frame
    import yaml

    out = []
    for sub, kind in (("parts", "seg"), ("parts/matching", "match")):
        d = root / sub
        for h in sorted(d.glob("*.yaml")):
            head = yaml.safe_load(h.read_text())
            stem = h.name[: -len(".yaml")]
            sib = [p for p in d.iterdir() if p.is_file() and p.name.startswith(stem + ".") and p.name.endswith(".lz4")]
            if len(sib) != 1:
                out.append(((kind, head), None, None, f"{len(sib)} array files for header {h.name}"))
                continue
            content = np.load(io.BytesIO(lz4.frame.decompress(sib[0].read_bytes())))
            if isinstance(content, np.ndarray):
                op, err = content, None
            else:
                op, err = content["operator"], content["error"]
            if kind == "seg":
                blk = ("seg", float(head["origin"]), float(head["target"]), int(head["nf"]))
            else:
                blk = ("match", float(head["scale"]), int(head["hq"]), bool(head["inverse"]))
            out.append((blk, op, err, None))
    return out


def dot4(a, b):
    return np.einsum("aibj,bjck->aick", a, b)


def check_case(case):
    import eko
    from eko.runner import parts as rparts

    res = CaseResult()
    c = ru.full(case)
    nf0 = c["init"][1]
    walls2 = [(r * r) * (m * m) for m, r in zip(c["masses"], c["ratios"])]
    origin = (c["init"][0] ** 2, nf0)
    targets = [(m**2, n) for m, n in c["mugrid"]]
    paths = {t: model_path(origin, t, walls2) for t in targets}
    union = []
    for t in targets:
        for b in paths[t]:
            if b not in union:  # exact: targets one ulp apart are different targets (and different parts)
                union.append(b)
    nblocks = max(len(p) for p in paths.values())
    shared = sum(len(p) for p in paths.values()) > len(union)
    res.classes = [f"order={c['order'][0]}", f"targets={len(targets)}", f"maxblocks={nblocks}", f"shared={shared}", f"walls-ordered={walls2[0] <= walls2[1] <= walls2[2]}"]
    for t in targets:
        res.classes.append("dir=" + ("up" if t[1] > nf0 else "down" if t[1] < nf0 else "fixed"))
    res.key = [c["order"], nf0, sorted(n for _, n in targets), len(c["xgrid"]), c["method"]]

    calls = {"evolve": [], "match": []}
    orig_e, orig_m = rparts.evolve, rparts.match

    def w_evolve(ek, recipe):
        calls["evolve"].append(("seg", float(recipe.origin), float(recipe.target), int(recipe.nf)))
        return orig_e(ek, recipe)

    def w_match(ek, recipe):
        calls["match"].append(("match", float(recipe.scale), int(recipe.hq), bool(recipe.inverse)))
        return orig_m(ek, recipe)

    d = ru.fresh_dir()
    try:
        th, op = ru.cards(case)
        rparts.evolve, rparts.match = w_evolve, w_match
        try:
            eko.solve(th, op, d / "o.tar")
        except (NotImplementedError, ValueError) as e:
            return CaseResult(discarded=f"refused:{type(e).__name__}")
        except Exception as e:  # noqa: BLE001 - crashes are C04's verdict
            return CaseResult(discarded=exc_bucket("crash(decided by C04)", e))
        finally:
            rparts.evolve, rparts.match = orig_e, orig_m
        ops = ru.load_all(d / "o.tar")
        ex = d / "x"
        ex.mkdir()
        with tarfile.open(d / "o.tar") as tar:
            tar.extractall(ex, filter="data")
        stored = read_parts(ex)
    finally:
        shutil.rmtree(d, ignore_errors=True)

    # (a) stored parts == union of the model paths, each once; computed exactly once
    for blk, _o, _e, problem in stored:
        if problem:
            res.fail(f"{ID}/archive/array-files", problem)
    stored_ok = [(b, o, e) for b, o, e, p in stored if not p]
    where = [assign(b, union) for b, _, _ in stored_ok]
    for i, u in enumerate(union):
        n = where.count(i)
        if n != 1:
            res.fail(f"{ID}/parts/{'missing' if n == 0 else 'duplicate'}/{u[0]}", f"expected part {u} stored {n} times; stored: {[b for b, _, _ in stored_ok]}")
    for (b, _, _), i in zip(stored_ok, where):
        if i is None:
            res.fail(f"{ID}/parts/unexpected/{b[0]}", f"stored part {b} is on no target's path; expected union {union}")
    for kind, lst in calls.items():
        cw = [assign(b, union) for b in lst]
        for i, u in enumerate(union):
            if u[0] != ("seg" if kind == "evolve" else "match"):
                continue
            n = cw.count(i)
            if n != 1:
                res.fail(f"{ID}/computed/{n}-times/{kind}", f"part {u} computed {n} times (calls: {lst})")
        for b, i in zip(lst, cw):
            if i is None:
                res.fail(f"{ID}/computed/unexpected/{kind}", f"computed {b}, which is on no path")

    # (b) each stored operator is the ordered product of its path's parts
    noncomm = False
    for t in targets:
        key = None
        for k in sorted(ops, key=lambda k: abs(k[0] - t[0]), reverse=True):  # the nearest one wins
            if k[1] == t[1] and close(k[0], t[0]):
                key = k
        if key is None:
            res.fail(f"{ID}/operators/missing", f"no operator stored for target {t}; have {sorted(ops)}")
            continue
        chain = []
        for b in paths[t]:
            hit = [(o, e) for (bb, o, e), i in zip(stored_ok, where) if i == union.index(b)]
            if len(hit) != 1:
                chain = None
                break
            chain.append(hit[0])
        if chain is None:
            continue  # already reported above
        # later to the left, association from the target side (the documented reduce over the reversed path)
        val, err = chain[-1]
        for o, e in reversed(chain[:-1]):
            if err is not None and e is not None:
                err = dot4(np.abs(val), np.abs(e)) + dot4(np.abs(err), np.abs(o))
            else:
                err = None
            val = dot4(val, o)
        got, gerr = ops[key]
        scale = float(np.max(np.abs(val)))
        dev = float(np.max(np.abs(got - val)))
        direction = "up" if t[1] > nf0 else "down" if t[1] < nf0 else "fixed"
        if not dev <= 1e-12 * scale:
            # does the reversed order explain it?
            rv = chain[0][0]
            for o, _ in chain[1:]:
                rv = dot4(rv, o)
            hint = " (equals the product in the REVERSED order)" if np.max(np.abs(got - rv)) <= 1e-12 * scale else ""
            res.fail(f"{ID}/product/{direction}/blocks={len(chain)}", f"target {t}: stored operator differs from the ordered product of its {len(chain)} parts by {dev:.3e} (scale {scale:.3e}){hint}")
        if (err is None) != (gerr is None):
            res.fail(f"{ID}/error/presence", f"target {t}: stored error is {'absent' if gerr is None else 'present'} but parts say otherwise")
        elif err is not None:
            es = float(np.max(np.abs(err)))
            ed = float(np.max(np.abs(gerr - err)))
            if not ed <= 1e-10 * max(es, 1e-300):
                res.fail(f"{ID}/error/{direction}", f"target {t}: stored error differs from the first-order rule by {ed:.3e} (scale {es:.3e})")
        if len(chain) >= 2:
            a, b = chain[-1][0], chain[-2][0]
            ab, ba = dot4(a, b), dot4(b, a)
            if np.max(np.abs(ab - ba)) > 1e-6 * np.max(np.abs(ab)):
                noncomm = True
    res.nontrivial = bool(noncomm or (len(targets) >= 2 and shared))
    return res

"""C18 MSbar heavy-quark masses are computable fixed points m(m) = m.

Generated consistent / deliberately inconsistent MSbar inputs through ``eko.io.runcards.masses`` (the path the
runner uses), judged by

* "returned without error, sorted" (any exception on a consistent input is a violation),
* an independent fixed-point oracle: the harness integrates the documented mass RGE itself
  (``mpmath`` quadrature of gamma_m/beta with literature coefficients for the exact method, a generically
  derived truncated series for the expanded method) inside the flavour patch adjoining the quark threshold,
* at unit matching ratios also across thresholds, with the literature decoupling constants,
* the documented ValueError contract for inconsistent inputs,
* the renormalisation-group identity that fixes the logarithms of the mass decoupling tables (exhaustive part).
"""

import math
from fractions import Fraction as F

from vf.core import CaseResult, exc_bucket

ID = "C18"
LEVEL = "exploration"
TECHNIQUE = (
    "constructed consistent / inconsistent MSbar inputs; independent quadrature / series evaluation of the mass "
    "RGE with literature gamma_m, beta as fixed-point oracle; ValueError contract; RG identity of the decoupling "
    "tables"
)
RULE = (
    "Random part: nf_ref in 3..6, Qref placed inside the nf_ref patch of drawn charm/bottom/top masses, alpha_s(Qref) "
    "from an alpha_s(M_Z)-like value 0.110-0.125, QCD order 1-4, exact/expanded, matching ratios and xif in "
    "{1} U [0.5,2]; for every quark the pair (m_ref, Q_m) is constructed on the side the documentation requires in "
    "one of three modes: Q_m = m, Q_m inside the flavour patch adjoining the quark threshold, Q_m beyond the "
    "neighbouring threshold (mass matching needed); 25% of the cases are made inconsistent on purpose (wrong side "
    "of the mass, wrong side of the coupling reference, masses that come out unsorted); one case in four calls "
    "msbar_masses.evolve directly between two (scale, nf) points in their natural patches (or on the wall just "
    "crossed) at unit ratios, or crosses one matching scale up and back down (orders 3-4, ratio in [0.5,2], at "
    "alpha_s, alpha_s/2, alpha_s/4), or compares one evolve call across two or three matching scales (up and down, "
    "orders 2-4, ratios in [0.5,2]) with the same path cut into legs that cross one matching scale each; the mass "
    "inputs also include references two patches away from the target patch (charm given above m_t, top given "
    "below m_c), which are re-evolved leg by leg to the returned mass, and neighbour references sitting exactly "
    "on the coupling reference scale. Exhaustive part: the "
    "decoupling tables for nl = 3,4,5. Non-trivial = QCD order >= 2 and Q_m != m for at least one quark (or a "
    "table case); distinct by case."
)
ASSUMPTIONS = [
    "gamma_m (Vermaseren-Larin-van Ritbergen 1997) and beta (Herzog et al. 2017) tables of vf/props/c20_coefficients.py, "
    "typed from the literature; mass decoupling constants 89/27 and 64*(2951/2916 - 407/864 z3 + 5/4 z4 - B4/36) + "
    "64*nl*(1327/11664 - 2/27 z3) (Chetyrkin-Kniehl-Steinhauser 1998 / Liu-Steinhauser 2015) and the MSbar coupling "
    "decoupling -2/3 L; 22/9 - 22/3 L + 4/9 L^2 (CKS 1997), all for a = alpha_s/4pi, L = ln(mu^2/m_h(mu)^2)",
    "a_s values entering the oracle are taken from a Couplings object built exactly as the documentation says "
    "(MSBAR scheme, matching ratios times xif^2, the returned masses); the coupling itself is decided by C15-C17",
    "fixed-point tolerance 1e-5 relative on m for the exact method (code: scipy quad epsrel=1e-5 on an exponent "
    "of size <= 1, fsolve xtol 1.5e-8) and 1e-6 for the expanded method (closed formula, only fsolve); calibrated "
    "on a scratch tree with the two proposed patches (float(ndarray) and matching**2): worst residuals over 4x120 "
    "cases 2e-14 inside a patch and 7e-10 across thresholds",
    "msbar_masses.evolve is additionally called directly (natural nf at origin and target, unit ratios, xif = 1) "
    "and compared with the same harness model, so the across-threshold behaviour is decided even while "
    "compute() cannot run",
    "self-consistency of the two code paths (every quark, any ratios / xif): evolve(m_ref^2, Q_m^2, Couplings built "
    "as compute does, matching, xif2, q2_to = returned m^2, nf at Q_m by the returned masses, target patch) must "
    "return the computed m^2 within 1e-6 (only fsolve, xtol 1.5e-8, lies in between; clean tree: <= 4e-14)",
    "composition: evolve over several matching scales in one call vs threshold by threshold (legs joined inside "
    "the intermediate patches) within 1e-9 relative on m^2, and compute vs the leg-wise re-evolution within 1e-6; "
    "both sides share every kernel and the open matching-once finding, clean tree residuals <= 1e-14",
    "round trip: up x down - 1 must be beyond the order of the decoupling relation; flagged only if it exceeds "
    "5 u^2 (u = U - 1; the clean tree gives exactly -u^2) AND its measured exponent in a_s(threshold) between "
    "alpha_s/2 and alpha_s/4 is below order - 0.3; the in-patch running must cancel on a round trip within 1e-7 "
    "(clean tree 7e-16)",
    "the fixed-point oracle is applied only when Q_m lies in the adjoining patch by both readings of its edge "
    "(neighbour mass and neighbour mass x matching ratio) with a 1e-6 margin; beyond it only at unit matching "
    "ratios and xif = 1, where the position of the mass matching point is unambiguous (mu = m_h, L = 0)",
    "decoupling tables: RG-identity residuals <= 2e-4 absolute and constants within 1e-5 relative (the code stores "
    "4-5 rounded decimals)",
    "inconsistent = violates one of the inequalities of doc/source/theory/pQCD.rst (m_h(mu_h) >= mu_h above the "
    "reference patch, <= below, mu_b <= mu_ref <= mu_t for the neighbours) with Q_m != m, or yields unsorted masses",
    "domain kept perturbative: every scale at which a_s is needed is >= 1.2 GeV after multiplication by xif",
]
LEVEL_TEXT = (
    "Random constructed inputs against an independent evaluation of the documented RGE; the input space is "
    "continuous, so the claim is exploration. The decoupling-table part is finite and exhausted (nl = 3,4,5)."
)

_RESIDUALS = None  # calibration hook (set to a list by a calibration script; never used by the runner)
TOL_EXACT = 1e-5
TOL_SELF = 1e-6  # compute vs evolve on m^2: same kernels on both sides, only fsolve (xtol 1.5e-8) in between
TOL_INPATCH = 1e-7
TOL_COMPOSE = 1e-9  # one evolve call vs the same path cut into legs: identical kernels, only quadrature re-association
TOL_EXPANDED = 1e-6
EDGE_MARGIN = 1e-6
MZ = 91.2

# --------------------------------------------------------------------------- literature


def _lit(tab, nf):
    import mpmath as mp

    from vf.props.c20_coefficients import _poly

    tot = mp.mpf(0)
    for z, zv in (("q", 1), ("z3", mp.zeta(3)), ("z4", mp.zeta(4)), ("z5", mp.zeta(5))):
        if z in tab:
            p = _poly(tab[z], nf)
            tot += mp.mpf(p.numerator) / p.denominator * zv
    return float(tot)


def betas(nf, n):
    from vf.props.c20_coefficients import BETA_QCD

    return [_lit(BETA_QCD[(k + 2, 0)], nf) for k in range(n)]


def gammas(nf, n):
    from vf.props.c20_coefficients import GAMMA_M

    return [_lit(GAMMA_M[k + 1], nf) for k in range(n)]


def mass_dec_constants(nl):
    """(d20, d30): m^(nl) = m^(nl+1) (1 + d20 a^2 + d30 a^3) at mu = m_h, a = a_s^(nl+1)(m_h^2)."""
    import mpmath as mp

    mp.mp.dps = 30
    b4 = (
        16 * mp.polylog(4, mp.mpf(1) / 2)
        - mp.mpf(13) / 2 * mp.zeta(4)
        - 4 * mp.zeta(2) * mp.log(2) ** 2
        + mp.mpf(2) / 3 * mp.log(2) ** 4
    )
    d30 = 64 * (
        mp.mpf(2951) / 2916 - mp.mpf(407) / 864 * mp.zeta(3) + mp.mpf(5) / 4 * mp.zeta(4) - b4 / 36
    ) + 64 * nl * (mp.mpf(1327) / 11664 - mp.mpf(2) / 27 * mp.zeta(3))
    return 89.0 / 27.0, float(d30)


# MSbar coupling decoupling a^(nl) = a (1 + D11 L a + (D20 + D21 L + D22 L^2) a^2), a = a^(nl+1)(mu), m_h(mu)
COUPLING_DEC = {(2, 1): -F(2, 3), (3, 0): F(22, 9), (3, 1): -F(22, 3), (3, 2): F(4, 9)}

# --------------------------------------------------------------------------- mass running references


def kernel_exact(a0, a1, nf, order):
    """exp(-int_{a0}^{a1} gamma_m(a)/beta(a) da) with n-loop literature coefficients (mpmath quadrature)."""
    import mpmath as mp

    mp.mp.dps = 25
    g = gammas(nf, order)
    b = betas(nf, order)

    def integrand(a):
        num = sum(gk * a**k for k, gk in enumerate(g))
        den = a * sum(bk * a**k for k, bk in enumerate(b))
        return num / den

    return float(mp.exp(mp.quad(integrand, [mp.mpf(a0), mp.mpf(a1)])))


def jexp_series(nf, order):
    """Coefficients j_0..j_{order-1} of j(a) = exp(int_0^a [gamma/(-beta) - c0/a']) truncated at a^(order-1).

    Derived generically: series division, termwise integration, series exponential."""
    g = gammas(nf, order)
    b = betas(nf, order)
    n = order
    c = [gk / b[0] for gk in g]
    bb = [bk / b[0] for bk in b]
    # q = c(a) / bb(a) as series (bb[0] = 1)
    q = []
    for k in range(n):
        q.append(c[k] - sum(bb[i] * q[k - i] for i in range(1, k + 1)))
    # integrand - c0/a = sum_{k>=1} q_k a^(k-1); integral = sum_{k>=1} q_k a^k / k
    e = [0.0] + [q[k] / k for k in range(1, n)]
    # exponential of a series with e_0 = 0: j' = e' j
    j = [1.0] + [0.0] * (n - 1)
    for k in range(1, n):
        j[k] = sum(i * e[i] * j[k - i] for i in range(1, k + 1)) / k
    return c[0], j


def kernel_expanded(a0, a1, nf, order):
    c0, j = jexp_series(nf, order)
    num = sum(jk * a1**k for k, jk in enumerate(j))
    den = sum(jk * a0**k for k, jk in enumerate(j))
    return (a1 / a0) ** c0 * num / den


def kernel(method, a0, a1, nf, order):
    if method == "exact":
        return kernel_exact(a0, a1, nf, order)
    return kernel_expanded(a0, a1, nf, order)


# --------------------------------------------------------------------------- generator


def _lo_alpha(amz, mu):
    return amz / (1 + amz * 23 / (12 * math.pi) * math.log(mu**2 / MZ**2))


def _lo_mass(t, mu, amz):
    """LO estimate of m(mu) for a quark with m(t) = t (only to construct realistic inputs)."""
    return t * (_lo_alpha(amz, mu) / _lo_alpha(amz, t)) ** (12.0 / 23.0)


def strategy(tier):
    from hypothesis import strategies as st

    unit_or = lambda lo, hi: st.one_of(st.just(1.0), st.floats(lo, hi))  # noqa: E731

    @st.composite
    def build(draw):
        order = draw(st.integers(1, 4))
        method = draw(st.sampled_from(["exact", "expanded"]))
        nf_ref = draw(st.integers(3, 6))
        plain = draw(st.integers(0, 2)) == 0  # unit ratios and xif: thresholds unambiguous
        xif = 1.0 if plain else draw(st.one_of(st.floats(0.5, 2.0), st.floats(0.5, 2.0), st.just(1.0)))
        ratios = [1.0] * 3 if plain else [draw(unit_or(0.5, 2.0)) for _ in range(3)]
        lowx = min(xif, 1.0)
        # keep the charm matching scale (as seen by the coupling: m_c * ratio * xif) perturbative too
        tc = draw(st.floats(1.3, 1.9)) / min(lowx, ratios[0] * xif)
        tb = max(draw(st.floats(3.9, 5.0)), 1.6 * tc)
        tt = draw(st.floats(150.0, 180.0))
        t = [tc, tb, tt]
        amz = draw(st.floats(0.110, 0.125))
        u = draw(st.floats(0.0, 1.0))
        lo_hi = {3: (0.8 * tc, 0.92 * tc), 4: (1.15 * tc, 0.85 * tb), 5: (1.15 * tb, 0.85 * tt), 6: (1.15 * tt, 3 * tt)}
        lo, hi = lo_hi[nf_ref]
        qref = lo * (hi / lo) ** u
        masses, modes = [], []
        for i in range(3):
            above = i + 3 >= nf_ref  # quark not active at the reference
            mode = draw(st.sampled_from(["adjoining", "far", "equal", "far", "very-far"]))
            f = draw(st.floats(0.0, 1.0))
            on_ref = draw(st.integers(0, 3)) == 0  # neighbours: mass reference exactly on the coupling reference
            if mode == "equal":
                masses.append([t[i], t[i]])
                modes.append(mode)
                continue
            exact_q = None
            if above:
                if i + 3 == nf_ref:  # neighbour above the reference: Qref <= Qm < m
                    a, b = qref, 0.97 * t[i]
                    mode = "adjoining"
                    if on_ref:
                        exact_q = qref
                else:
                    edge = t[i - 1] * max(1.0, ratios[i - 1])
                    a = b = 0.0
                    if mode == "very-far" and i == 2:
                        # top given below the charm mass: two matching scales between Qm and its target patch
                        a, b = max(1.05 / lowx, 0.75 * tc), 0.92 * tc * min(1.0, ratios[0])
                    if mode in ("far", "very-far") and a >= b:
                        a, b = max(1.25 / lowx, 0.5 * t[i - 1]), 0.9 * t[i - 1] * min(1.0, ratios[i - 1])
                    if mode == "adjoining" or a >= b:
                        mode, a, b = "adjoining", 1.1 * edge, 0.97 * t[i]
            else:
                if i + 4 == nf_ref:  # neighbour below the reference: m <= Qm <= Qref
                    a, b = 1.03 * t[i], qref
                    mode = "adjoining"
                    if on_ref:
                        exact_q = qref
                else:
                    edge = t[i + 1] * min(1.0, ratios[i + 1])
                    if mode == "very-far" and i == 0:
                        # charm given above the top mass: two matching scales between Qm and its target patch
                        a, b = 1.1 * tt * max(1.0, ratios[2]), 2.5 * tt
                    elif mode in ("far", "very-far"):
                        a, b = 1.1 * t[i + 1] * max(1.0, ratios[i + 1]), 2.5 * t[i + 1]
                    else:
                        a, b = 1.03 * t[i], 0.9 * edge
                    if a >= b:
                        mode, a, b = "far", 1.1 * t[i + 1] * max(1.0, ratios[i + 1]), 2.5 * t[i + 1]
            qm = a * (b / a) ** f if exact_q is None else exact_q
            masses.append([_lo_mass(t[i], qm, amz), qm])
            modes.append(mode)
        expect = "ok"
        kind = draw(st.sampled_from(["ok", "ok", "ok", "bad"]))
        if kind == "bad":
            how = draw(st.sampled_from(["side-of-mass", "side-of-ref", "unsorted"]))
            i = draw(st.integers(0, 2))
            if how == "unsorted" and nf_ref >= 5:
                # charm given heavier than bottom
                masses[0] = [1.3 * tb, 1.4 * tb]
                expect = "unsorted"
            elif how == "side-of-ref":
                if nf_ref >= 4:
                    i = nf_ref - 4  # neighbour below gets Qm above Qref (still >= m)
                    masses[i] = [_lo_mass(t[i], 1.05 * qref, amz), 1.05 * qref]
                else:
                    i = 0  # neighbour above gets Qm below Qref (still < m)
                    masses[i] = [_lo_mass(t[i], 0.95 * qref, amz), 0.95 * qref]
                expect = "ValueError"
            else:
                if masses[i][0] == masses[i][1]:
                    masses[i] = [t[i], 0.9 * t[i]] if i + 3 >= nf_ref else [t[i], 1.1 * t[i]]
                m, q = masses[i]
                # put Qm on the other side of m
                masses[i] = [m, m * m / q]
                expect = "ValueError"
        return {
            "kind": "masses",
            "order": order,
            "method": method,
            "nf_ref": nf_ref,
            "qref": qref,
            "alphas": _lo_alpha(amz, qref),
            "xif": xif,
            "ratios": ratios,
            "masses": masses,
            "expect": expect,
        }

    @st.composite
    def build_evolve(draw):
        order = draw(st.integers(1, 4))
        method = draw(st.sampled_from(["exact", "expanded"]))
        walls = [draw(st.floats(1.4, 1.9)), draw(st.floats(4.0, 5.0)), draw(st.floats(150.0, 180.0))]
        amz = draw(st.floats(0.110, 0.125))
        nf_ref = draw(st.integers(3, 6))
        edges = [1.25] + walls + [500.0]

        def inside(nf):
            lo, hi = edges[nf - 3] * 1.02, edges[nf - 2] * 0.98
            return lo * (hi / lo) ** draw(st.floats(0.0, 1.0))

        qref = inside(nf_ref)
        nf_from = draw(st.integers(3, 6))
        nf_to = draw(st.integers(3, 6))
        qf = inside(nf_from)
        # target inside its natural patch or, as msbar_masses.compute does, on the wall just crossed
        qt = inside(nf_to)
        if nf_to != nf_from and draw(st.booleans()):
            qt = walls[nf_to - 3] if nf_to < nf_from else walls[nf_to - 4]
        t = walls[draw(st.integers(0, 2))]
        return {
            "kind": "evolve", "order": order, "method": method, "nf_ref": nf_ref, "qref": qref,
            "alphas": _lo_alpha(amz, qref), "walls": walls, "from": [qf, nf_from], "to": [qt, nf_to],
            "m": _lo_mass(t, qf, amz),
        }

    @st.composite
    def build_roundtrip(draw):
        order = draw(st.sampled_from([4, 4, 3]))
        method = draw(st.sampled_from(["expanded", "exact"]))
        walls = [draw(st.floats(1.4, 1.9)), draw(st.floats(4.0, 5.0)), draw(st.floats(150.0, 180.0))]
        hq = draw(st.integers(0, 2))
        ratios = [1.0, 1.0, 1.0]
        ratios[hq] = draw(st.floats(1.0 if hq == 0 else 0.5, 2.0))
        if draw(st.integers(0, 5)) == 0:
            ratios[hq] = 1.0
        return {
            "kind": "roundtrip", "order": order, "method": method, "nf_ref": 5, "qref": 91.2,
            "alphas": draw(st.floats(0.110, 0.125)), "walls": walls, "ratios": ratios, "hq": hq,
            "xif": draw(st.sampled_from([1.0, 1.0, draw(st.floats(0.7, 1.5))])),
        }

    @st.composite
    def build_compose(draw):
        order = draw(st.sampled_from([3, 4, 2]))
        method = draw(st.sampled_from(["expanded", "exact"]))
        walls = [draw(st.floats(1.4, 1.9)), draw(st.floats(4.0, 5.0)), draw(st.floats(150.0, 180.0))]
        unit = draw(st.integers(0, 3)) == 0
        # charm ratio >= 1 and bottom >= 0.6 keep the scales where evolve switches (m^2 r^4) perturbative
        ratios = [1.0] * 3 if unit else [draw(st.floats(1.0, 1.6)), draw(st.floats(0.6, 2.0)), draw(st.floats(0.5, 2.0))]
        nf_from, nf_to = draw(st.sampled_from([(3, 5), (4, 6), (3, 6)]))
        if draw(st.booleans()):
            nf_from, nf_to = nf_to, nf_from
        lg = lambda lo, hi: lo * (hi / lo) ** draw(st.floats(0.0, 1.0))  # noqa: E731
        span = {3: (1.25, 1.9), 4: (2.0, 4.0), 5: (6.0, 140.0), 6: (200.0, 500.0)}
        return {
            "kind": "compose", "order": order, "method": method, "nf_ref": 5, "qref": 91.2,
            "alphas": draw(st.floats(0.110, 0.125)), "walls": walls, "ratios": ratios,
            "xif": draw(st.sampled_from([1.0, 1.0, draw(st.floats(0.8, 1.4))])),
            "from": [lg(*span[nf_from]), nf_from], "to": [lg(*span[nf_to]), nf_to], "m": draw(st.floats(1.0, 5.0)),
        }

    return st.one_of(build(), build(), build(), build_evolve(), build_roundtrip(), build_compose())


def enumerate_cases(tier):
    return [{"kind": "decoupling", "nl": nl} for nl in (3, 4, 5)]


# --------------------------------------------------------------------------- repo access


def _theory(case):
    from eko.io.runcards import TheoryCard

    raw = dict(
        order=[case["order"], 0],
        couplings=dict(alphas=case["alphas"], alphaem=0.007496252, ref=[case["qref"], case["nf_ref"]], em_running=False),
        heavy=dict(
            masses=[[m, q] for m, q in case["masses"]],
            masses_scheme="MSBAR",
            matching_ratios=list(case["ratios"]),
        ),
        xif=case["xif"],
        n3lo_ad_variation=[0, 0, 0, 0, 0, 0, 0],
        use_fhmruvv=True,
    )
    return TheoryCard.from_dict(raw)


def _call(case):
    """The runner's way of getting the masses: eko.io.runcards.masses(theory, evolution method)."""
    from eko.io import runcards
    from eko.io.types import EvolutionMethod

    evmeth = EvolutionMethod("iterate-exact" if case["method"] == "exact" else "iterate-expanded")
    return runcards.masses(_theory(case), evmeth)


def _couplings(case, masses2):
    from eko.couplings import Couplings
    from eko.quantities.couplings import CouplingEvolutionMethod
    from eko.quantities.heavy_quarks import QuarkMassScheme

    th = _theory(case)
    xif2 = case["xif"] ** 2
    return Couplings(
        th.couplings,
        order=(case["order"], 0),
        method=CouplingEvolutionMethod(case["method"]),
        masses=list(masses2),
        hqm_scheme=QuarkMassScheme.MSBAR,
        thresholds_ratios=[r**2 * xif2 for r in case["ratios"]],
    )


# --------------------------------------------------------------------------- oracles


def documented_inconsistency(case):
    """Inequalities of pQCD.rst ('Heavy Quark Masses') violated by the input numbers (Q_m != m only)."""
    out = []
    nf_ref, qref = case["nf_ref"], case["qref"]
    for i, (m, q) in enumerate(case["masses"]):
        if q == m:
            continue
        above = i + 3 >= nf_ref
        if above and not m > q:
            out.append(f"quark {i + 4} above the reference patch needs m(Qm) >= Qm, got m={m}, Qm={q}")
        if not above and not m < q:
            out.append(f"quark {i + 4} below the reference patch needs m(Qm) <= Qm, got m={m}, Qm={q}")
        if i + 4 == nf_ref and q > qref:
            out.append(f"quark {i + 4}: Qm={q} must not exceed Qref={qref} (nf_ref={nf_ref})")
        if i + 3 == nf_ref and q < qref:
            out.append(f"quark {i + 4}: Qm={q} must not be below Qref={qref} (nf_ref={nf_ref})")
    return out


def _mode(case, i, m2):
    """Where does Q_m of quark i lie relative to the adjoining patch, judged with the returned masses?

    -> (label, nf_target).  label in equal / adjoining / far / ambiguous."""
    nf_ref = case["nf_ref"]
    m, q = case["masses"][i]
    above = i + 3 >= nf_ref
    nf_t = i + 3 if above else i + 4
    if q == m:
        return "equal", nf_t
    q2 = q * q
    if above:
        if nf_t < 4:
            return "adjoining", nf_t
        j = nf_t - 4  # quark whose threshold is the lower edge of the patch
        edges = [m2[j], m2[j] * case["ratios"][j] ** 2]
        if q2 > max(edges) * (1 + EDGE_MARGIN):
            return "adjoining", nf_t
        if q2 < min(edges) * (1 - EDGE_MARGIN):
            return "far", nf_t
        return "ambiguous", nf_t
    if nf_t > 5:
        return "adjoining", nf_t
    j = nf_t - 3  # quark whose threshold is the upper edge
    edges = [m2[j], m2[j] * case["ratios"][j] ** 2]
    if q2 < min(edges) * (1 - EDGE_MARGIN):
        return "adjoining", nf_t
    if q2 > max(edges) * (1 + EDGE_MARGIN):
        return "far", nf_t
    return "ambiguous", nf_t


def model_evolve(method, order, sc, walls2, m, q2_from, nf_from, q2_to, nf_to):
    """Running mass at (q2_to, nf_to) from m at (q2_from, nf_from), for unit matching ratios and xif = 1.

    The path is the one of the independent path model (vf/refs/paths.py); inside a segment the mass runs with the
    harness kernel and a_s^(nf) of ``sc``; at a step the mass decoupling relation is applied at mu = m_h (L = 0)
    with the literature constants, expressed in a_s^(nl+1)(m_h^2), truncated at the working order and, upwards,
    perturbatively inverted."""
    from vf.refs import paths as refpaths

    segs = refpaths.ref_path(list(walls2), (q2_from, nf_from), (q2_to, nf_to))
    val = m
    for k, (o, t, nf) in enumerate(segs):
        if o != t:
            a0 = float(sc.a(o, nf)[0])
            a1 = float(sc.a(t, nf)[0])
            val *= kernel(method, a0, a1, nf, order)
        if k < len(segs) - 1:
            nf_next = segs[k + 1][2]
            nl = min(nf, nf_next)
            a_up = float(sc.a(t, nl + 1)[0])
            d20, d30 = mass_dec_constants(nl)
            sign = 1.0 if nf_next < nf else -1.0
            fact = 1.0
            if order >= 3:
                fact += sign * d20 * a_up**2
            if order >= 4:
                fact += sign * d30 * a_up**3
            val *= fact
    return val


def _running_mass_unit_ratios(case, sc, i, m2, nf_t, mu2_to):
    """m_i(mu2_to) in the nf_t-flavour theory, evolved from (m_ref, Q_m) across the thresholds m_h^2 = m2[h]."""
    m, q = case["masses"][i]
    q2 = q * q
    nf = 3 + sum(1 for w in m2 if w < q2)
    return model_evolve(case["method"], case["order"], sc, m2, m, q2, nf, mu2_to, nf_t)


def legwise_evolve(mm, m2, q2, sc, matching, xif2, q2_to, nf_from, nf_to, thr):
    """Carry m2 from (q2, nf_from) to (q2_to, nf_to) with one ``evolve`` call per matching scale.

    ``thr`` are the three scales at which ``evolve`` itself switches flavour number; consecutive legs are joined
    inside the intermediate patch (geometric mean of its two walls), the last leg ends at the target."""
    step = 1 if nf_to > nf_from else -1
    nf = nf_from
    while nf != nf_to:
        nxt = nf + step
        if nxt == nf_to:
            q2_mid = q2_to
        else:
            lo = thr[nxt - 4] if nxt > 3 else 1.5
            hi = thr[nxt - 3] if nxt < 6 else 1e6
            q2_mid = math.sqrt(lo * hi)
        m2 = float(mm.evolve(m2, q2, sc, list(matching), xif2, q2_mid, nf_ref=nf, nf_to=nxt))
        q2, nf = q2_mid, nxt
    if nf_from == nf_to:
        m2 = float(mm.evolve(m2, q2, sc, list(matching), xif2, q2_to, nf_ref=nf, nf_to=nf))
    return m2


def _self_consistency(res, case, sc, matching, xif2, i, nf_t, out, label):
    """The property itself, between the two code paths: the public ``evolve`` run from (m_ref, Q_m) to the
    returned mass with the same coupling, order, matching ratios and xif must land on the returned mass
    (every quark, also beyond the adjoining patch, any ratios / xif)."""
    from eko import msbar_masses as mm

    m, q = case["masses"][i]
    q2 = q * q
    if any(abs(q2 / w - 1.0) < EDGE_MARGIN for w in out):
        return  # nf at the reference scale not well defined
    nf_at_ref = 3 + sum(1 for w in out if q2 > w)
    try:
        back = float(mm.evolve(m * m, q2, sc, list(matching), xif2, out[i], nf_ref=nf_at_ref, nf_to=nf_t))
    except Exception as e:  # noqa: BLE001
        res.fail(exc_bucket(f"{ID}/self-consistency/call", e), f"{e!r} for quark {i + 4}; case={case}")
        return
    rel = abs(back / out[i] - 1.0)
    res.classes.append("selfcheck/" + label + ("/xif!=1" if case["xif"] != 1.0 else ""))
    if _RESIDUALS is not None:
        _RESIDUALS.append((case["method"], "self-consistency/" + label, case["order"], float(rel)))
    if not rel <= TOL_SELF:
        res.fail(
            f"{ID}/self-consistency/compute-vs-evolve/{'far' if label == 'far' else 'near'}",
            f"quark {i + 4}: compute returned m^2 = {out[i]!r}, but evolve(m_ref^2, Qm^2, coupling, matching, xif2, "
            f"q2_to=m^2, nf_ref={nf_at_ref}, nf_to={nf_t}) = {back!r} (rel. diff {rel:.3e} > {TOL_SELF}); case={case}",
        )
    if abs(nf_at_ref - nf_t) >= 2:
        # the running mass changes by the decoupling relation at *each* matching scale: carry the reference
        # mass threshold by threshold (one matching scale per evolve call) to the returned mass
        thr = [w * r * xif2 * r for w, r in zip(out, matching)]
        try:
            legs = legwise_evolve(mm, m * m, q2, sc, matching, xif2, out[i], nf_at_ref, nf_t, thr)
        except Exception as e:  # noqa: BLE001
            res.fail(exc_bucket(f"{ID}/self-consistency/call", e), f"{e!r} for quark {i + 4}; case={case}")
            return
        rel = abs(legs / out[i] - 1.0)
        res.classes.append(f"selfcheck/legwise/crossings={abs(nf_at_ref - nf_t)}")
        if _RESIDUALS is not None:
            _RESIDUALS.append((case["method"], "self-consistency/legwise", case["order"], float(rel)))
        if not rel <= TOL_SELF:
            res.fail(
                f"{ID}/self-consistency/compute-vs-legwise-evolve",
                f"quark {i + 4}: compute returned m^2 = {out[i]!r}, but carrying (m_ref, Qm) threshold by threshold "
                f"(nf {nf_at_ref} -> {nf_t}, one matching scale per evolve call) gives {legs!r} "
                f"(rel. diff {rel:.3e} > {TOL_SELF}); case={case}",
            )


def check_masses(case):
    import numpy as np

    res = CaseResult()
    order, method, nf_ref = case["order"], case["method"], case["nf_ref"]
    anyref = any(m != q for m, q in case["masses"])
    res.nontrivial = bool(order >= 2 and anyref)
    doc_bad = documented_inconsistency(case)
    expect_error = bool(doc_bad) or case["expect"] == "unsorted"
    res.classes = [
        f"order={order}",
        f"method={method}",
        f"nf_ref={nf_ref}",
        "expect=" + ("ValueError" if expect_error else "ok"),
        "xif=1" if case["xif"] == 1.0 else "xif!=1",
        "ratios=1" if all(r == 1.0 for r in case["ratios"]) else "ratios!=1",
    ]
    if case["expect"] == "unsorted":
        res.classes.append("bad/unsorted")
    elif doc_bad:
        res.classes.append("bad/documented-inequality")

    cfg = f"method={method}"
    try:
        out = _call(case)
        raised = None
    except ValueError as e:
        raised = e
    except Exception as e:  # noqa: BLE001
        # includes the numpy>=2 float(ndarray) TypeError: one bucket per exception type and raising frame
        res.fail(exc_bucket(f"{ID}/call", e), f"{type(e).__name__}: {e} for {case}")
        return res

    if expect_error:
        if raised is None:
            why = "; ".join(doc_bad) or "charm given heavier than bottom"
            res.fail(f"{ID}/inconsistent-accepted/{'unsorted' if not doc_bad else 'documented-inequality'}",
                     f"inconsistent input returned {out!r} instead of raising ValueError ({why}); case={case}")
        return res
    if raised is not None:
        res.fail(f"{ID}/consistent-rejected/nf_ref={nf_ref}", f"consistent input raised ValueError({raised}); case={case}")
        return res

    # ---- returned without error, sorted
    if not isinstance(out, list) or len(out) != 3 or not all(isinstance(x, float) for x in out):
        res.fail(f"{ID}/shape", f"expected a list of three floats, got {out!r}")
        return res
    if not all(math.isfinite(x) and x > 0 for x in out):
        res.fail(f"{ID}/finite", f"masses {out!r}")
        return res
    if not (out[0] <= out[1] <= out[2]):
        res.fail(f"{ID}/sorted", f"masses squared {out!r} are not sorted")
        return res

    # ---- fixed points
    sc = _couplings(case, out)
    xif2 = case["xif"] ** 2
    unit = case["xif"] == 1.0 and all(r == 1.0 for r in case["ratios"])
    tol = TOL_EXACT if method == "exact" else TOL_EXPANDED
    matching = [r**2 for r in case["ratios"]]
    for i, (m, q) in enumerate(case["masses"]):
        label, nf_t = _mode(case, i, out)
        res.classes.append(f"quark/{label}")
        big_m = math.sqrt(out[i])
        if label != "equal":
            _self_consistency(res, case, sc, matching, xif2, i, nf_t, out, label)
        if label == "equal":
            if abs(out[i] - m * m) > 1e-14 * m * m:
                res.fail(f"{ID}/equal-mode", f"quark {i + 4} given at Qm = m = {m} came back as {big_m}")
            continue
        if label == "adjoining":
            a0 = sc.a(q * q * xif2, nf_t)[0]
            a1 = sc.a(out[i] * xif2, nf_t)[0]
            val = m * kernel(method, float(a0), float(a1), nf_t, order)
            where = "adjoining"
        elif label == "far" and unit:
            val = _running_mass_unit_ratios(case, sc, i, out, nf_t, out[i])
            where = "across-thresholds-unit-ratios"
            res.classes.append("quark/far-checked")
        else:
            continue
        rel = abs(val - big_m) / big_m
        if _RESIDUALS is not None:
            _RESIDUALS.append((method, where, order, float(rel)))
        if not rel <= tol:
            if where == "adjoining":
                bucket = f"{ID}/fixed-point/adjoining/{cfg}/order={order}"
            elif order >= 3:
                bucket = f"{ID}/fixed-point/across-thresholds-unit-ratios/with-mass-matching"
            else:
                bucket = f"{ID}/fixed-point/across-thresholds-unit-ratios/no-mass-matching/{cfg}"
            res.fail(
                bucket,
                f"quark {i + 4}: returned m = {big_m!r} but the reference running mass at mu = m in the nf={nf_t} "
                f"patch is {val!r} (rel. diff {rel:.3e} > {tol}); case={case}",
            )
    return res


# --------------------------------------------------------------------------- decoupling tables


class Poly:
    """Polynomial in (a, L), truncated at a^N."""

    N = 3

    def __init__(self, d=None):
        self.d = dict(d or {})

    def __add__(self, o):
        r = dict(self.d)
        for k, v in o.d.items():
            r[k] = r.get(k, 0.0) + v
        return Poly(r)

    def scale(self, s):
        return Poly({k: v * s for k, v in self.d.items()})

    def __sub__(self, o):
        return self + o.scale(-1.0)

    def __mul__(self, o):
        r = {}
        for (i, j), v in self.d.items():
            for (k, l), w in o.d.items():
                if i + k <= self.N:
                    r[(i + k, j + l)] = r.get((i + k, j + l), 0.0) + v * w
        return Poly(r)

    def pow(self, n):
        r = Poly({(0, 0): 1.0})
        for _ in range(n):
            r = r * self
        return r

    def da(self):
        return Poly({(i - 1, j): v * i for (i, j), v in self.d.items() if i > 0})

    def dl(self):
        return Poly({(i, j - 1): v * j for (i, j), v in self.d.items() if j > 0})


def _series(coefs, x, start):
    r = Poly()
    for k, c in enumerate(coefs):
        r = r + x.pow(k + start).scale(c)
    return r


def _table_poly(t):
    p = {(0, 0): 1.0}
    for n in range(1, 4):
        for k in range(0, 4):
            if t[n, k] != 0:
                p[(n, k)] = float(t[n, k])
    return Poly(p)


def check_decoupling(case):
    from eko import msbar_masses as mm

    nl = case["nl"]
    nf = nl + 1
    res = CaseResult(classes=["decoupling-table"])
    try:
        up = mm.compute_matching_coeffs_up(nl)
        down = mm.compute_matching_coeffs_down(nl)
    except Exception as e:  # noqa: BLE001
        res.fail(exc_bucket(f"{ID}/tables/call", e), repr(e))
        return res
    if up.shape != (4, 4) or down.shape != (4, 4):
        res.fail(f"{ID}/tables/shape", f"{up.shape} {down.shape}")
        return res
    # a relation is a series 1 + sum_{n>=2} sum_{k<=n}: nothing at O(a), no power of L beyond the order
    for name, t in (("up", up), ("down", down)):
        for n in range(0, 4):
            for k in range(0, 4):
                if (n < 2 or k > n) and t[n, k] != 0:
                    res.fail(f"{ID}/tables/support/{name}", f"{name}[{n},{k}] = {t[n, k]} should vanish")
    zeta = _table_poly(down)
    # (1) down and up are series inverses of each other (same expansion parameter a^(nl+1))
    prod = _table_poly(up) * zeta
    for (i, j), v in sorted(prod.d.items()):
        if (i, j) != (0, 0) and abs(v) > 1e-10:
            res.fail(f"{ID}/tables/up-times-down", f"nl={nl}: up*down has a^{i} L^{j} coefficient {v}")
    # (2) constants vs literature
    d20, d30 = mass_dec_constants(nl)
    for key, want in (((2, 0), d20), ((3, 0), d30)):
        if abs(down[key] - want) > 1e-5 * abs(want):
            res.fail(f"{ID}/tables/constant/{key[0]}{key[1]}", f"nl={nl}: down{list(key)} = {down[key]} vs literature {want}")
    # (3) RG identity: m^(nl)(mu) = zeta(a, L) m^(nf)(mu), a = a^(nf)(mu), L = ln(mu^2 / m_h(mu)^2)
    #     -gamma^(nl)(A(a, L)) zeta = d_a zeta * beta^(nf)(a) + d_L zeta * (1 + 2 gamma^(nf)(a)) - gamma^(nf)(a) zeta
    a = Poly({(1, 0): 1.0})
    big_a = Poly({(1, 0): 1.0, **{k: float(v) for k, v in COUPLING_DEC.items()}})
    g_nl = _series(gammas(nl, 3), big_a, 1)
    g_nf = _series(gammas(nf, 3), a, 1)
    beta_nf = _series([-b for b in betas(nf, 3)], a, 2)
    lhs = (g_nl * zeta).scale(-1.0)
    rhs = zeta.da() * beta_nf + zeta.dl() * (Poly({(0, 0): 1.0}) + g_nf.scale(2.0)) - g_nf * zeta
    resid = lhs - rhs
    for (i, j), v in sorted(resid.d.items()):
        if abs(v) > 2e-4:
            res.fail(
                f"{ID}/tables/rg-identity/a{i}",
                f"nl={nl}: RG identity violated at a^{i} L^{j}: residual {v:.6g} (this fixes down[{i},{j + 1}])",
            )
    return res


def check_evolve(case):
    """``msbar_masses.evolve`` against the harness model, unit matching ratios and xif = 1."""
    from eko import msbar_masses as mm
    from eko.couplings import Couplings
    from eko.quantities.couplings import CouplingEvolutionMethod, CouplingsInfo
    from eko.quantities.heavy_quarks import QuarkMassScheme

    res = CaseResult()
    order, method = case["order"], case["method"]
    walls2 = [w * w for w in case["walls"]]
    (qf, nf_from), (qt, nf_to) = case["from"], case["to"]
    steps = abs(nf_to - nf_from)
    res.nontrivial = bool(order >= 2 and steps >= 1)
    res.classes = [f"evolve/order={order}", f"evolve/method={method}", f"evolve/steps={steps}",
                   "evolve/" + ("down" if nf_to < nf_from else "up" if nf_to > nf_from else "flat")]
    info = CouplingsInfo.from_dict(dict(alphas=case["alphas"], alphaem=0.007496252, ref=(case["qref"], case["nf_ref"])))
    sc = Couplings(info, order=(order, 0), method=CouplingEvolutionMethod(method), masses=walls2,
                   hqm_scheme=QuarkMassScheme.MSBAR, thresholds_ratios=[1.0, 1.0, 1.0])
    try:
        got2 = mm.evolve(case["m"] ** 2, qf * qf, sc, [1.0, 1.0, 1.0], 1.0, qt * qt, nf_ref=nf_from, nf_to=nf_to)
    except Exception as e:  # noqa: BLE001
        res.fail(exc_bucket(f"{ID}/evolve/call", e), f"{e!r} for {case}")
        return res
    got = math.sqrt(float(got2))
    want = model_evolve(method, order, sc, walls2, case["m"], qf * qf, nf_from, qt * qt, nf_to)
    tol = TOL_EXACT if method == "exact" else TOL_EXPANDED
    rel = abs(got - want) / want
    if _RESIDUALS is not None:
        _RESIDUALS.append((method, "evolve", order, float(rel)))
    if not rel <= tol:
        if steps and order >= 3:
            where = "across-thresholds/with-mass-matching"
        elif steps:
            where = f"across-thresholds/no-mass-matching/method={method}"
        else:
            where = f"single-patch/method={method}/order={order}"
        res.fail(
            f"{ID}/evolve/{where}",
            f"evolve gives m({qt} GeV, nf={nf_to}) = {got!r}, reference {want!r} (rel. diff {rel:.3e} > {tol}); case={case}",
        )
    return res


def _crossing(case, alphas):
    """(u, remainder at the threshold, remainder of a round trip through the patches, a_s^(nf+1)(threshold))."""
    from eko import msbar_masses as mm
    from eko.couplings import Couplings
    from eko.quantities.couplings import CouplingEvolutionMethod, CouplingsInfo
    from eko.quantities.heavy_quarks import QuarkMassScheme

    order, hq = case["order"], case["hq"]
    xif2 = case["xif"] ** 2
    ratios2 = [r * r for r in case["ratios"]]
    walls2 = [w * w for w in case["walls"]]
    info = CouplingsInfo.from_dict(dict(alphas=alphas, alphaem=0.007496252, ref=(case["qref"], case["nf_ref"])))
    sc = Couplings(info, order=(order, 0), method=CouplingEvolutionMethod(case["method"]), masses=walls2,
                   hqm_scheme=QuarkMassScheme.MSBAR, thresholds_ratios=[r * xif2 for r in ratios2])
    nf = hq + 3
    thr = walls2[hq] * ratios2[hq] * xif2 * ratios2[hq]  # where evolve() itself switches nf -> nf+1
    m2 = 7.0
    up = mm.evolve(m2, thr, sc, ratios2, xif2, thr, nf_ref=nf, nf_to=nf + 1)
    back = mm.evolve(up, thr, sc, ratios2, xif2, thr, nf_ref=nf + 1, nf_to=nf)
    q_lo, q_hi = thr / 3.0, thr * 5.0
    up2 = mm.evolve(m2, q_lo, sc, ratios2, xif2, q_hi, nf_ref=nf, nf_to=nf + 1)
    back2 = mm.evolve(up2, q_hi, sc, ratios2, xif2, q_lo, nf_ref=nf + 1, nf_to=nf)
    a_s = float(sc.a(thr * xif2, nf + 1)[0])
    return float(up / m2 - 1.0), float(back / m2 - 1.0), float(back2 / m2 - 1.0), a_s


def check_roundtrip(case):
    """Upward and downward crossing are the two directions of one decoupling relation: U*D - 1 = O(a_s^order)."""
    res = CaseResult()
    order = case["order"]
    r = case["ratios"][case["hq"]]
    res.nontrivial = bool(r != 1.0)
    res.classes = [f"roundtrip/order={order}", f"roundtrip/hq={case['hq'] + 4}",
                   "roundtrip/ratio=1" if r == 1.0 else "roundtrip/ratio!=1", f"roundtrip/method={case['method']}"]
    try:
        u1, rem1, rt1, a1 = _crossing(case, case["alphas"])
        # local exponent measured between alpha_s/2 and alpha_s/4 (closer to the asymptotic power)
        _u2, rem2, _rt2, a2 = _crossing(case, case["alphas"] / 2.0)
        _u3, rem3, _rt3, a3 = _crossing(case, case["alphas"] / 4.0)
    except Exception as e:  # noqa: BLE001
        res.fail(exc_bucket(f"{ID}/roundtrip/call", e), f"{e!r} for {case}")
        return res
    if _RESIDUALS is not None:
        _RESIDUALS.append((case["method"], "roundtrip/in-patch", order, abs(rt1 - rem1)))
        _RESIDUALS.append((case["method"], "roundtrip/rem-over-u2", order, abs(rem1) / u1**2 if u1 else 0.0))
    # in-patch running cancels on a round trip: only the two matchings remain
    if abs(rt1 - rem1) > TOL_INPATCH:
        res.fail(f"{ID}/roundtrip/in-patch/method={case['method']}",
                 f"round trip mu_thr/3 -> 5 mu_thr -> mu_thr/3 leaves {rt1:.3e}, crossing at the threshold {rem1:.3e}; case={case}")
    # remainder must be of the order beyond the decoupling relation: natural size u^2 (exactly -u^2 when the two
    # directions use the same expansion parameter); a violation needs both a too large remainder and a measured
    # exponent under a rescaling of alpha_s(ref) (measured between 1/2 and 1/4) clearly below the working order
    big = abs(rem1) > 5.0 * u1**2 + 1e-13
    if big and rem2 != 0.0 and rem3 != 0.0 and a2 != a3:
        expo = math.log(abs(rem2) / abs(rem3)) / math.log(a2 / a3)
        res.classes.append("roundtrip/exponent-measured")
        if expo < order - 0.3:
            res.fail(
                f"{ID}/roundtrip/up-down/order={order}",
                f"up x down - 1 = {rem1:.3e} = {rem1 / u1**2:.1f} u^2 (u = {u1:.3e}) and it scales like a_s^{expo:.2f} "
                f"(a_s(thr) {a2:.5f} -> {a3:.5f}: {rem2:.3e} -> {rem3:.3e}); the two directions are not mutually "
                f"inverse through a_s^{order - 1}; case={case}",
            )
    return res


def check_compose(case):
    """One ``evolve`` call across two or three matching scales = the same path threshold by threshold."""
    from eko import msbar_masses as mm
    from eko.couplings import Couplings
    from eko.quantities.couplings import CouplingEvolutionMethod, CouplingsInfo
    from eko.quantities.heavy_quarks import QuarkMassScheme

    res = CaseResult()
    order, method = case["order"], case["method"]
    xif2 = case["xif"] ** 2
    ratios2 = [r * r for r in case["ratios"]]
    walls2 = [w * w for w in case["walls"]]
    (qf, nf_from), (qt, nf_to) = case["from"], case["to"]
    n = abs(nf_to - nf_from)
    res.nontrivial = bool(order >= 3 and n >= 2)
    res.classes = [f"compose/order={order}", f"compose/method={method}", f"compose/crossings={n}",
                   "compose/" + ("up" if nf_to > nf_from else "down"),
                   "compose/ratios=1" if all(r == 1.0 for r in case["ratios"]) else "compose/ratios!=1"]
    info = CouplingsInfo.from_dict(dict(alphas=case["alphas"], alphaem=0.007496252, ref=(case["qref"], case["nf_ref"])))
    sc = Couplings(info, order=(order, 0), method=CouplingEvolutionMethod(method), masses=walls2,
                   hqm_scheme=QuarkMassScheme.MSBAR, thresholds_ratios=[r * xif2 for r in ratios2])
    thr = [w * r * xif2 * r for w, r in zip(walls2, ratios2)]
    m2 = case["m"] ** 2
    try:
        one = float(mm.evolve(m2, qf * qf, sc, ratios2, xif2, qt * qt, nf_ref=nf_from, nf_to=nf_to))
        legs = legwise_evolve(mm, m2, qf * qf, sc, ratios2, xif2, qt * qt, nf_from, nf_to, thr)
    except Exception as e:  # noqa: BLE001
        res.fail(exc_bucket(f"{ID}/composition/call", e), f"{e!r} for {case}")
        return res
    rel = abs(one / legs - 1.0)
    if _RESIDUALS is not None:
        _RESIDUALS.append((method, "composition", order, float(rel)))
    if not rel <= TOL_COMPOSE:
        res.fail(
            f"{ID}/composition/evolve-one-call-vs-legs/" + ("order>=3" if order >= 3 else f"order={order}"),
            f"evolve nf {nf_from}->{nf_to} in one call gives m^2 = {one!r}, threshold by threshold {legs!r} "
            f"(rel. diff {rel:.3e} > {TOL_COMPOSE}); case={case}",
        )
    return res


def check_case(case):
    if case["kind"] == "decoupling":
        return check_decoupling(case)
    if case["kind"] == "compose":
        return check_compose(case)
    if case["kind"] == "roundtrip":
        return check_roundtrip(case)
    if case["kind"] == "evolve":
        return check_evolve(case)
    return check_masses(case)


def budget(tier):
    if tier == "quick":
        return dict(max_examples=150, shards=8, enum_shards=1, wall_s=90)
    return dict(max_examples=2500, shards=16, enum_shards=1, wall_s=800)


def evidence_extra(tier):
    return {"exhaustive_part": {"exhaustive": True, "cases": 3, "domain": "mass decoupling tables for nl = 3, 4, 5"}}

"""C46 ekobox.genpdf.flavors.project is an exact orthogonal projection on the selected flavour combinations."""

from hypothesis import strategies as st

from vf.core import CaseResult, exc_bucket
from vf.refs import flavor_ref as fr

ID = "C46"
LEVEL = "exploration"
TECHNIQUE = (
    "generated LHAPDF-like blocks x generated selections (PIDs, evolution labels, orthogonal custom combinations, "
    "complete sets); oracle = plain numpy projector sum_e e e^T/(e.e) plus the defining predicates (kept components, "
    "removed complement, idempotence, identity on complete sets, no mutation)"
)
RULE = (
    "Hypothesis draws 1-2 blocks (1-3 Q values x 2-6 x values, pids = a shuffled random subset of the 14 partons or "
    "all of them, float data from an integer seed) and a selection: a repetition-free subset of PIDs, a subset of "
    "the 14 evolution labels, or m mutually orthogonal custom vectors (columns of the QR factor of a random integer "
    "matrix, each rescaled by a random non-unit factor and, in two thirds of the custom cases, by a further factor "
    "10^e with e drawn in [-8, 8] per vector or for the whole family (norms 1e-8..1e8: the projector must not "
    "depend on how a combination is normalised); sizes uniform in 1..14), including the "
    "complete sets (all 14). The selection vectors are produced by pid_to_flavor / evol_to_flavor (checked against "
    "the documented definitions) or passed directly. Non-trivial = selection size 2..13; distinct by the case."
)
ASSUMPTIONS = [
    "block layout as produced by ekobox.genpdf (data shape (n_x*n_Q, n_pids), float64; pids unique)",
    "selections are mutually orthogonal (PID subsets without repetition, evolution labels, constructed custom "
    "families) - the domain in which 'orthogonal projection' is meaningful",
    "tolerance 14 * 1e-12 * max(1, max|data|) for float accumulation (projector entries have modulus <= 1; custom "
    "families are orthogonal to 1e-15 only, being the QR factor of an integer matrix); the kept-component and "
    "orthogonal-complement predicates are evaluated with unit vectors, so they do not depend on the size of the "
    "combinations; the vectors returned for "
    "evolution labels are compared exactly with the definitions typed from FlavorSpace.rst",
]
LEVEL_TEXT = (
    "Blocks and selections are sampled; the map is linear in the data, so random data with every selection family "
    "and the complete sets gives strong but not exhaustive evidence (2^14 PID subsets x 2^14 label subsets are sampled)."
)

TOL = 1e-12


def _subset():
    """Repetition-free index list with a uniformly drawn size 1..14 (prefix of a permutation)."""
    return st.tuples(st.sampled_from(range(1, 15)), st.permutations(list(range(14)))).map(lambda t: list(t[1][: t[0]]))


def _selection():
    pid_sel = st.fixed_dictionaries(dict(kind=st.just("pids"), idx=_subset()))
    evol_sel = st.fixed_dictionaries(dict(kind=st.just("evol"), idx=_subset()))
    # overall size of each custom combination: 10^e with e over 16 decades (a projector does not depend on it)
    exps = st.one_of(
        st.just([0.0] * 14),
        st.lists(st.floats(-8.0, 8.0), min_size=14, max_size=14),
        st.floats(-8.0, 8.0).map(lambda e: [e] * 14),
    )
    custom = st.fixed_dictionaries(
        dict(kind=st.just("custom"), m=st.sampled_from(range(1, 15)), seed=st.integers(0, 2**20), exps=exps)
    )
    full = st.sampled_from([{"kind": "pids", "idx": list(range(14))}, {"kind": "evol", "idx": list(range(14))}])
    full_custom = st.fixed_dictionaries(
        dict(kind=st.just("custom"), m=st.just(14), seed=st.integers(0, 2**20), exps=exps)
    )
    return st.one_of(pid_sel, pid_sel, evol_sel, evol_sel, custom, custom, full, full_custom)


def _block():
    return st.fixed_dictionaries(
        dict(
            nq=st.integers(1, 3),
            nx=st.integers(2, 6),
            # positions in the 14-parton list, in the order they appear in the block
            pids=st.one_of(_subset(), st.permutations(list(range(14)))),
            seed=st.integers(0, 2**20),
        )
    )


def strategy(tier):
    return st.fixed_dictionaries(dict(blocks=st.lists(_block(), min_size=1, max_size=2), sel=_selection()))


# --------------------------------------------------------------------------- construction helpers


def _custom_family(m, seed, exps=None):
    """m mutually orthogonal, non-normalised float vectors of length 14 and an orthogonal completion (14-m).

    ``exps``: decimal exponents of an additional overall factor per vector (norms from 1e-8 to 1e8)."""
    import numpy as np

    rng = np.random.default_rng(seed)
    while True:
        q, r = np.linalg.qr(rng.integers(-3, 4, size=(14, 14)).astype(float))
        if np.abs(np.diag(r)).min() > 1e-3:  # well conditioned, otherwise draw again from the same stream
            break
    scales = rng.choice([-3.0, -0.5, 0.25, 2.0, 7.0], size=14)  # never unit norm: the 1/(e.e) factor matters
    exps = [0.0] * 14 if exps is None else exps
    vecs = [q[:, i] * scales[i] * 10.0 ** exps[i] for i in range(14)]
    return vecs[:m], vecs[m:]


def _norm_class(vecs):
    import numpy as np

    norms = [float(np.sqrt(v @ v)) for v in vecs]
    lo, hi = min(norms), max(norms)
    if lo < 1e-4:
        return "some<1e-4"
    if hi > 1e4:
        return "some>1e4"
    return "moderate"


def _make_blocks(spec):
    import numpy as np

    blocks = []
    for b in spec:
        rng = np.random.default_rng(b["seed"])
        pids = [fr.FLAVOR_PIDS[i] for i in b["pids"]]
        n = b["nq"] * b["nx"]
        blocks.append(
            {
                "mu2grid": np.array([10.0 * (i + 1) for i in range(b["nq"])]),
                "xgrid": np.geomspace(1e-3, 1.0, b["nx"]),
                "pids": np.array(pids),
                "data": rng.uniform(-10.0, 10.0, size=(n, len(pids))),
            }
        )
    return blocks


def _copy_blocks(blocks):
    import numpy as np

    return [{k: np.array(v, copy=True) for k, v in b.items()} for b in blocks]


def _same_blocks(a, b):
    import numpy as np

    if len(a) != len(b):
        return False
    for x, y in zip(a, b):
        if set(x) != set(y):
            return False
        for k in x:
            if np.asarray(x[k]).shape != np.asarray(y[k]).shape or not np.array_equal(np.asarray(x[k]), np.asarray(y[k])):
                return False
    return True


def _full_data(block, pids):
    """(14, N) array with each parton's column put on the row given by `pids`; absent partons are zero."""
    import numpy as np

    data = np.asarray(block["data"], dtype=float)
    full = np.zeros((len(pids), data.shape[0]))
    for col, pid in enumerate(block["pids"]):
        full[pids.index(int(pid))] = data[:, col]
    return full


def check_case(case):
    import numpy as np
    from eko import basis_rotation as br
    from ekobox.genpdf import flavors

    res = CaseResult()
    sel = case["sel"]
    pids = [int(p) for p in br.flavor_basis_pids]
    if sorted(pids) != sorted(fr.FLAVOR_PIDS):
        raise AssertionError("flavor_basis_pids is not the documented parton set (decided by C31)")

    # ---- selection vectors (through the public helpers) and an orthogonal completion for the complement test
    kind = sel["kind"]
    if kind == "pids":
        chosen = [fr.FLAVOR_PIDS[i] for i in sel["idx"]]
        try:
            reprs = flavors.pid_to_flavor(chosen)
        except Exception as e:  # noqa: BLE001
            res.fail(exc_bucket(f"{ID}/pid_to_flavor", e), f"pids={chosen}: {e!r}")
            return res
        want = [np.array([1.0 if p == c else 0.0 for p in pids]) for c in chosen]
        rest = [np.array([1.0 if p == c else 0.0 for p in pids]) for c in fr.FLAVOR_PIDS if c not in chosen]
        size = len(chosen)
    elif kind == "evol":
        names = list(fr.QCD_EVOL)
        chosen = [names[i] for i in sel["idx"]]
        try:
            reprs = flavors.evol_to_flavor(chosen)
        except Exception as e:  # noqa: BLE001
            res.fail(exc_bucket(f"{ID}/evol_to_flavor", e), f"labels={chosen}: {e!r}")
            return res
        want = [np.array([float(fr.QCD_EVOL[c].get(p, 0)) for p in pids]) for c in chosen]
        rest = [np.array([float(fr.QCD_EVOL[c].get(p, 0)) for p in pids]) for c in names if c not in chosen]
        size = len(chosen)
    else:
        want, rest = _custom_family(sel["m"], sel["seed"], sel.get("exps"))
        reprs = np.array(want)
        size = sel["m"]
    if kind != "custom":
        reprs = np.asarray(reprs)
        if reprs.shape != (size, 14) or any(not np.array_equal(r, w) for r, w in zip(reprs, want)):
            res.fail(f"{ID}/representation/{kind}", f"{chosen}: helper returned {reprs.tolist()}, definitions give {[w.tolist() for w in want]}")
            return res

    complete = size == 14
    res.nontrivial = 2 <= size <= 13
    nblk = len(case["blocks"])
    allpid = any(len(b["pids"]) == 14 for b in case["blocks"])
    res.classes = [
        f"sel={kind}",
        "complete" if complete else ("single" if size == 1 else "partial"),
        f"blocks={nblk}",
        "norms=" + ("n/a" if kind != "custom" else _norm_class(want)),
        "all-pids-block" if allpid else "subset-pids-block",
    ]

    blocks = _make_blocks(case["blocks"])
    pristine = _copy_blocks(blocks)
    reprs_before = np.array(reprs, copy=True)

    def call(b, where):
        try:
            return flavors.project(b, reprs)
        except Exception as e:  # noqa: BLE001
            res.fail(exc_bucket(f"{ID}/project/{where}", e), f"{e!r}")
            return None

    out = call(blocks, "first")
    if out is None:
        return res
    if not _same_blocks(blocks, pristine) or not np.array_equal(reprs_before, np.asarray(reprs)):
        res.fail(f"{ID}/mutated-input", f"project() modified the blocks (or the selection) it was given (selection {kind})")
        return res
    if not isinstance(out, list) or len(out) != len(blocks):
        res.fail(f"{ID}/structure", f"returned {type(out).__name__} of length {len(out) if hasattr(out, '__len__') else '?'}")
        return res

    # every projector e e^T/(e.e) has entries of modulus <= 1, so results are O(14 * max|data|)
    for ib, (blk, new) in enumerate(zip(blocks, out)):
        full = _full_data(blk, pids)
        scale = max(1.0, float(np.abs(full).max()))
        tol = TOL * scale * 14
        if [int(p) for p in new["pids"]] != pids:
            res.fail(f"{ID}/structure/pids", f"block {ib}: output pids {list(new['pids'])}")
            continue
        got = np.asarray(new["data"], dtype=float)
        if got.shape != (full.shape[1], 14):
            res.fail(f"{ID}/structure/shape", f"block {ib}: data shape {got.shape}, expected {(full.shape[1], 14)}")
            continue
        for key in ("xgrid", "mu2grid"):
            if not np.array_equal(np.asarray(new[key]), np.asarray(blk[key])):
                res.fail(f"{ID}/structure/grids", f"block {ib}: {key} changed")
        got = got.T  # (14, N)
        failed = []
        # (1) plain numpy reference projector
        proj = sum(np.outer(w, w) / (w @ w) for w in want)
        ref = proj @ full
        if not np.all(np.isfinite(got)) or np.abs(got - ref).max() > tol:
            failed.append(f"value: max |project - sum_e e e^T/(e.e) data| = {np.abs(got - ref).max():.3e}")
        # (2) keeps exactly the components along the selection, removes everything orthogonal to it
        for w in want:
            w = w / np.sqrt(w @ w)  # the predicates are about directions: independent of the size of the vectors
            d = np.abs(w @ got - w @ full).max()
            if not d <= tol * max(1.0, float(np.abs(w).sum())):
                failed.append(f"kept-component: the component along a selected combination changed by {d:.3e}")
                break
        for w in rest:
            w = w / np.sqrt(w @ w)
            d = np.abs(w @ got).max()
            if not d <= tol * max(1.0, float(np.abs(w).sum())):
                failed.append(f"orthogonal-complement: a combination orthogonal to the selection survives with size {d:.3e}")
                break
        # (3) complete orthogonal set = identity
        if complete and not np.abs(got - full).max() <= tol:
            failed.append(f"complete-set: the data changed by {np.abs(got - full).max():.3e}")
        if failed:
            # the predicates are consequences of one another: one root cause, one bucket
            res.fail(f"{ID}/projection", f"block {ib}, selection {kind} of size {size} (tol {tol:.1e}): " + "; ".join(failed))
    if res.violations:
        return res

    # (4) idempotence
    snapshot = _copy_blocks(out)
    twice = call(out, "second")
    if twice is None:
        return res
    if not _same_blocks(out, snapshot):
        res.fail(f"{ID}/mutated-input", "project() modified its input on the second application")
    for ib, (a, b) in enumerate(zip(out, twice)):
        a_, b_ = np.asarray(a["data"], dtype=float), np.asarray(b["data"], dtype=float)
        scale = max(1.0, float(np.abs(a_).max()))
        if a_.shape != b_.shape or not np.abs(a_ - b_).max() <= TOL * scale * 14:
            res.fail(
                f"{ID}/idempotent",
                f"block {ib}, selection {kind} of size {size}: project(project(x)) differs from project(x) by "
                f"{np.abs(a_ - b_).max() if a_.shape == b_.shape else 'shape'}",
            )
    return res


def budget(tier):
    if tier == "quick":
        return dict(max_examples=500, shards=4, wall_s=60, shrink_s=20)
    return dict(max_examples=8000, shards=16, wall_s=600)

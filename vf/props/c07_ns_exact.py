"""C07 exact non-singlet kernels (QCD, and QED with fixed alpha_em) solve dE/da = gamma(a)/beta(a) E."""

import math

from hypothesis import strategies as st

from vf import strategies as vs
from vf.core import CaseResult, exc_bucket

ID = "C07"
LEVEL = "exploration"
TECHNIQUE = (
    "Hypothesis-generated complex gamma towers / couplings through the public non-singlet dispatchers; oracle = "
    "exp of the mpmath.quad (30 digits) of gamma(a)/beta(a) with literature beta coefficients"
)
RULE = (
    "kind 'qcd': order n in 1..4, nf in 3..6, method in {iterate,decompose,perturbative}-exact, complex gamma_k "
    "uniformly in the disc |gamma_k| <= 10^(k+1) (k=0..n-1), (a0,a1) log-uniform in [0.002,0.05] in either order with "
    "|ln(a1/a0)| >= 0.05 by construction; non_singlet.dispatcher vs exp(int_a0^a1 gamma/beta). kind 'qed': order "
    "(n,m), n in 1..4, m in 1..2, generic complex gamma[i][j] with |gamma_ij| <= 10^(i+j) (gamma[0][0]=0), fixed "
    "a_em log-uniform in [1e-4,5e-3], 1..4 steps with monotonic interior couplings, mu2_from/mu2_to log-uniform in "
    "[1,1e4]; non_singlet_qed.dispatcher vs the same integral with beta0 -> beta0 + a_em beta^(2,1), gamma_i -> "
    "sum_j gamma_ij a_em^j, times exp(-sum_j gamma_0j a_em^j ln(mu2_to/mu2_from)). Non-trivial = order >= 2 or "
    "nf == 6; distinct by the full case."
)
ASSUMPTIONS = [
    "sign conventions from doc/source/theory/DGLAP.rst and pQCD.rst: gamma = -M[P], beta(a) = -sum beta_k a^(k+2), beta_k>0",
    "beta coefficients of the reference are the literature tables typed for C20 (Herzog et al. 2017; Surguladze 1996), not eko.beta",
    "reference quadrature: mpmath tanh-sinh in ln(a), 30 digits, own error estimate < 1e-18 (else harness error)",
    "tolerance 1e-9 relative on the kernel value (DESIGN C07)",
    "for fixed alpha_em the product over steps telescopes, so the reference is one integral from as_list[0] to "
    "as_list[-1] whatever the interior couplings are (DGLAP.rst, 'Mixed QCD x QED evolution / Non singlet')",
]
LEVEL_TEXT = (
    "Exploration: the closed-form exact kernels are compared with an independent high-precision integration of the "
    "defining ODE on thousands of generated inputs covering every order, nf (incl. nf=6 with complex Delta), both "
    "evolution directions and the QED fixed-alpha_em variant; random sampling, not a proof."
)

TOL = 1e-9
EXACT_METHODS = ["ITERATE_EXACT", "DECOMPOSE_EXACT", "PERTURBATIVE_EXACT"]


def budget(tier):
    if tier == "quick":
        return dict(max_examples=2000, shards=8, wall_s=80, shrink_s=30)
    return dict(max_examples=40000, shards=16, wall_s=800, shrink_s=120)


@st.composite
def _case(draw):
    kind = draw(st.sampled_from(["qcd", "qcd", "qed"]))
    n = draw(st.integers(1, 4))
    nf = draw(st.integers(3, 6))
    a0, a1 = draw(vs.coupling_pair(0.002, 0.05, 0.05))
    case = {"kind": kind, "n": n, "nf": nf, "a0": a0, "a1": a1}
    if kind == "qcd":
        case["method"] = draw(st.sampled_from(EXACT_METHODS))
        case["gamma"] = [draw(vs.complex_disc(10.0 ** (k + 1))) for k in range(n)]
        return case
    m = draw(st.integers(1, 2))
    case["m"] = m
    g = []
    for i in range(n + 1):
        row = []
        for j in range(m + 1):
            row.append([0.0, 0.0] if i == j == 0 else draw(vs.complex_disc(10.0 ** (i + j))))
        g.append(row)
    case["gamma"] = g
    case["aem"] = draw(vs.log_floats(1e-4, 5e-3))
    steps = draw(st.integers(1, 4))
    # interior couplings: strictly between a0 and a1, monotonic (fractions of the log distance, sorted)
    fr = sorted(draw(st.lists(vs.floats(0.05, 0.95), min_size=steps - 1, max_size=steps - 1)))
    case["as_list"] = [a0] + [a0 * math.exp(f * math.log(a1 / a0)) for f in fr] + [a1]
    case["mu2"] = [draw(vs.log_floats(1.0, 1e4)), draw(vs.log_floats(1.0, 1e4))]
    return case


def strategy(tier):
    return _case()


def _finite(z):
    return math.isfinite(z.real) and math.isfinite(z.imag)


def check_case(case):
    import mpmath as mp
    import numpy as np

    from vf.refs import k1_kernel_ref as kr

    n, nf = case["n"], case["nf"]
    a0, a1 = float(case["a0"]), float(case["a1"])
    res = CaseResult()
    res.nontrivial = bool(n >= 2 or nf == 6)
    res.classes = [f"{case['kind']}/n={n}", f"nf={nf}", "a0>a1" if a0 > a1 else "a0<a1"]
    betas = kr.beta_list(nf, n)

    if case["kind"] == "qcd":
        from eko.kernels import EvoMethods
        from eko.kernels import non_singlet as ns

        gam = [vs.c(z) for z in case["gamma"]]
        res.classes.append(case["method"])
        ref = kr.ns_exact(gam, betas, a0, a1)
        bucket = f"{ID}/qcd/order={n}" + ("/nf=6" if nf == 6 else "")
        try:
            got = complex(
                ns.dispatcher((n, 0), EvoMethods[case["method"]], np.array(gam, dtype=np.complex128), a1, a0, nf)
            )
        except Exception as e:  # noqa: BLE001
            return res.fail(exc_bucket(f"{ID}/call/qcd/order={n}", e), repr(e))
        what = f"non_singlet.dispatcher(({n},0), {case['method']}, gamma={gam}, a1={a1!r}, a0={a0!r}, nf={nf})"
    else:
        from eko.kernels import EvoMethods
        from eko.kernels import non_singlet_qed as qns

        m = case["m"]
        aem = float(case["aem"])
        g = np.array([[vs.c(z) for z in row] for row in case["gamma"]], dtype=np.complex128)
        as_list = np.array(case["as_list"], dtype=float)
        steps = len(as_list) - 1
        mu2_from, mu2_to = (float(x) for x in case["mu2"])
        res.classes += [f"qed-m={m}", f"steps={steps}"]
        # reference: QED-shifted beta0, gammas contracted along the a_em axis, pure-QED scale factor
        mp.mp.dps = kr.DPS
        betas = list(betas)
        betas[0] = betas[0] + mp.mpf(aem) * kr.beta_mix(nf)
        contracted = [sum(complex(g[i, j]) * aem**j for j in range(m + 1)) for i in range(n + 1)]
        ref = kr.ns_exact(contracted[1:], betas, float(as_list[0]), float(as_list[-1]))
        gq = mp.mpc(contracted[0].real, contracted[0].imag)
        ref = ref * mp.exp(-gq * mp.log(mp.mpf(mu2_to) / mp.mpf(mu2_from)))
        bucket = f"{ID}/qed/order={n},{m}" + ("/nf=6" if nf == 6 else "")
        try:
            got = complex(
                qns.dispatcher(
                    (n, m), EvoMethods.ITERATE_EXACT, g, as_list, np.full(steps, aem), False, nf, steps, mu2_from, mu2_to
                )
            )
        except Exception as e:  # noqa: BLE001
            return res.fail(exc_bucket(f"{ID}/call/qed/order={n},{m}", e), repr(e))
        what = (
            f"non_singlet_qed.dispatcher(({n},{m}), gamma={g.tolist()}, as_list={as_list.tolist()}, aem={aem!r}, "
            f"nf={nf}, steps={steps}, mu2_from={mu2_from!r}, mu2_to={mu2_to!r})"
        )

    if not _finite(got):
        return res.fail(bucket + "/nonfinite", f"{what} = {got!r}, reference {complex(ref)!r}")
    err = abs(mp.mpc(got.real, got.imag) - ref)
    if err > TOL * abs(ref):
        res.fail(
            bucket,
            f"{what} = {got!r} but exp(int gamma/beta) = {complex(ref)!r} (relative difference "
            f"{float(err / abs(ref)):.3e} > {TOL})",
        )
    return res

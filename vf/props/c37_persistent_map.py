"""C37 the EKO operator store behaves like a persistent map under any history (model-based, stateful + exhaustive)."""

import itertools
import json
import math

from vf.core import CaseResult, exc_bucket
from vf.refs import s1_store as s1

ID = "C37"
LEVEL = "exploration"
TECHNIQUE = (
    "one interpreter of step lists drives a real EKO (public API only) beside a dict[(float,int)] -> (bytes, "
    "bytes|None) model; fed by a bounded-exhaustive enumeration of short histories and by a Hypothesis "
    "RuleBasedStateMachine for long random ones"
)
RULE = (
    "A case is a history = JSON list of steps on one EKO created with EKO.create(..).load_cards(..).build(): "
    "set/overwrite (operator from a seed, with or without error array), get, del (unload), in, approx(ep[, rtol, atol]), "
    "iter, items(), unload(), operators.sync(), reopen (close -> EKO.read, after which writes must raise "
    "ReadOnlyOperator, or close -> EKO.edit), deepcopy(path) (copy checked, or session switched to the copy). "
    "Exhaustive part: every history of length 1..3 (quick) / 1..4 (thorough) over the 18-letter alphabet "
    "{set,get,del,in,approx} x {A=(20 as int,4), B=(20.000006,4) within the default tolerance of A, C=(20.0 as "
    "np.float64,5)} + {reopen-read, reopen-edit, deepcopy-and-switch}; the value set at position p is seed p with an "
    "error array iff p is odd, so overwrites change value and error presence.  Random part: machines of up to 30 steps "
    "over a pool of 9 keys (pairs within tolerance, one ulp apart, same scale in another nf, integer-valued scales given "
    "as int / np.int64 / float / np.float64, nf as int / np.int64), approx queries at relative offsets 0, +-1e-7, "
    "+-1e-4 with default or drawn tolerances.  After every step: key set == model, no duplicates, every operator held in "
    "Inventory.cache bitwise equal to the model; at the end every value is read back, the EKO closed and the archive "
    "re-read against the model.  A history stops at its first violation.  Non-trivial = contains an overwrite or an "
    "unload of a present key, later a reopen, later a read (get/items) of a present key; distinct by history."
)
ASSUMPTIONS = [
    "model semantics: Python dict keyed by (float(scale), int(nf)); (20, 4), (20.0, 4) and np.float64(20.0) are one key",
    "get of an absent point must raise ValueError/KeyError (the repo's LookupError is a ValueError; its tests expect ValueError)",
    "del/unload of an absent point may be a no-op or raise KeyError/ValueError, but must not change the visible key set",
    "approx: 'within tolerance' = |q - s| <= atol + rtol*|s| (numpy.isclose with the stored scale as reference); queries whose "
    "candidate set changes when the tolerance is halved or doubled are not judged (counted as approx-boundary)",
    "approx results are compared by value ((float, int) pair); the NumPy type of the returned scale is not judged here",
    "Inventory.cache is read (never written) by the harness to check 'nothing loaded is stale' without triggering loads",
    "values compared through shape, dtype and tobytes()",
]
LEVEL_TEXT = (
    "All histories up to length 3 (4 in the thorough tier) over a fixed 18-letter alphabet are executed (exhaustive for that "
    "bounded part); longer histories are sampled by a state machine, so the overall claim stays exploration."
)

# --------------------------------------------------------------------------- alphabet / pool

A = [20.0, 4, "ii"]
B = [20.000006, 4, "fi"]
C = [20.0, 5, "ni"]
EX_KEYS = [A, B, C]
EX_TAIL = [["reopen", "read"], ["reopen", "edit"], ["copy", "switch"]]

ULP = math.nextafter(10.0, math.inf)
POOL = [
    [10.0, 4],
    [10.000003, 4],  # within default rtol of 10.0
    [ULP, 4],  # one ulp above 10.0
    [10.0, 5],  # same scale, other nf
    [20.0, 4],  # integer valued
    [20.0, 5],
    [30.0, 3],  # integer valued, alone in its nf
    [10.5, 4],  # ambiguous with 10.0 only for the wide drawn tolerances
    [1e-3, 4],
]
VAL_SHAPE = [2, 2, 2, 2]


def ex_letter(kind, key, pos):
    if kind == "set":
        return ["set", key, pos, pos % 2 == 1]
    if kind == "approx":
        return ["approx", [key[0], key[1], "fi"], None, None]
    return [kind, key]


def enumerate_cases(tier):
    maxlen = 3 if tier == "quick" else 4
    letters = [(k, key) for k in ("set", "get", "del", "in", "approx") for key in EX_KEYS] + [
        (t[0], t[1]) for t in EX_TAIL
    ]
    cases = []
    for n in range(1, maxlen + 1):
        for word in itertools.product(range(len(letters)), repeat=n):
            steps = []
            for pos, li in enumerate(word):
                kind, arg = letters[li]
                if kind in ("reopen", "copy"):
                    steps.append([kind, arg])
                else:
                    steps.append(ex_letter(kind, arg, pos))
            cases.append(steps)
    return cases


# --------------------------------------------------------------------------- interpreter


def value_of(seed, with_err):
    op = {"seed": int(seed), "mode": "special", "shape": VAL_SHAPE}
    err = {"seed": int(seed) + 1000003, "mode": "unit", "shape": VAL_SHAPE} if with_err else None
    return s1.make_operator(op, err)


def raised_bucket(e):
    tag = ""
    if type(e).__name__ == "LookupError":
        tag = "/too-many" if "Too many" in str(e) else "/not-available"
    return exc_bucket(f"{ID}/raised", e) + tag


class Interp:
    """Runs steps on a real EKO and on the model; collects violations into ``self.res`` (first one ends the history)."""

    def __init__(self):
        self.res = CaseResult()
        self.res.nontrivial = False
        self.sb = s1.Sandbox().__enter__()
        self.model = {}
        self.dead = False
        self.mode = "edit"
        self.eko = None
        self.ncopy = 0
        self.stage = 0  # NT automaton: 0 -> (overwrite|unload of present) 1 -> (reopen) 2 -> (read of present) 3
        self.classes = set()
        self._after = "create"
        self.path = self.sb.dir / "h.tar"
        try:
            from eko.io.struct import EKO

            th, op = s1.cards()
            self.eko = EKO.create(self.path).load_cards(th, op).build()
        except Exception as e:  # noqa: BLE001 - repo call
            self.raised("create", e)

    # -- bookkeeping

    def fail(self, bucket, msg):
        self.res.fail(bucket, msg)
        self.dead = True

    def raised(self, where, e, msg=None):
        """An exception from repo code on an in-domain step: one bucket per exception type and innermost repo frame
        (wherever in the history it surfaced), so that one root cause lands in one bucket."""
        self.fail(raised_bucket(e), f"{where}: {msg or repr(e)}")

    def close_sandbox(self):
        self.sb.close()

    def _call(self, fn):
        try:
            return True, fn()
        except Exception as e:  # noqa: BLE001 - verdict taken by the caller, never dropped
            return False, e

    # -- invariants

    def invariants(self, after):
        if self.dead:
            return
        ok, keys = self._call(lambda: [s1.mkey(ep) for ep in self.eko])
        if not ok:
            return self.raised(f"iteration after {after}", keys)
        if len(keys) != len(set(keys)):
            return self.fail(f"{ID}/keyset/duplicates/after={after}", f"iteration yields duplicates: {keys}")
        if set(keys) != set(self.model):
            extra = sorted(set(keys) - set(self.model))
            missing = sorted(set(self.model) - set(keys))
            kind = "phantom" if extra and not missing else ("lost" if missing and not extra else "both")
            return self.fail(
                f"{ID}/keyset/{kind}/after={after}",
                f"visible points {sorted(keys)} != model {sorted(self.model)} (extra {extra}, missing {missing})",
            )
        for header, op in list(self.eko.operators.cache.items()):
            if op is None:
                continue
            k = s1.mkey(header.ep)
            if k in self.model and s1.op_frozen(op) != self.model[k]:
                return self.fail(f"{ID}/stale-cache/after={after}", f"operator cached for {k} differs from the last value set")

    def all_unloaded(self, after):
        loaded = [s1.mkey(h.ep) for h, op in self.eko.operators.cache.items() if op is not None]
        if loaded:
            self.fail(f"{ID}/{after}/still-loaded", f"operators still in memory after {after}: {loaded}")

    def compare_value(self, k, op, where):
        want = self.model[k]
        got = s1.op_frozen(op)
        if got != want:
            part = "operator" if got[0] != want[0] else "error"
            i = 0 if part == "operator" else 1
            self.fail(
                f"{ID}/value/{where}/{part}",
                f"{where} of {k}: {part} differs from the last value set: {s1.describe_diff(want[i], got[i])}",
            )

    # -- steps

    def step(self, st):
        if self.dead:
            return
        kind = st[0]
        getattr(self, "do_" + kind)(*st[1:])
        self.invariants(self._after)

    def do_set(self, key, seed, with_err):
        from eko.io.access import ReadOnlyOperator

        ep, k = s1.ep_of(key)
        new = value_of(seed, with_err)
        had = k in self.model
        flip = had and (self.model[k][1] is None) != (new.error is None)
        self._after = "overwrite" if had else "set"
        self.classes.add(("overwrite-errflip" if flip else "overwrite") if had else "set")
        if s1.is_numpy_key(key):
            self.classes.add("set-numpy-key")
        ok, out = self._call(lambda: self.eko.__setitem__(ep, new))
        if self.mode == "read":
            self.classes.add("set-on-readonly")
            if ok:
                return self.fail(f"{ID}/set/readonly-not-refused", f"set {k} on an EKO opened with EKO.read did not raise")
            if not isinstance(out, ReadOnlyOperator):
                return self.fail(exc_bucket(f"{ID}/set/readonly-wrong-exception", out), repr(out))
            return
        if not ok:
            return self.raised(f"{self._after} {k}", out)
        self.model[k] = s1.op_frozen(new)
        if had and self.stage == 0:
            self.stage = 1

    def do_get(self, key):
        ep, k = s1.ep_of(key)
        present = k in self.model
        self._after = "get" if present else "get-absent"
        self.classes.add(self._after)
        ok, out = self._call(lambda: self.eko[ep])
        if present:
            if not ok:
                return self.raised(f"get {k}", out)
            if out is None:
                return self.fail(f"{ID}/get/none", f"get {k} returned None")
            self.compare_value(k, out, "get")
            if self.stage == 2:
                self.stage = 3
        else:
            if ok:
                return self.fail(f"{ID}/get-absent/returned", f"get of absent {k} returned {type(out).__name__}")
            if not isinstance(out, (ValueError, KeyError)):
                return self.fail(exc_bucket(f"{ID}/get-absent/wrong-exception", out), repr(out))

    def do_del(self, key):
        from eko.io.items import Target

        ep, k = s1.ep_of(key)
        present = k in self.model
        self._after = "del" if present else "del-absent"
        self.classes.add(self._after)
        ok, out = self._call(lambda: self.eko.__delitem__(ep))
        if present:
            if not ok:
                return self.raised(f"del {k}", out)
            if self.eko.operators.cache.get(Target.from_ep(ep), "missing") is not None:
                return self.fail(f"{ID}/del/still-loaded", f"after del {k} the cache holds {self.eko.operators.cache.get(Target.from_ep(ep), 'missing')!r}")
            if self.stage == 0:
                self.stage = 1
        elif not ok and not isinstance(out, (ValueError, KeyError)):
            return self.fail(exc_bucket(f"{ID}/del-absent/wrong-exception", out), repr(out))

    def do_in(self, key):
        ep, k = s1.ep_of(key)
        self._after = "in"
        self.classes.add("in")
        ok, out = self._call(lambda: ep in self.eko)
        if not ok:
            return self.raised("in", out)
        if bool(out) != (k in self.model):
            self.fail(f"{ID}/in/wrong", f"{k} in eko -> {out}, model says {k in self.model}")

    def do_approx(self, key, rtol, atol):
        ep, q = s1.ep_of(key)
        self._after = "approx"
        rt = 1e-6 if rtol is None else rtol
        at = 1e-10 if atol is None else atol

        def cands(f):
            return sorted(k for k in self.model if k[1] == q[1] and abs(q[0] - k[0]) <= f * (at + rt * abs(k[0])))

        want = cands(1.0)
        kwargs = {}
        if rtol is not None:
            kwargs["rtol"] = rtol
        if atol is not None:
            kwargs["atol"] = atol
        ok, out = self._call(lambda: self.eko.approx(ep, **kwargs))
        if cands(0.5) != want or cands(2.0) != want:
            self.classes.add("approx-boundary")
            return
        n = len(want)
        self.classes.add(f"approx-{'none' if n == 0 else 'unique' if n == 1 else 'ambiguous'}")
        if any(float(k[0]).is_integer() for k in self.model if k[1] == q[1]):
            self.classes.add("approx-among-integer-scales")
        if n >= 2:
            if ok:
                return self.fail(f"{ID}/approx/ambiguous-not-refused", f"approx({q}, rtol={rt}, atol={at}) -> {out!r} although {want} are all within tolerance")
            if not isinstance(out, ValueError):
                return self.fail(exc_bucket(f"{ID}/approx/ambiguous-wrong-exception", out), repr(out))
            return
        if not ok:
            return self.raised(f"approx({q}, rtol={rt}, atol={at}) with model candidates {want or None}", out)
        if n == 0:
            if out is not None:
                self.fail(f"{ID}/approx/none-expected", f"approx({q}, rtol={rt}, atol={at}) -> {out!r}, nothing within tolerance in {sorted(self.model)}")
            return
        if out is None or s1.mkey(out) != want[0]:
            self.fail(f"{ID}/approx/unique-wrong", f"approx({q}, rtol={rt}, atol={at}) -> {out!r}, expected {want[0]}")

    def do_iter(self):
        self._after = "iter"
        self.classes.add("iter")  # the comparison itself is the invariant run after every step

    def do_items(self):
        self._after = "items"
        self.classes.add("items")
        ok, out = self._call(lambda: [(s1.mkey(ep), s1.op_frozen(op)) for ep, op in self.eko.items()])
        if not ok:
            return self.raised("items()", out)
        keys = [k for k, _ in out]
        if sorted(keys) != sorted(self.model):
            return self.fail(f"{ID}/items/keys", f"items() yields {sorted(keys)}, model {sorted(self.model)}")
        for k, v in out:
            if v != self.model[k]:
                i = 0 if v[0] != self.model[k][0] else 1
                return self.fail(f"{ID}/value/items/{'operator' if i == 0 else 'error'}", f"items() value of {k}: {s1.describe_diff(self.model[k][i], v[i])}")
        self.all_unloaded("items")
        if self.model:
            if self.stage == 0:
                self.stage = 1
            elif self.stage == 2:
                self.stage = 3

    def do_unload(self):
        self._after = "unload"
        self.classes.add("unload")
        ok, out = self._call(lambda: self.eko.unload())
        if not ok:
            return self.raised("unload()", out)
        self.all_unloaded("unload")
        if self.model and self.stage == 0:
            self.stage = 1

    def do_sync(self):
        self._after = "sync"
        self.classes.add("sync")
        ok, out = self._call(lambda: self.eko.operators.sync())
        if not ok:
            return self.raised("operators.sync()", out)

    def _close(self, what):
        ok, out = self._call(lambda: self.eko.close())
        if not ok:
            self.raised(f"close ({what})", out)
        return ok

    def _open(self, path, mode, what):
        from eko.io.struct import EKO

        ok, out = self._call(lambda: EKO.read(path) if mode == "read" else EKO.edit(path))
        if not ok:
            self.raised(f"re-opening the archive ({what})", out)
            return None
        return out

    def do_reopen(self, mode):
        self._after = f"reopen-{mode}"
        self.classes.add(self._after)
        if not self._close("reopen"):
            return
        new = self._open(self.path, mode, "reopen")
        if new is None:
            return
        self.eko = new
        self.mode = mode
        if self.stage == 1:
            self.stage = 2

    def do_copy(self, how):
        self._after = f"copy-{how}"
        self.classes.add(self._after)
        self.ncopy += 1
        dest = self.sb.dir / f"copy{self.ncopy}.tar"
        ok, out = self._call(lambda: self.eko.deepcopy(dest))
        if not ok:
            return self.raised("deepcopy", out)
        if how == "check":
            self.verify_archive(dest, "deepcopy")
            return
        if not self._close("copy-switch"):
            return
        # the source must still hold the model after its own close: checked against the copy's content below and at the end
        self.verify_archive(self.path, "deepcopy-source")
        if self.dead:
            return
        new = self._open(dest, "edit", "copy-switch")
        if new is None:
            return
        self.eko, self.mode, self.path = new, "edit", dest
        if self.stage == 1:
            self.stage = 2

    def verify_archive(self, path, what):
        """Read an archive read-only and compare its full content with the model."""
        r = self._open(path, "read", what)
        if r is None:
            return
        try:
            ok, out = self._call(lambda: {s1.mkey(ep): s1.op_frozen(op) for ep, op in r.items()})
            if not ok:
                return self.raised(f"items() of the re-read archive ({what})", out)
            if sorted(out) != sorted(self.model):
                return self.fail(f"{ID}/archive/keys", f"{what}: archive holds {sorted(out)}, model {sorted(self.model)}")
            for k, v in out.items():
                if v != self.model[k]:
                    i = 0 if v[0] != self.model[k][0] else 1
                    return self.fail(f"{ID}/archive/value", f"{what}: archived value of {k}: {s1.describe_diff(self.model[k][i], v[i])}")
        finally:
            ok, out = self._call(lambda: r.close())
            if not ok and not self.dead:
                self.raised(f"close of the re-read archive ({what})", out)

    def finish(self, steps):
        try:
            if not self.dead:
                self._after = "final-read"
                for k in sorted(self.model):
                    ok, out = self._call(lambda k=k: self.eko[k])
                    if not ok:
                        self.raised(f"final read of {k}", out)
                        break
                    self.compare_value(k, out, "final-get")
                    if self.dead:
                        break
                self.invariants("final-read")
            if not self.dead and self._close("final"):
                self.verify_archive(self.path, "persisted")
        finally:
            self.close_sandbox()
        res = self.res
        res.nontrivial = self.stage == 3
        res.key = steps
        n = len(steps)
        res.classes = sorted(self.classes) + [f"len={'1-4' if n <= 4 else '5-15' if n <= 15 else '16-30'}", f"keys={min(len(self.model), 4)}{'+' if len(self.model) > 4 else ''}"]
        if res.nontrivial:
            res.classes.append("nontrivial")
        return res


def check_case(case):
    """Replay a history (list of steps)."""
    it = Interp()
    try:
        for st in case:
            it.step(st)
    except BaseException:
        it.close_sandbox()
        raise
    return it.finish(case)


# --------------------------------------------------------------------------- random histories (stateful)


def make_machine(sink):
    from hypothesis import strategies as st
    from hypothesis.stateful import RuleBasedStateMachine, rule

    def key_st():
        @st.composite
        def build(draw):
            s, nf = draw(st.sampled_from(POOL))
            kinds = "fffn"
            if float(s).is_integer():
                kinds = "ffnijij"
            ty = draw(st.sampled_from(kinds)) + draw(st.sampled_from("iiin"))
            return [s, nf, ty]

        return build()

    def fit_type(ty, scale):
        return ty if (ty[0] in "fn" or float(scale).is_integer()) else "f" + ty[1]

    idx_st = st.one_of(st.none(), st.integers(0, 8))
    tol_st = st.one_of(
        st.just([None, None]),
        st.tuples(st.sampled_from([1e-6, 1e-9, 1e-3, 0.3]), st.sampled_from([1e-10, 0.0, 2.0])).map(list),
    )

    class Machine(RuleBasedStateMachine):
        def __init__(self):
            super().__init__()
            self.it = Interp()
            self.steps = []
            self.nset = 0

        def _do(self, stp):
            if self.it.dead:
                return
            self.steps.append(stp)
            self.it.step(stp)

        def _pick(self, key, idx):
            """With idx given prefer a point that is present (keeps overwrite / hit rates up), in the drawn number types."""
            present = sorted(self.it.model)
            if idx is None or not present:
                return key
            k = present[idx % len(present)]
            return [k[0], k[1], fit_type(key[2], k[0])]

        @rule(key=key_st(), idx=idx_st, err=st.booleans())
        def set_(self, key, idx, err):
            self.nset += 1
            self._do(["set", self._pick(key, idx), self.nset, err])

        @rule(key=key_st(), err=st.booleans())
        def set_new(self, key, err):
            self.nset += 1
            self._do(["set", key, self.nset, err])

        @rule(key=key_st(), idx=idx_st)
        def get(self, key, idx):
            self._do(["get", self._pick(key, idx)])

        @rule(key=key_st(), idx=idx_st)
        def delete(self, key, idx):
            self._do(["del", self._pick(key, idx)])

        @rule(key=key_st(), idx=idx_st)
        def contains(self, key, idx):
            self._do(["in", self._pick(key, idx)])

        @rule(
            key=key_st(), idx=idx_st, d=st.sampled_from([0.0, 0.0, 1e-7, -1e-7, 1e-4, -1e-4]), tol=tol_st,
            np_scale=st.integers(0, 3),
        )
        def approx(self, key, idx, d, tol, np_scale):
            s, nf, ty = self._pick(key, idx)
            q = s * (1 + d)
            if d != 0.0 or not float(q).is_integer():
                ty = ("n" if np_scale == 0 else "f") + ty[1]
            self._do(["approx", [q, nf, ty], tol[0], tol[1]])

        @rule()
        def iterate(self):
            self._do(["iter"])

        @rule()
        def items(self):
            self._do(["items"])

        @rule()
        def unload(self):
            self._do(["unload"])

        @rule()
        def sync(self):
            self._do(["sync"])

        @rule(mode=st.sampled_from(["edit", "edit", "read"]))
        def reopen(self, mode):
            self._do(["reopen", mode])

        @rule()
        def reopen_edit(self):
            self._do(["reopen", "edit"])

        # Hypothesis enables only a random subset of rules per example (swarm testing), which alone gives histories made
        # of 3-4 operation kinds; this rule mixes all kinds in one history with fixed weights.
        @rule(
            kind=st.sampled_from(
                ["set"] * 5 + ["get"] * 3 + ["del"] * 2 + ["in"] + ["approx"] * 4 + ["items", "unload", "sync", "iter"]
                + ["reopen"] * 2 + ["copy"]
            ),
            key=key_st(), idx=idx_st, err=st.booleans(), d=st.sampled_from([0.0, 0.0, 1e-7, -1e-7, 1e-4, -1e-4]),
            tol=tol_st, np_scale=st.integers(0, 3), mode=st.sampled_from(["edit", "edit", "read"]),
            how=st.sampled_from(["check", "switch"]),
        )
        def mixed(self, kind, key, idx, err, d, tol, np_scale, mode, how):
            if kind == "set":
                self.set_(key, idx, err)
            elif kind == "get":
                self.get(key, idx)
            elif kind == "del":
                self.delete(key, idx)
            elif kind == "in":
                self.contains(key, idx)
            elif kind == "approx":
                self.approx(key, idx, d, tol, np_scale)
            elif kind == "reopen":
                self.reopen(mode)
            elif kind == "copy":
                self.copy(how)
            else:
                self._do([kind])

        @rule(how=st.sampled_from(["check", "switch"]))
        def copy(self, how):
            self._do(["copy", how])

        def teardown(self):
            sink(self.steps, self.it.finish(self.steps))

    return Machine


def run_custom(tier, seed, shard, nshards, record):
    import hypothesis
    from hypothesis import HealthCheck, settings
    from hypothesis.stateful import run_state_machine_as_test

    total = budget(tier)["machines"]
    n = max(1, total // nshards)
    first = [True]
    seen_buckets = set()

    def sink(steps, res):
        # Hypothesis starts with the simplest machine whatever the seed: count it on shard 0 only
        if first[0]:
            first[0] = False
            if shard > 0:
                return
        if not steps:
            return
        steps = json.loads(json.dumps(steps))
        record(steps, res)
        for v in res.violations:
            if v.bucket in seen_buckets:
                continue
            seen_buckets.add(v.bucket)

            def still(cand, bucket=v.bucket):
                return any(x.bucket == bucket for x in check_case(cand).violations)

            small = s1.minimise_history(steps, still)
            if len(small) < len(steps):
                record(small, check_case(small))

    machine = hypothesis.seed(seed * 1000 + shard)(make_machine(sink))
    run_state_machine_as_test(
        machine,
        settings=settings(
            max_examples=n + (1 if shard > 0 else 0),
            stateful_step_count=30,
            deadline=None,
            database=None,
            suppress_health_check=list(HealthCheck),
            phases=[hypothesis.Phase.generate],
            print_blob=False,
        ),
    )


def budget(tier):
    if tier == "quick":
        return dict(machines=208, custom_shards=8, enum_shards=16, wall_s=90)
    return dict(machines=3200, custom_shards=16, enum_shards=16, wall_s=900)


def evidence_extra(tier):
    n = len(enumerate_cases(tier))
    return {
        "exhaustive_part": {
            "exhaustive": True,
            "cases": n,
            "domain": f"all histories of length 1..{3 if tier == 'quick' else 4} over the 18-letter alphabet "
                      "{set,get,del,in,approx} x {A,B,C} + {reopen-read, reopen-edit, deepcopy-and-switch}",
        }
    }

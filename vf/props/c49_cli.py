"""C49 the command-line interface produces valid runcards and the library's EKO."""

import copy
import json
import math
import os
import pathlib
import shutil
import subprocess

import numpy as np

from vf import core
from vf import runner_util as ru
from vf.core import CaseResult, exc_bucket, jsonable

ID = "C49"
LEVEL = "exploration"
ENGINE = "S"
TECHNIQUE = "differential: CLI (fresh sub-process, generated working-directory layouts and card files) vs library calls; card round trip"
RULE = (
    "Two case kinds. 'example': a fresh working directory with or without a runcards/ directory, no -d / -d to an "
    "existing directory / -d to a not yet existing (possibly nested) directory; `eko runcards example` must exit 0 and "
    "write theory.yaml + operator.yaml that yaml.safe_load and TheoryCard/OperatorCard.from_dict turn into cards equal to "
    "ekobox.cards.example with the documented modifications (order (1,0), init (1.65,4), mugrid [(sqrt(1e5),5)]). 'run': "
    "a generated tiny valid card pair dumped with ekobox.cards.dump, the three argument forms `eko run DIR`, `eko run TH "
    "OP`, `eko run TH OP OUT` (drawn file names and output locations, paths absolute or relative to the working directory; in half of the cases other card-like files with the same stem - other extension, .orig, ~ - and different valid content lie next to the cards; in half of the cases the card paths are symbolic links to files kept in another folder, in a quarter (one-argument form) the run folder is reached through a directory link); the archive must appear at the documented place "
    "and its operators and errors must be bitwise equal to eko.solve on the cards loaded from the same files. The CLI "
    "runs in a sub-process because its default destination is computed from the cwd at import time. Non-trivial = a "
    "directory without runcards/ or a non-existing destination (example), any non-example card (run); distinct by (kind, "
    "layout / argument form, order, targets)."
)
ASSUMPTIONS = [
    "the CLI is invoked as `python -c 'from ekobox.cli import command; command()'` with $VERIF_REPO/src first on PYTHONPATH (same entry point as the installed `eko` script) so that scratch copies can be tested",
    "card equality is field-by-field on the plain-data form (numpy scalars/arrays converted to Python numbers/lists)",
    "the documented place of the archive is taken relative to the paths as given on the command line (a linked card's folder is the folder of the link)",
    "bitwise comparison of operators (same process settings, NUMBA_DISABLE_JIT=1, one integration core)",
]
LEVEL_TEXT = (
    "Differential exploration of the command-line front end against the library on generated directory layouts and tiny "
    "cards; the space of layouts is small and largely covered, the card space is sampled."
)

CLI = "import sys; from ekobox.cli import command; sys.exit(command())"


def budget(tier):
    if tier == "quick":
        return dict(max_examples=48, shards=16, wall_s=120, shrink_s=0)
    return dict(max_examples=240, shards=16, wall_s=1200, shrink_s=0)


def strategy(tier):
    from hypothesis import strategies as st

    names = st.sampled_from(("cards", "out put", "a/b", "x.d", "runcards"))

    @st.composite
    def example(draw):
        return {
            "kind": "example",
            "has_runcards_dir": draw(st.booleans()),
            "dest": draw(st.sampled_from((None, None, "existing", "missing", "nested-missing"))),
            "dest_name": draw(names),
        }

    @st.composite
    def run(draw):
        card = draw(ru.st_tiny_card(orders=(1, 1, 2), methods=("iterate-exact", "truncated"), n_extra_targets=(1, 2),
                                    grid_pts=(2, 3), iters=(1, 2), weird_nf=0.2))
        if card["order"][0] == 2:
            card["xgrid"] = card["xgrid"][-2:]
            card["deg"] = 1
        if any(n < card["init"][1] for _, n in card["mugrid"]) and card["inv"] is None:
            card["inv"] = "expanded"
        walls = ru.walls_of(card)
        lowest = min([card["init"][0], card["ref"][0]] + [m for m, _ in card["mugrid"]] + walls[:2])
        card["alphas"] = float(ru.lo_alpha(draw(st.floats(0.1, 0.3)), lowest, card["ref"][0]))
        return {
            "kind": "run",
            "form": draw(st.sampled_from((1, 2, 2, 3))),
            "th_name": draw(st.sampled_from(("theory.yaml", "t.yaml", "my theory.yml"))),
            "op_name": draw(st.sampled_from(("operator.yaml", "o.yaml", "sub/op card.yaml"))),
            "out_name": draw(st.sampled_from(("eko.tar", "res/out.tar", "x y.tar"))),
            "relative": draw(st.booleans()),
            # bystanders: other card-like files with the same stem (other extension / backup suffix) and different, valid
            # content next to the cards; links: cards (or the run folder) reached through symbolic links
            "decoys": draw(st.booleans()),
            "link": draw(st.sampled_from((None, "file", "file", "dir"))),
            "card": card,
        }

    return st.one_of(example(), run(), run())


def cli(args, cwd):
    env = dict(os.environ)
    env["PYTHONPATH"] = os.pathsep.join([str(core.REPO / "src"), str(core.VERIF), str(core.DEPS)])
    env["NUMBA_DISABLE_JIT"] = "1"
    return subprocess.run([core.PY, "-c", CLI, *args], cwd=str(cwd), env=env, capture_output=True, text=True)


def plain(card):
    """Plain-data form of a card for comparison (enums by value, numpy -> python)."""
    import dataclasses
    import enum

    def conv(o):
        if dataclasses.is_dataclass(o) and not isinstance(o, type):
            return {f.name: conv(getattr(o, f.name)) for f in dataclasses.fields(o)}
        if isinstance(o, enum.Enum):
            return o.value
        if isinstance(o, dict):
            return {k: conv(v) for k, v in o.items()}
        if isinstance(o, (list, tuple)):
            return [conv(v) for v in o]
        if hasattr(o, "raw") and hasattr(o, "log") and hasattr(o, "size"):  # XGrid
            return {"grid": [float(x) for x in np.asarray(o.raw)], "log": bool(o.log)}
        if isinstance(o, np.ndarray):
            return conv(o.tolist())
        if isinstance(o, (np.floating, float)):
            f = float(o)
            return "nan" if math.isnan(f) else f
        if isinstance(o, (np.integer,)):
            return int(o)
        if isinstance(o, np.bool_):
            return bool(o)
        return o

    return conv(card)


def check_example(case, d):
    import yaml
    from eko.io.runcards import OperatorCard, TheoryCard
    from ekobox import cards

    res = CaseResult()
    cwd = d / "work"
    cwd.mkdir()
    if case["has_runcards_dir"]:
        (cwd / "runcards").mkdir()
    args = ["runcards", "example"]
    dest = cwd / "runcards"
    if case["dest"] is not None:
        dest = cwd / ("d_" + case["dest_name"])
        if case["dest"] == "nested-missing":
            dest = dest / "deeper"
        if case["dest"] == "existing":
            dest.mkdir(parents=True)
        args += ["-d", str(dest)]
    layout = f"runcards-dir={case['has_runcards_dir']},dest={case['dest']}"
    res.classes = ["kind=example", layout]
    res.key = ["example", case["has_runcards_dir"], case["dest"]]
    res.nontrivial = bool((case["dest"] is None and not case["has_runcards_dir"]) or case["dest"] in ("missing", "nested-missing"))
    p = cli(args, cwd)
    if p.returncode != 0:
        tail = (p.stderr.strip().splitlines() or ["?"])[-1][:300]
        why = "destination-must-exist" if "does not exist" in p.stderr else ("dump-failed" if "RepresenterError" in p.stderr or "represent" in p.stderr else "other")
        res.fail(f"{ID}/example/exit/{why}", f"`eko {' '.join(args[:2])} ...` ({layout}) exited {p.returncode}: {tail}")
        return res
    th_f, op_f = dest / "theory.yaml", dest / "operator.yaml"
    if not th_f.is_file() or not op_f.is_file():
        res.fail(f"{ID}/example/files-missing", f"({layout}) expected {th_f} and {op_f}; found {sorted(x.name for x in dest.glob('*')) if dest.exists() else 'no directory'}")
        return res
    try:
        th = TheoryCard.from_dict(yaml.safe_load(th_f.read_text()))
        op = OperatorCard.from_dict(yaml.safe_load(op_f.read_text()))
    except Exception as e:  # noqa: BLE001
        res.fail(exc_bucket(f"{ID}/example/load", e), f"written cards do not load: {type(e).__name__}: {e}")
        return res
    exp_th = cards.example.theory()
    exp_th.order = (1, 0)
    exp_op = cards.example.operator()
    exp_op.init = (1.65, 4)
    exp_op.mugrid = [(math.sqrt(1e5), 5)]
    for name, got, exp in (("theory", th, exp_th), ("operator", op, exp_op)):
        g, e = plain(got), plain(exp)
        if g != e:
            diff = [k for k in e if g.get(k) != e[k]] if isinstance(e, dict) else "?"
            res.fail(f"{ID}/example/card-differs/{name}", f"loaded {name} card differs from the example in fields {diff}: {json.dumps({k: [g.get(k), e[k]] for k in diff}, default=str)[:600]}")
    return res


def check_run(case, d):
    import eko
    import yaml
    from eko.io.runcards import OperatorCard, TheoryCard
    from ekobox import cards

    res = CaseResult()
    card = case["card"]
    c = ru.full(card)
    form = case["form"]
    res.classes = ["kind=run", f"form={form}", f"order={c['order'][0]}", f"targets={len(c['mugrid'])}"]
    res.key = ["run", form, c["order"], [n for _, n in c["mugrid"]], case["th_name"], case["op_name"], case["out_name"]]
    res.nontrivial = True
    cwd = d / "work"
    cwd.mkdir()
    th, op = ru.cards(card)
    if form == 1:
        rc = cwd / "my cards"
        th_f, op_f = rc / "theory.yaml", rc / "operator.yaml"
        out = rc / "eko.tar"
        args = ["run", str(rc)]
    else:
        th_f = cwd / "in" / case["th_name"]
        op_f = cwd / "in" / case["op_name"]
        out = op_f.parent / "eko.tar"
        args = ["run", str(th_f), str(op_f)]
        if form == 3:
            out = cwd / case["out_name"]
            out.parent.mkdir(parents=True, exist_ok=True)
            args.append(str(out))
    th_f.parent.mkdir(parents=True, exist_ok=True)
    op_f.parent.mkdir(parents=True, exist_ok=True)
    if case.get("relative"):  # paths given relative to the working directory, as a user at a shell would
        args = [args[0]] + [os.path.relpath(a, cwd) for a in args[1:]]
        res.classes.append("paths=relative")
    link = case.get("link")
    real_th, real_op = th_f, op_f
    if link == "file":  # the card paths are symbolic links to files kept in another folder
        shared = cwd / "shared store"
        shared.mkdir()
        real_th, real_op = shared / ("T-" + th_f.name), shared / ("O-" + op_f.name)
        res.classes.append("cards=symlinked-files")
    elif link == "dir" and form == 1:  # the run folder is reached through a directory link
        real_dir = cwd / "real cards"
        real_dir.mkdir()
        rc.rmdir()  # created empty above
        os.symlink(real_dir, rc, target_is_directory=True)
        res.classes.append("folder=symlinked")
    try:
        cards.dump(th.raw, real_th)
        cards.dump(op.raw, real_op)
        if case.get("decoys"):
            dth, dop = copy.deepcopy(th.raw), copy.deepcopy(op.raw)
            dth["couplings"]["alphas"] = float(dth["couplings"]["alphas"]) * 0.9
            dop["mugrid"] = [[float(m) * 1.37, int(n)] for m, n in dop["mugrid"]]
            for f, raw in ((th_f, dth), (op_f, dop)):
                for other in (f.with_suffix(".yml" if f.suffix == ".yaml" else ".yaml"), f.with_name(f.name + ".orig"), f.with_name(f.name + "~")):
                    cards.dump(raw, other)
            res.classes.append("bystander-cards=yes")
    except Exception as e:  # noqa: BLE001 - serialisation of cards is C40's verdict
        return CaseResult(discarded=exc_bucket("card dump failed (decided by C40)", e))
    if link == "file":
        os.symlink(os.path.relpath(real_th, th_f.parent), th_f)
        os.symlink(os.path.relpath(real_op, op_f.parent), op_f)
    p = cli(args, cwd)
    # the library on the cards loaded from the same files
    th2 = TheoryCard.from_dict(yaml.safe_load(th_f.read_text()))
    op2 = OperatorCard.from_dict(yaml.safe_load(op_f.read_text()))
    lib_out = d / "lib.tar"
    try:
        eko.solve(th2, op2, lib_out)
        lib = ru.load_all(lib_out)
    except (NotImplementedError, ValueError) as e:
        if p.returncode == 0:
            res.fail(f"{ID}/run/cli-accepts-what-library-refuses", f"library: {type(e).__name__}: {e}; CLI exit 0")
            return res
        return CaseResult(discarded=f"refused:{type(e).__name__}")
    except Exception as e:  # noqa: BLE001 - crashes are C04's verdict
        return CaseResult(discarded=exc_bucket("crash(decided by C04)", e))
    if p.returncode != 0:
        tail = (p.stderr.strip().splitlines() or ["?"])[-1][:300]
        res.fail(f"{ID}/run/exit/form={form}", f"`eko {' '.join(args)}` exited {p.returncode}: {tail}")
        return res
    if not out.is_file():
        found = sorted(str(x.relative_to(cwd)) for x in cwd.rglob("*.tar"))
        res.fail(f"{ID}/run/output-location/form={form}", f"expected the archive at {out.relative_to(cwd)}; tar files found: {found}")
        return res
    got = ru.load_all(out)
    if sorted(got) != sorted(lib):
        res.fail(f"{ID}/run/points", f"CLI archive points {sorted(got)} != library {sorted(lib)}")
        return res
    for k in sorted(lib):
        a, b = lib[k], got[k]
        if a[0].tobytes() != b[0].tobytes():
            res.fail(f"{ID}/run/operator-differs/form={form}", f"operator at {k} differs between CLI and library (max abs {np.max(np.abs(a[0] - b[0])):.3e})")
        elif (a[1] is None) != (b[1] is None) or (a[1] is not None and a[1].tobytes() != b[1].tobytes()):
            res.fail(f"{ID}/run/error-differs/form={form}", f"error array at {k} differs between CLI and library")
    return res


def check_case(case):
    d = ru.fresh_dir("vf-c49-")
    try:
        if case["kind"] == "example":
            return check_example(case, d)
        return check_run(case, d)
    finally:
        shutil.rmtree(d, ignore_errors=True)

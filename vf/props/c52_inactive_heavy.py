"""C52 heavy flavours that are never active are transported unchanged."""

import numpy as np

from vf import runner_util as ru
from vf.core import CaseResult, exc_bucket

ID = "C52"
LEVEL = "exploration"
ENGINE = "R"
TECHNIQUE = "Hypothesis-generated tiny runcards solved end to end; oracle = exact 0/1 rows and columns of never-activated quarks"
RULE = (
    "Generated tiny runcards (QCD order 1-4, QED order 0-2, all methods, polarised / time-like, sv none/exponentiated/"
    "expanded, upward / downward / fixed paths with initial and final nf in 3-5, jittered log grids of 2-4 points) with a "
    "target that requires a computed segment; a quarter of the cases are preceded in the same process by a cheap computation "
    "with the same scales but another starting flavour number (no state may survive between computations). For every quark h > max(nf along the path) and its antiquark: "
    "op[h,j,h,j] == 1 exactly and every other entry of the rows and columns of h and hbar == 0 exactly, at every grid "
    "point. Non-trivial = a computed (non-identity) operator plus at least one matching on the path or QED or order>=2; "
    "distinct by (order, method, flags, nf0, nff, sv, npts, deg). Refused configurations are discarded and counted."
)
ASSUMPTIONS = [
    "exact comparison (==) of the entries: the inactive-flavour block is built from weights 1/2+1/2 and 1/2-1/2 and products with exact 0/1",
    "interpreted mode (NUMBA_DISABLE_JIT=1)",
    "downward matchings always carry an explicit inversion method",
]
LEVEL_TEXT = (
    "Generated-input exploration of the full runner with an exact validity predicate on the stored operators; samples the "
    "configuration product, does not exhaust it."
)

IDX = {p: 7 + p for p in range(1, 7)}
IDX.update({-p: 7 - p for p in range(1, 7)})


def budget(tier):
    if tier == "quick":
        return dict(max_examples=80, shards=16, wall_s=80, shrink_s=40)
    return dict(max_examples=1600, shards=16, wall_s=1200, shrink_s=200)


def strategy(tier):
    from hypothesis import strategies as st

    flags = ((False, False), (False, False), (True, False), (False, True))
    common = dict(n_extra_targets=(1, 1), grid_pts=(2, 4), iters=(1, 3), nf0_choices=(3, 4, 5))
    qcd = ru.st_tiny_card(orders=(1, 2, 3, 4), qed=(0,), sv=(None, None, "exponentiated", "expanded"), flags=flags, **common)
    qed = ru.st_tiny_card(orders=(1, 2, 3), qed=(1, 2), methods=("iterate-exact",), sv=(None, "exponentiated"),
                          **dict(common, grid_pts=(2, 2), iters=(1, 2)))

    def fix(case):
        # final nf in 3..5: remap a drawn nf=6 target onto 5 (keeps its scale; any (scale, nf) is a valid point)
        case["mugrid"] = [[m, min(n, 5)] for m, n in case["mugrid"]]
        if any(n < case["init"][1] for _, n in case["mugrid"]) and case["inv"] is None:
            case["inv"] = "expanded"
        if case["order"][0] == 4 and len(case["xgrid"]) > 3:
            case["xgrid"] = case["xgrid"][-3:]
            case["deg"] = min(case["deg"], 2)
        if (case["pol"] or case["tl"]) and case["order"][0] == 4:
            case["order"] = [3, 0]
        return case

    def with_prior(t):
        # a quarter of the cases are preceded, in the same process, by a cheap computation that differs in the
        # starting flavour number only (same matching scales, same mu0): no state may survive between computations
        case, i, nf = t
        if i == 0 and nf != case["init"][1]:
            case["prior_nf0"] = nf
        return case

    cases = st.one_of(qcd, qcd, qcd, qcd, qed).map(fix)
    return st.tuples(cases, st.integers(0, 3), st.sampled_from((3, 4, 5))).map(with_prior)


def solve_prior(case):
    """Run a cheap sibling computation first (its outcome is irrelevant)."""
    sib = {k: v for k, v in case.items() if k != "prior_nf0"}
    sib.update(init=[case["init"][0], case["prior_nf0"]], order=[1, 0], method="iterate-exact", iters=1, xgrid=[0.1, 1.0],
               deg=1, mugrid=[list(case["mugrid"][0])], sv=None, xif=1.0, pol=False, tl=False, inv="expanded", max_order=[1, 0])
    try:
        ru.solve(sib)
    except Exception:  # noqa: BLE001 - only the computation that follows is judged
        pass


def check_case(case):
    res = CaseResult()
    c = ru.full(case)
    qed = c["order"][1] > 0
    nf0 = c["init"][1]
    res.classes = [f"order={c['order'][0]},{c['order'][1]}", f"method={c['method']}", f"sv={c['sv']}",
                   f"pol={c['pol']}", f"tl={c['tl']}"]
    if "prior_nf0" in case:
        res.classes.append("after-sibling-computation")
        solve_prior(case)
        case = {k: v for k, v in case.items() if k != "prior_nf0"}
    try:
        ops = ru.solve(case)
    except (NotImplementedError, ValueError) as e:
        return CaseResult(discarded=f"refused:{type(e).__name__}")
    except Exception as e:  # noqa: BLE001 - crashes are C04's verdict ("finite or cleanly refused"), not this property's
        return CaseResult(discarded=exc_bucket("crash(decided by C04)", e))
    nt = False
    keys = []
    for (mu2, nff), (op, _err) in sorted(ops.items()):
        top = max(nf0, nff)
        n = op.shape[1]
        computed = not np.array_equal(op[7], np.eye(14)[7][None, :, None] * np.eye(n)[:, None, :])
        path = "up" if nff > nf0 else ("down" if nff < nf0 else "fixed")
        res.classes.append(f"path={path}")
        if computed and (nff != nf0 or qed or c["order"][0] >= 2):
            nt = True
        keys.append([nf0, nff])
        for h in range(top + 1, 7):
            for pid in (h, -h):
                i = IDX[pid]
                row = op[i].copy()  # [j, b, k]
                col = op[:, :, i, :].copy()  # [a, j, k]
                exp_row = np.zeros_like(row)
                exp_col = np.zeros_like(col)
                for j in range(n):
                    exp_row[j, i, j] = 1.0
                    exp_col[i, j, j] = 1.0
                if not np.array_equal(row, exp_row):
                    d = np.abs(row - exp_row)
                    idx = np.unravel_index(np.argmax(np.where(np.isnan(d), np.inf, d)), d.shape)
                    kind = "diag" if (idx[1] == i) else "receives"
                    res.fail(
                        f"{ID}/row/{kind}/qed={qed}",
                        f"target {(mu2, nff)} nf0={nf0}: inactive pid {pid} row entry [j={idx[0]}, b={idx[1]}, k={idx[2]}] = "
                        f"{row[idx]!r}, expected {exp_row[idx]!r}",
                    )
                if not np.array_equal(col, exp_col):
                    d = np.abs(col - exp_col)
                    idx = np.unravel_index(np.argmax(np.where(np.isnan(d), np.inf, d)), d.shape)
                    res.fail(
                        f"{ID}/col/feeds/qed={qed}",
                        f"target {(mu2, nff)} nf0={nf0}: inactive pid {pid} column entry [a={idx[0]}, j={idx[1]}, k={idx[2]}] = "
                        f"{col[idx]!r}, expected {exp_col[idx]!r}",
                    )
    res.nontrivial = nt
    res.key = [c["order"], c["method"], c["pol"], c["tl"], keys, c["sv"], len(c["xgrid"]), c["deg"]]
    return res

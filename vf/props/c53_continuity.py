"""C53 EKOs are continuous in the target scale within a flavour-number patch."""

import math

import numpy as np

from vf import runner_util as ru
from vf.core import CaseResult, exc_bucket

ID = "C53"
LEVEL = "exploration"
ENGINE = "R"
TECHNIQUE = "generated runcards with a target on a patch boundary / the initial scale and neighbours displaced by 1e-7, 1e-6; Lipschitz-bound oracle"
RULE = (
    "Generated tiny runcards (QCD order 1-3, methods iterate-exact / truncated / perturbative-exact, 2-3 point grids, "
    "scale variation none / expanded / exponentiated with xi^2 in {1/4, 4}, matching ratio 1 or drawn) whose mugrid holds "
    "a special target - exactly on a matching scale with the lower nf, exactly on it with the upper nf, or exactly at the "
    "initial scale - plus the neighbours displaced by relative 1e-7 and 1e-6 into the same patch (same nf), and in half of the cases one more target beyond / before the wall listed before or after them (shared parts). Oracle: for "
    "each neighbour |E(mu) - E(mu(1+-eps))| <= 50 eps max|E| + 2 (stored integration errors of both), entry-wise. Only "
    "this upper bound is asserted. Non-trivial = scale variation active or a matching on the path; distinct by (order, "
    "method, sv, xif, where, nf0, direction)."
)
ASSUMPTIONS = [
    "Lipschitz constant 50 (d ln a_s / d ln mu^2 ~ 0.2, |gamma| ~ 10 on these grids); the integration error estimates stored in the archive are honoured (the operator is only defined up to them)",
    "no lower bound (operators are legitimately constant within the solver's short-segment shortcuts)",
    "downward matchings use an explicit inversion method",
    "interpreted mode (NUMBA_DISABLE_JIT=1)",
]
LEVEL_TEXT = (
    "Generated-input exploration aimed at the boundary points of the flavour patches; a bound oracle, no exhaustive claim."
)


def budget(tier):
    if tier == "quick":
        return dict(max_examples=48, shards=16, wall_s=90, shrink_s=30)
    return dict(max_examples=480, shards=16, wall_s=1500, shrink_s=120)


def strategy(tier):
    from hypothesis import strategies as st

    @st.composite
    def build(draw):
        order = draw(st.sampled_from((1, 2, 2, 3)))
        svm = draw(st.sampled_from((None, "expanded", "expanded", "exponentiated")))
        xif = draw(st.sampled_from((0.5, 2.0))) if svm else 1.0
        where = draw(st.sampled_from(("wall-lower", "wall-upper", "init")))
        nfl = draw(st.sampled_from((3, 4)))  # flavours below the wall
        masses = [1.51, 4.92, 172.5]
        unit = draw(st.booleans())
        r = 1.0 if unit else draw(st.floats(0.7, 1.6))
        ratios = [1.0, 1.0, 1.0]
        ratios[nfl - 3] = r
        wall2 = (r * r) * (masses[nfl - 3] ** 2)  # exactly as runner.commons.atlas computes it
        wall = math.sqrt(wall2)
        if wall * wall != wall2:  # make the square of the target reproduce the wall bit for bit
            for cand in (np.nextafter(wall, 0.0), np.nextafter(wall, 1e9)):
                if float(cand) * float(cand) == wall2:
                    wall = float(cand)
        on_wall = wall * wall == wall2
        from_below = draw(st.booleans())
        f = draw(st.floats(1.3, 2.5))
        if where == "init":
            nf0 = draw(st.sampled_from((3, 4, 5)))
            mu0 = {3: 1.2, 4: 2.5, 5: 10.0}[nf0] * draw(st.floats(1.0, 1.3))
            special = [mu0, nf0]
            neigh = [[mu0 * (1 + s * e), nf0] for e in (1e-7, 1e-6) for s in (1, -1)]
            init = [mu0, nf0]
        else:
            nft = nfl if where == "wall-lower" else nfl + 1
            side = -1 if where == "wall-lower" else 1  # the patch of nft lies below / above the wall
            special = [wall, nft]
            neigh = [[wall * (1 + side * e), nft] for e in (1e-7, 1e-6)]
            init = [wall / f, nfl] if from_below else [wall * f, nfl + 1]
        # other targets computed in the same run (before or after the special one), e.g. one whose path crosses the
        # wall the special target sits on: parts are shared between targets, which must not change the result
        extra = []
        if draw(st.booleans()):
            beyond = [wall * draw(st.floats(1.3, 2.0)), nfl + 1] if draw(st.booleans()) else [wall / draw(st.floats(1.3, 2.0)), nfl]
            extra.append(beyond)
        first = draw(st.booleans())
        low = min([init[0], wall] + [n[0] for n in neigh] + [e[0] for e in extra]) * (min(xif, 1.0))
        pts = [[float(special[0]), int(special[1])]] + [[float(m), int(n)] for m, n in neigh]
        ext = [[float(m), int(n)] for m, n in extra]
        card = dict(
            order=[order, 0], init=[float(init[0]), int(init[1])],
            mugrid=(ext + pts) if first else (pts + ext),
            masses=masses, ratios=ratios, ref=[float(low), ru.natural_nf(low, [m * q for m, q in zip(masses, ratios)])],
            alphas=draw(st.floats(0.18, 0.3)), xgrid=draw(st.sampled_from(([0.1, 1.0], [0.05, 0.4, 1.0], [0.01, 0.2, 0.6, 1.0]))),
            deg=1, method=draw(st.sampled_from(("iterate-exact", "truncated", "perturbative-exact"))), iters=2, max_order=[4, 0],
            sv=svm, xif=xif, inv=draw(st.sampled_from(("exact", "expanded"))),
        )
        if order == 3:
            card["xgrid"] = card["xgrid"][-2:] if len(card["xgrid"]) > 3 else card["xgrid"]
        return {"where": where, "on_wall": bool(on_wall or where == "init"), "card": card, "n_special": 0 if not (first and ext) else len(ext)}

    return build()


def check_case(case):
    res = CaseResult()
    card = case["card"]
    c = ru.full(card)
    nf0 = c["init"][1]
    i0 = case.get("n_special", 0)
    nn = 4 if case["where"] == "init" else 2
    sp = c["mugrid"][i0]
    direction = "up" if sp[1] > nf0 else ("down" if sp[1] < nf0 else "same-nf")
    res.classes = [f"order={c['order'][0]}", f"sv={c['sv']}", f"where={case['where']}", f"dir={direction}",
                   f"exactly-on-wall={case['on_wall']}", f"co-targets={len(c['mugrid']) - 1 - nn}"]
    res.key = [c["order"], c["method"], c["sv"], c["xif"], case["where"], nf0, direction, case["on_wall"]]
    res.nontrivial = bool(c["sv"] is not None or sp[1] != nf0)
    try:
        ops = ru.solve(card)
    except (NotImplementedError, ValueError) as e:
        return CaseResult(discarded=f"refused:{type(e).__name__}")
    except Exception as e:  # noqa: BLE001 - crashes are C04's verdict
        return CaseResult(discarded=exc_bucket("crash(decided by C04)", e))

    def get(pt):
        for k, v in ops.items():
            if k[1] == pt[1] and k[0] == pt[0] ** 2:
                return v
        return None

    ref = get(sp)
    if ref is None:
        res.fail(f"{ID}/missing", f"no operator for the special target {sp}")
        return res
    E, dE = ref
    norm = float(np.max(np.abs(E)))
    for pt in c["mugrid"][i0 + 1 : i0 + 1 + nn]:
        got = get(pt)
        if got is None:
            res.fail(f"{ID}/missing", f"no operator for neighbour {pt}")
            continue
        F, dF = got
        eps = abs(pt[0] / sp[0] - 1.0)
        allowed = 50.0 * eps * norm + 2.0 * ((0 if dE is None else np.abs(dE)) + (0 if dF is None else np.abs(dF)))
        diff = np.abs(E - F)
        if not np.all(diff <= allowed):
            worst = float(np.max(diff - allowed))
            idx = np.unravel_index(np.argmax(diff - allowed), diff.shape)
            res.fail(
                f"{ID}/jump/where={case['where']}/sv={c['sv']}/dir={direction}",
                f"target {sp} vs neighbour {pt} (eps={eps:.1e}): entry {tuple(int(i) for i in idx)} moves by {diff[idx]:.3e} "
                f"(allowed {float(np.broadcast_to(allowed, diff.shape)[idx]):.3e}, max|E|={norm:.3e}); order={c['order']} xif={c['xif']} "
                f"method={c['method']} init={c['init']}",
            )
            break
    return res

"""C48 the numba-compiled kernels compile from the current sources and agree with their interpreted definitions.

Two processes evaluate the same Hypothesis-generated list of calls: worker A with the JIT enabled and a numba cache
directory keyed on a hash of the whole source tree, the calling shard process itself (B) with ``NUMBA_DISABLE_JIT=1``.
The parent compares the encoded results.  The module doubles as the worker (``python -m vf.props.c48_... --worker``).
"""

from __future__ import annotations

import hashlib
import inspect
import json
import math
import os
import pathlib
import shutil
import subprocess
import sys
import time

import numpy as np

from vf.core import PY, REPO, VERIF, CaseResult, HarnessError

ID = "C48"
LEVEL = "exploration"
ENGINE = "E"
TECHNIQUE = (
    "differential between two processes on one seeded call list: numba-compiled (fresh-per-tree cache) vs the same "
    "functions interpreted (NUMBA_DISABLE_JIT=1); compile / typing errors are violations"
)
RULE = (
    "Function groups (one compiled worker process each): interpolation+Mellin path (evaluate_grid / evaluate_x / "
    "log_evaluate_x on dispatcher areas, Talbot/line/edge paths, the Path jitclass), couplings (expanded solutions incl. "
    "coupled QCDxQED), scale variations (expanded QCD/QED ns/singlet/valence, exponentiated gamma variations), harmonics "
    "(every cache key x is_singlet, polygamma orders 0-4, g- and log-functions; the leaf functions S1-S5, cern_polygamma and recursive_harmonic_sum also with N typed as Python int and float, i.e. their int64 / float64 specialisations), QCD kernels (non-singlet and singlet "
    "dispatchers: 8 methods x orders 1-4, plus every evolution integral and the individual solution kernels), QED kernels "
    "(non-singlet / singlet / valence dispatchers on the (1-4)x(1-2) grid, running and fixed alpha_em), every function of "
    "the unpolarised space-like anomalous-dimension modules as1/as2 and matching modules as1/as2 (found by introspection, "
    "arguments by parameter name); thorough tier adds quad_ker_ad / quad_ker_ome on random (u, label, configuration) and a "
    "tiny end-to-end solve.  The DISCRETE coordinates of every group are enumerated in full in every run (function x orders "
    "x method x nf 3-6 x running/fixed alpha_em x sector label ...; e.g. qcd_kernels = 468 combinations, so that nf-dependent "
    "sign patterns of the beta coefficients such as the negative NNLO discriminant at nf = 6 meet every exact kernel), "
    "Hypothesis draws the continuous rest, 1-2 repetitions per combination (quick) / 5-10 (thorough).  Inputs: N on the solver's Talbot contours (eko.mellin.Path) and off-contour (box Re N in [-6,40], "
    "|Im N| <= 40, at least 0.75 away from the poles at the integers <= 1; the contours keep >= 0.9), couplings "
    "log-uniform in [0.002,0.05], random complex gamma towers |gamma_k| <= 10^(k+1), jittered log grids, N-space basis functions at (x in the grid range, N on / near the contour built for that x).  Oracle: same "
    "structure and shape; integers / booleans identical; floats within 1e-12 (harmonics group: 1e-11) of the largest modulus of the same array; an "
    "exception on one side only, a numba compile/typing error, or a crash of the compiled worker is a violation.  "
    "Non-trivial = both sides returned a floating-point result (not an agreed refusal); distinct by (function, arguments)."
)
ASSUMPTIONS = [
    "tolerance 1e-12 relative to the largest modulus within the returned array, with a floor of 1 on that scale for the "
    "groups whose quantities are O(1) by construction (Lagrange basis polynomials - a partition of unity -, harmonic sums, "
    "as1/as2 anomalous dimensions and matching elements, evolution kernels around the identity); pure relative for "
    "couplings and scale variations.  Compiled and interpreted code differ by libm / complex-power / contraction "
    "rounding only: measured worst 2.1e-13 (mellin_g18), 5.6e-14 (A_hg), <= 1e-14 elsewhere, couplings and scale "
    "variations bitwise equal",
    "numba cache directory /verif/.build/nb/<sha256 over path+content of every file under $VERIF_REPO/src except "
    "__pycache__>: numba does not invalidate cached machine code when a callee in another file changes, so the cache is "
    "keyed on the tree; an unchanged tree reuses its cache (the first run after any source change compiles from scratch)",
    "arguments are passed in the types production passes them (order tuples of ints, ndarray towers, Python lists for "
    "beta vectors - numba 'reflected lists')",
    "quad_ker_ad / quad_ker_ome and the end-to-end solve (9 min cold compile each) are exercised in the thorough tier only; "
    "their tolerance is 1e-10 relative to max(|value|, peak modulus of the Mellin-inversion factor QuadKerBase.integrand along "
    "the contour) - the solver integrates the kernel over the contour, and in its tail the values are cancellation "
    "residues (observed 4.5e-9 relative noise on a factor 3e-17 below its peak); the factor itself is compared at 1e-12 "
    "of its peak; solve: 1e-10 of max(1, largest operator entry) since the kernels pass through adaptive quadrature",
]
LEVEL_TEXT = (
    "Generated-input differential between the compiled and the interpreted execution of the same sources, covering every "
    "njit function of the anchored modules through public entry points or direct calls; samples inputs, does not exhaust."
)

TOL = 1e-12
# natural magnitude of the quantities of a group, used as a floor of the comparison scale where small outputs arise from
# cancellations between O(1) terms (a Lagrange basis polynomial at a foreign node, harmonic-sum combinations at large N)
SCALE_FLOOR = {"interpolation": 1.0, "harmonics": 1.0, "ad_as12": 1.0, "ome_as12": 1.0, "qcd_kernels": 1.0, "qed_kernels": 1.0,
               "solve": 1.0}
# The integration kernels return Re(Mellin-inversion factor x kernel element) at one point u of the contour.  What the
# solver uses is the integral over u, so the natural scale is the PEAK of the factor along the contour (u = 0.5..0.7);
# in the tail the factor and the kernel are cancellation residues many orders below it.  The callers therefore also
# return the factor and its peak (QuadKerBase.integrand); the kernel value is compared to 1e-10 of max(|value|, peak)
# (the kernel element's own magnitude, O(1)..O(100), is not visible from outside), the factor to 1e-12 of the peak.
# The end-to-end solve passes these values through adaptive quadrature.
# harmonics: cern_polygamma of order K carries complex powers (N+k)^-(K+1) over its recurrence; compiled and interpreted complex
# powers round differently (observed 1.1e-12 of the O(1) scale for K = 4 at N = -0.08+1.80j on the unchanged tree), so 1e-11
TOL_GROUP = {"quad_ker_ad": 1e-10, "quad_ker_ome": 1e-10, "solve": 1e-10, "harmonics": 1e-11}
QUICK_GROUPS = ("qcd_kernels", "ome_as12", "ad_as12", "qed_kernels", "harmonics", "scale_variations", "couplings", "interpolation")
THOROUGH_GROUPS = ("quad_ker_ad", "quad_ker_ome", "solve") + QUICK_GROUPS
# repetitions of the full discrete product of each group (sizes: qcd_kernels 468, qed_kernels 230, scale_variations 256,
# couplings 160, harmonics 280, ad_as12 128, ome_as12 104, interpolation 90, quad_ker_ad 166, quad_ker_ome 156, solve 2)
REPS = {
    "quick": {"*": 1, "ad_as12": 2, "ome_as12": 2},
    "thorough": {"*": 5, "ad_as12": 10, "ome_as12": 10, "quad_ker_ad": 2, "quad_ker_ome": 2, "solve": 1},
}


def groups(tier):
    return QUICK_GROUPS if tier == "quick" else THOROUGH_GROUPS


def budget(tier):
    if tier == "quick":
        return dict(custom_shards=len(QUICK_GROUPS), wall_s=240, shrink_s=0)
    return dict(custom_shards=len(THOROUGH_GROUPS), wall_s=2400, shrink_s=0)


# =========================================================================================== numba cache per tree


def tree_hash():
    src = REPO / "src"
    h = hashlib.sha256()
    for p in sorted(src.rglob("*")):
        if not p.is_file() or "__pycache__" in p.parts or p.suffix in (".pyc", ".pyo", ".nbi", ".nbc"):
            continue
        h.update(str(p.relative_to(src)).encode() + b"\0")
        h.update(hashlib.sha256(p.read_bytes()).digest())
    return h.hexdigest()


def cache_dir():
    """Tree-keyed numba cache directory; stale directories of other trees are removed to bound disk use."""
    root = VERIF / ".build" / "nb"
    root.mkdir(parents=True, exist_ok=True)
    mine = root / tree_hash()[:32]
    mine.mkdir(exist_ok=True)
    now = time.time()
    os.utime(mine, (now, now))
    others = sorted((d for d in root.iterdir() if d.is_dir() and d != mine), key=lambda d: d.stat().st_mtime, reverse=True)
    for rank, d in enumerate(others):
        age = now - d.stat().st_mtime
        # another run (e.g. a scratch-tree run in parallel) may be using a recent directory: keep the two most recently
        # used for an hour, everything else goes
        if age > 3600 or (rank >= 2 and age > 600):
            shutil.rmtree(d, ignore_errors=True)
    return mine


# =========================================================================================== encoding / comparison


def encode(x):
    """Canonical JSON form of a result."""
    if isinstance(x, (bool, np.bool_)):
        return {"k": "b", "v": bool(x)}
    if isinstance(x, (int, np.integer)):
        return {"k": "i", "v": int(x)}
    if isinstance(x, (float, np.floating)):
        return {"k": "f", "shape": [], "v": [float(x), 0.0]}
    if isinstance(x, (complex, np.complexfloating)):
        return {"k": "f", "shape": [], "v": [float(x.real), float(x.imag)]}
    if isinstance(x, np.ndarray):
        if x.dtype.kind in "iub":
            return {"k": "ia", "shape": list(x.shape), "v": [int(v) for v in x.ravel()]}
        z = np.asarray(x, dtype=np.complex128).ravel()
        return {"k": "f", "shape": list(x.shape), "v": [float(v) for pair in zip(z.real, z.imag) for v in pair]}
    if isinstance(x, (tuple, list)):
        return {"k": "t", "v": [encode(v) for v in x]}
    if x is None:
        return {"k": "none"}
    raise HarnessError(f"cannot encode result of type {type(x)}")


def _num(e):
    """Numeric view of an encoded leaf: (shape, complex array) or None."""
    if e["k"] == "f":
        v = np.array(e["v"], dtype=float)
        return tuple(e["shape"]), v[0::2] + 1j * v[1::2]
    if e["k"] in ("i", "b"):
        return (), np.array([complex(e["v"])])
    if e["k"] == "ia":
        return tuple(e["shape"]), np.array(e["v"], dtype=complex)
    return None


def compare(a, b, path="result", floor=0.0, tol=TOL):
    """List of (kind, message) differences between two encoded results (a compiled, b interpreted)."""
    if a["k"] == "t" or b["k"] == "t":
        if a["k"] != b["k"] or len(a["v"]) != len(b["v"]):
            return [("structure", f"{path}: compiled {a['k']} of {len(a.get('v', []))} vs interpreted {b['k']} of {len(b.get('v', []))}")]
        out = []
        for i, (x, y) in enumerate(zip(a["v"], b["v"])):
            out += compare(x, y, f"{path}[{i}]", floor, tol)
        return out
    if a["k"] == "none" or b["k"] == "none":
        return [] if a["k"] == b["k"] else [("structure", f"{path}: compiled {a['k']} vs interpreted {b['k']}")]
    na, nb_ = _num(a), _num(b)
    if na[0] != nb_[0]:
        return [("shape", f"{path}: compiled shape {na[0]} vs interpreted shape {nb_[0]}")]
    exact = a["k"] in ("i", "b", "ia") and b["k"] in ("i", "b", "ia")
    x, y = na[1], nb_[1]
    if exact:
        if not np.array_equal(x, y):
            i = int(np.argmax(x != y))
            return [("integer", f"{path}: integer/boolean output differs at flat index {i}: compiled {x[i].real:g} vs interpreted {y[i].real:g}")]
        return []
    nan_a, nan_b = np.isnan(x.real) | np.isnan(x.imag), np.isnan(y.real) | np.isnan(y.imag)
    if not np.array_equal(nan_a, nan_b):
        i = int(np.argmax(nan_a != nan_b))
        return [("nan", f"{path}: NaN on one side only at flat index {i}: compiled {x[i]!r} vs interpreted {y[i]!r}")]
    ok = ~nan_a
    inf = ok & ~(np.isfinite(x.real) & np.isfinite(x.imag) & np.isfinite(y.real) & np.isfinite(y.imag))
    if inf.any():
        if not np.array_equal(x[inf], y[inf]):
            i = int(np.argmax(inf))
            return [("inf", f"{path}: non-finite values differ: compiled {x[i]!r} vs interpreted {y[i]!r}")]
        ok = ok & ~inf
    if not ok.any():
        return []
    scale = max(float(np.max(np.abs(x[ok]))), float(np.max(np.abs(y[ok]))), floor, 1e-300)
    dev = np.where(ok, np.abs(np.where(ok, x, 0) - np.where(ok, y, 0)), 0.0)
    if dev.max() > tol * scale:
        i = int(np.argmax(dev))
        return [(
            "value",
            f"{path}: flat index {i}: compiled {x[i]!r} vs interpreted {y[i]!r}, |diff| {dev[i]:.3e} = "
            f"{dev[i] / scale:.3e} of the array scale {scale:.3e} (tolerance {tol:g})",
        )]
    return []


def is_float_result(e):
    if e["k"] == "t":
        return any(is_float_result(v) for v in e["v"])
    return e["k"] == "f"


# =========================================================================================== shared strategies


def c(z):
    return complex(z[0], z[1])


def _st():
    from hypothesis import strategies as st

    return st


def unit():
    """Uniform values in (0,1): a numpy Generator seeded by a Hypothesis-drawn integer (Hypothesis' own float and integer
    strategies over-sample 0 and the end points, which would put half of the moments on the real axis)."""
    st = _st()
    return st.integers(0, 2**32 - 1).map(lambda s: float(np.random.default_rng(s).uniform(1e-9, 1 - 1e-9)))


def st_n(singlet=None):
    """Mellin moment [re, im]: solver contours (t in [0.5,0.95]) or a box, >= 0.75 away from the integers <= 1."""
    st = _st()
    from eko import mellin

    def contour(u, v, s):
        n = complex(mellin.Path(0.5 + 0.45 * u, math.log(1e-7) * v, s).n)
        return [n.real, n.imag]

    def box(re, frac, im):
        if re < 1.5 and abs(im) < 0.75:
            # keep >= 0.75 away from the poles at the integers <= 1 (the solver's contours stay >= 0.9 away): the closed
            # forms carry prefactors up to 1/(N+k)^6, so rounding is amplified by d^-6 near a pole (observed 1.6e-12 for
            # lm15m1 at d = 0.6, 4e-12 for A_hg at d = 0.1) although the two executions agree operation by operation
            im = math.copysign(0.75 + abs(im), im if im != 0.0 else 1.0)
        return [re, im]

    sing = st.booleans() if singlet is None else st.just(bool(singlet))
    return st.one_of(
        st.builds(contour, unit(), unit(), sing),
        st.builds(contour, unit(), unit(), sing),
        st.builds(box, unit().map(lambda u: 0.3 + 39.7 * u), unit(), unit().map(lambda u: -40 + 80 * u)),
        st.builds(box, unit().map(lambda u: -6 + 7.2 * u), unit(), st.one_of(unit().map(lambda u: -6 + 12 * u), st.just(0.0))),
    )


def st_cdisc(rmax):
    st = _st()
    return st.builds(lambda r, ph: [r * rmax * math.cos(ph), r * rmax * math.sin(ph)], unit(), unit().map(lambda u: 2 * math.pi * u))


def st_coupling(lo=0.002, hi=0.05):
    return unit().map(lambda u: lo * (hi / lo) ** u)


def st_apair():
    """(a1, a0) with |ln(a1/a0)| >= 0.05."""
    st = _st()

    def mk(a, u, up):
        b = a * math.exp((0.05 + 2.5 * u) * (1 if up else -1))
        b = min(max(b, 0.001), 0.08)
        return [a, b] if abs(math.log(b / a)) >= 0.05 else [a, a * 1.2]

    return st.builds(mk, st_coupling(0.004, 0.03), unit(), st.booleans())


def _rng_disc(rng, rmax, shape):
    r = rng.uniform(0.0, 1.0, shape) * rmax
    ph = rng.uniform(0.0, 2 * math.pi, shape)
    return np.stack([r * np.cos(ph), r * np.sin(ph)], axis=-1)


def _seeded(build):
    """Strategy: one Hypothesis-drawn integer seeds a numpy Generator that builds the (large) array."""
    st = _st()
    return st.integers(0, 2**32 - 1).map(lambda sd: build(np.random.default_rng(sd)))


def st_gamma_vec(n):
    """[n][2]: |gamma_k| <= 10^(k+1)."""
    return _seeded(lambda rng: [_rng_disc(rng, 10.0 ** (k + 1), ()).tolist() for k in range(n)])


def st_gamma_mat(n, dim):
    """[n][dim][dim][2]: |gamma_k| <= 10^(k+1)."""
    return _seeded(lambda rng: [_rng_disc(rng, 10.0 ** (k + 1), (dim, dim)).tolist() for k in range(n)])


def st_gamma_grid(o0, o1, dim=None):
    """(o0+1, o1+1[, dim, dim]) tower with the (0,0) slot zero and |gamma_ij| <= 10^(i+j)."""
    shape = () if dim is None else (dim, dim)

    def build(rng):
        return [[_rng_disc(rng, 0.0 if i == j == 0 else 10.0 ** (i + j), shape).tolist() for j in range(o1 + 1)]
                for i in range(o0 + 1)]

    return _seeded(build)


def carr(x):
    """Nested [re, im] lists -> complex ndarray."""
    a = np.array(x, dtype=float)
    return np.ascontiguousarray(a[..., 0] + 1j * a[..., 1])


# =========================================================================================== groups: strategies + callers
# A case is {"group": g, "fn": name, "args": {...}}.  CALLERS[g](fn, args) performs the repo call(s) and returns the raw
# result; it runs in both modes.


def _beta_list(nf, n):
    from eko import beta

    return [beta.beta_qcd((2 + i, 0), nf) for i in range(n)]


# ------------------------------------------------------------------------------------------- QCD kernels

NS_DIRECT = {
    "lo_exact": 1, "nlo_exact": 2, "nlo_expanded": 2, "nnlo_exact": 3, "nnlo_expanded": 3, "n3lo_exact": 4, "n3lo_expanded": 4,
}
S_DIRECT_BETA = {
    "lo_exact": 1, "nlo_decompose_exact": 2, "nlo_decompose_expanded": 2, "nnlo_decompose_exact": 3, "nnlo_decompose_expanded": 3,
}
EI_FUNCS = {  # name -> (needs b_vec, minimal length of b_vec)
    "j12": (False, 0), "j23_exact": (True, 2), "j23_expanded": (False, 0), "j13_exact": (True, 2), "j13_expanded": (True, 2),
    "j34_exact": (True, 3), "j24_exact": (True, 3), "j14_exact": (True, 3), "j34_expanded": (False, 0),
    "j24_expanded": (True, 3), "j14_expanded": (True, 3),
}


def combos_qcd_kernels(tier):
    """The full discrete product (function, order, method, nf): every kernel at every nf (the beta coefficients change
    sign pattern with nf: e.g. the NNLO discriminant 4 b2 - b1^2 is negative only for nf = 6)."""
    out = []
    for nf in (3, 4, 5, 6):
        for o in (1, 2, 3, 4):
            for method in range(1, 9):
                out.append({"fn": "ns.dispatcher", "o": o, "method": method, "nf": nf})
                out.append({"fn": "s.dispatcher", "o": o, "method": method, "nf": nf})
        for name, o in sorted(NS_DIRECT.items()):
            out.append({"fn": "ns." + name, "o": o, "nf": nf})
        for name in ("eko_ordered_truncated", "eko_truncated", "U_vec"):
            for o in (2, 3, 4):
                out.append({"fn": "ns." + name, "o": o, "nf": nf})
        for name, o in sorted(S_DIRECT_BETA.items()):
            out.append({"fn": "s." + name, "o": o, "nf": nf})
        for name in ("n3lo_decompose_exact", "n3lo_decompose_expanded"):
            out.append({"fn": "s." + name, "o": 4, "nf": nf})
        for name in ("eko_iterate", "eko_perturbative", "eko_truncated"):
            for o in (2, 3, 4):
                out.append({"fn": "s." + name, "o": o, "nf": nf})
        for name in sorted(EI_FUNCS):
            out.append({"fn": "ei." + name, "nf": nf})
        for name in ("roots", "derivative", "j33_exact", "j23_exact", "j13_exact", "j03_exact", "j33_expanded", "j23_expanded",
                     "j13_expanded", "j03_expanded"):
            out.append({"fn": "ei4." + name, "nf": nf})
    return out


def strat_qcd_kernels(pin):
    st = _st()
    fn, nf = pin["fn"], pin["nf"]
    o = pin.get("o", 1)
    mod = fn.split(".")[0]

    @st.composite
    def one(draw):
        args = {"nf": nf, "a": draw(st_apair())}
        if mod in ("ns", "s"):
            args["order"] = [o, 0]
            args["gamma"] = draw(st_gamma_vec(o) if mod == "ns" else st_gamma_mat(o, 2))
            args["method"] = pin.get("method", 1)
            args["iters"] = draw(st.integers(1, 4))
            args["max_order"] = [draw(st.integers(o, o + 4)), 0]
            args["exact"] = draw(st.booleans())
        else:
            args["r"] = draw(st_cdisc(5.0))
        return {"fn": fn, "args": args}

    return one()


def call_qcd_kernels(fn, a):
    from eko import beta
    from eko.kernels import as4_evolution_integrals as ei4
    from eko.kernels import evolution_integrals as ei
    from eko.kernels import non_singlet as ns
    from eko.kernels import singlet as s

    mod, name = fn.split(".")
    nf = int(a["nf"])
    a1, a0 = float(a["a"][0]), float(a["a"][1])
    if mod in ("ns", "s"):
        order = (int(a["order"][0]), int(a["order"][1]))
        gamma = carr(a["gamma"])
        if name == "dispatcher":
            if mod == "ns":
                return ns.dispatcher(order, int(a["method"]), gamma, a1, a0, nf)
            return s.dispatcher(order, int(a["method"]), gamma, a1, a0, nf, int(a["iters"]), (int(a["max_order"][0]), 0))
        bl = _beta_list(nf, order[0])
        if mod == "ns":
            if name == "U_vec":
                return ns.U_vec(gamma, bl, order)
            if name in ("eko_ordered_truncated", "eko_truncated"):
                return getattr(ns, name)(gamma, a1, a0, bl, order)
            return getattr(ns, name)(gamma, a1, a0, bl)
        if name in S_DIRECT_BETA:
            return getattr(s, name)(gamma, a1, a0, bl)
        if name.startswith("n3lo"):
            return getattr(s, name)(gamma, a1, a0, nf)
        if name == "eko_iterate":
            return s.eko_iterate(gamma, a1, a0, bl, order, int(a["iters"]))
        if name == "eko_perturbative":
            return s.eko_perturbative(gamma, a1, a0, bl, order, int(a["iters"]), (int(a["max_order"][0]), 0), bool(a["exact"]))
        return s.eko_truncated(gamma, a1, a0, bl, order)
    beta0 = beta.beta_qcd((2, 0), nf)
    if mod == "ei":
        needs, ln = EI_FUNCS[name]
        if not needs:
            return getattr(ei, name)(a1, a0, beta0)
        b_vec = [beta.b_qcd((2 + i, 0), nf) for i in range(ln)]
        return getattr(ei, name)(a1, a0, beta0, b_vec)
    b_list = [beta.b_qcd((3 + i, 0), nf) for i in range(3)]  # [b1, b2, b3]
    if name == "roots":
        return ei4.roots(b_list)
    if name == "derivative":
        return ei4.derivative(c(a["r"]), b_list)
    if name.endswith("_exact") and name != "j03_exact":
        return getattr(ei4, name)(a1, a0, beta0, b_list, ei4.roots(b_list))
    if name == "j33_expanded":
        return ei4.j33_expanded(a1, a0, beta0)
    if name in ("j23_expanded", "j13_expanded"):
        return getattr(ei4, name)(a1, a0, beta0, b_list)
    # j03_*: (j12, j13, j23, j33, b_list)
    j12 = ei.j12(a1, a0, beta0)
    if name == "j03_exact":
        r = ei4.roots(b_list)
        return ei4.j03_exact(j12, ei4.j13_exact(a1, a0, beta0, b_list, r), ei4.j23_exact(a1, a0, beta0, b_list, r),
                             ei4.j33_exact(a1, a0, beta0, b_list, r), b_list)
    return ei4.j03_expanded(j12, ei4.j13_expanded(a1, a0, beta0, b_list), ei4.j23_expanded(a1, a0, beta0, b_list),
                            ei4.j33_expanded(a1, a0, beta0), b_list)


# ------------------------------------------------------------------------------------------- QED kernels


def combos_qed_kernels(tier):
    out = []
    for nf in (3, 4, 5, 6):
        for o0 in (1, 2, 3, 4):
            for o1 in (1, 2):
                for which in ("ns", "singlet", "valence"):
                    for running in (False, True):
                        out.append({"fn": which + "_qed.dispatcher", "o0": o0, "o1": o1, "nf": nf, "running": running, "method": 1})
                out.append({"fn": "ns_qed.fixed_alphaem_exact", "o0": o0, "o1": o1, "nf": nf})
    for which in ("ns", "singlet", "valence"):  # the documented refusal of the other methods
        for method in (2, 5):
            out.append({"fn": which + "_qed.dispatcher", "o0": 2, "o1": 1, "nf": 4, "running": False, "method": method})
    return out


def strat_qed_kernels(pin):
    st = _st()
    fn, o0, o1, nf = pin["fn"], pin["o0"], pin["o1"], pin["nf"]
    mu = unit().map(lambda u: 10.0 ** (4 * u))

    @st.composite
    def disp(draw):
        which = fn.split("_")[0]
        steps = draw(st.integers(1, 4))
        a1, a0 = draw(st_apair())
        fr = sorted(draw(st.lists(unit(), min_size=steps - 1, max_size=steps - 1)))
        as_list = [a0 * (a1 / a0) ** f for f in [0.0] + fr + [1.0]]
        aem = draw(st_coupling(1e-4, 5e-3))
        running = pin["running"]
        a_half = [[math.sqrt(as_list[k] * as_list[k + 1]), aem * (1 + 0.01 * k if running else 1.0)] for k in range(steps)]
        dim = {"ns": None, "singlet": 4, "valence": 2}[which]
        m = sorted([draw(mu), draw(mu)])
        return {"fn": fn, "args": {
            "order": [o0, o1], "gamma": draw(st_gamma_grid(o0, o1, dim)), "as_list": as_list, "a_half": a_half,
            "running": running, "nf": nf, "steps": steps, "mu2": [m[0], m[1] * 1.01], "method": pin["method"]}}

    @st.composite
    def fixed(draw):
        return {"fn": fn, "args": {
            "order": [o0, o1], "gamma": draw(st_gamma_grid(o0, o1)), "a": draw(st_apair()), "aem": draw(st_coupling(1e-4, 5e-3)),
            "nf": nf, "mu2": [draw(mu), draw(mu)]}}

    return fixed() if fn.endswith("fixed_alphaem_exact") else disp()


def call_qed_kernels(fn, a):
    from eko.kernels import non_singlet_qed as qns
    from eko.kernels import singlet_qed as qs
    from eko.kernels import valence_qed as qv

    order = (int(a["order"][0]), int(a["order"][1]))
    gamma = carr(a["gamma"])
    nf = int(a["nf"])
    if fn == "ns_qed.fixed_alphaem_exact":
        return qns.fixed_alphaem_exact(order, gamma, float(a["a"][0]), float(a["a"][1]), float(a["aem"]), nf,
                                       float(a["mu2"][0]), float(a["mu2"][1]))
    as_list = np.array(a["as_list"], dtype=float)
    a_half = np.array(a["a_half"], dtype=float)
    steps = int(a["steps"])
    if fn == "ns_qed.dispatcher":
        return qns.dispatcher(order, int(a["method"]), gamma, as_list, a_half[:, 1].copy(), bool(a["running"]), nf, steps,
                              float(a["mu2"][0]), float(a["mu2"][1]))
    mod = qs if fn.startswith("singlet") else qv
    return mod.dispatcher(order, int(a["method"]), gamma, as_list, a_half, nf, steps, (10, 0))


# ------------------------------------------------------------------------------------------- interpolation + Mellin


def combos_interpolation(tier):
    out = []
    for rep in range(3):
        for log in (False, True):
            for deg in (1, 2, 3, 4):
                out.append({"fn": "interpolation.evaluate_grid", "log": log, "deg": deg, "rep": rep})
                out.append({"fn": "interpolation.evaluate_x", "log": log, "deg": deg, "rep": rep})
        for name in ("Talbot_path", "Talbot_jac", "line_path", "line_jac", "edge_path", "edge_jac", "Path"):
            for singlet in (False, True):
                out.append({"fn": "mellin." + name, "singlet": singlet, "rep": rep})
    return out


def strat_interpolation(pin):
    st = _st()
    fn = pin["fn"]

    @st.composite
    def grid(draw):
        deg = pin["deg"]
        npts = draw(st.integers(max(3, deg + 1), 9))
        xmin = 10.0 ** (-1 - 5 * draw(unit()))
        jit = [draw(unit()) for _ in range(npts)]
        lg = [math.log(xmin) * (1 - (i + 0.3 * (jit[i] - 0.5) * (0 < i < npts - 1)) / (npts - 1)) for i in range(npts)]
        xs = [math.exp(v) for v in lg]
        xs[-1] = 1.0
        return {"xgrid": xs, "deg": deg, "log": pin["log"], "j": draw(st.integers(0, npts - 1))}

    @st.composite
    def evaln(draw):
        from eko import mellin

        g = draw(grid())
        # the solver evaluates the basis functions at grid points x_k and at N on the contour built for that x_k; there
        # |N ln x| stays moderate.  An unrelated (N, x) pair (observed: x far below the grid, |N ln x| = 217, value 3e32)
        # amplifies the rounding of the exponent beyond 1e-12 without any semantic difference.
        logx = math.log(g["xgrid"][0]) * draw(unit())
        n = complex(mellin.Path(0.5 + 0.45 * draw(unit()), logx, draw(st.booleans())).n) * (0.8 + 0.4 * draw(unit()))
        g.update({"n": [n.real, n.imag], "logx": logx})
        return {"fn": fn, "args": g}

    @st.composite
    def evalx(draw):
        g = draw(grid())
        lo = g["xgrid"][0]
        g["x"] = draw(st.one_of(unit().map(lambda u: lo * (1.0 / lo) ** u), unit().map(lambda u: lo * (1.0 / lo) ** u),
                                st.sampled_from(g["xgrid"])))
        return {"fn": fn, "args": g}

    @st.composite
    def path(draw):
        return {"fn": fn, "args": {
            "t": draw(st.one_of(unit(), unit(), unit(), st.just(0.5))), "r": 0.1 + 60 * draw(unit()),
            "o": 1.0 if pin["singlet"] else 0.0, "m": 0.1 + 10 * draw(unit()), "c": 0.5 + 2 * draw(unit()),
            "phi": 0.3 + 2.5 * draw(unit()), "logx": math.log(1e-7) * draw(unit()), "singlet": pin["singlet"]}}

    if fn.startswith("mellin."):
        return path()
    return evaln() if fn.endswith("evaluate_grid") else evalx()


def call_interpolation(fn, a):
    from eko import interpolation, mellin

    if fn.startswith("mellin."):
        name = fn.split(".")[1]
        t = float(a["t"])
        if name in ("Talbot_path", "Talbot_jac"):
            return getattr(mellin, name)(t, float(a["r"]), float(a["o"]))
        if name in ("line_path", "line_jac"):
            return getattr(mellin, name)(t, float(a["m"]), float(a["c"]))
        if name in ("edge_path", "edge_jac"):
            return getattr(mellin, name)(t, float(a["m"]), float(a["c"]), float(a["phi"]))
        p = mellin.Path(t, float(a["logx"]), bool(a["singlet"]))
        return (p.n, p.jac, p.prefactor, p.r, p.o)
    disp = interpolation.InterpolatorDispatcher(interpolation.XGrid(np.array(a["xgrid"]), log=bool(a["log"])), int(a["deg"]), True)
    areas = disp[int(a["j"])].areas_representation
    if fn == "interpolation.evaluate_grid":
        return interpolation.evaluate_grid(c(a["n"]), bool(a["log"]), float(a["logx"]), areas)
    x = float(a["x"])
    if a["log"]:
        return interpolation.log_evaluate_x(x, areas)
    return interpolation.evaluate_x(x, areas)


# ------------------------------------------------------------------------------------------- couplings


def combos_couplings(tier):
    out = []
    for nf in (3, 4, 5, 6):
        for name in ("exact_lo", "expanded_nlo", "expanded_nnlo", "expanded_n3lo"):
            out.append({"fn": "couplings." + name, "nf": nf, "o0": 1, "o1": 0})
        for o0 in (1, 2, 3, 4):
            out.append({"fn": "couplings.expanded_qcd", "nf": nf, "o0": o0, "o1": 0})
            for o1 in (0, 1, 2):
                if o1:
                    out.append({"fn": "couplings.expanded_qed", "nf": nf, "o0": o0, "o1": o1})
                out.append({"fn": "couplings.couplings_expanded_alphaem_running", "nf": nf, "o0": o0, "o1": o1})
                out.append({"fn": "couplings.couplings_expanded_fixed_alphaem", "nf": nf, "o0": o0, "o1": o1})
    return out


def strat_couplings(pin):
    st = _st()

    @st.composite
    def one(draw):
        return {"fn": pin["fn"], "args": {
            "ref": draw(st_coupling(0.005, 0.04)), "aem": draw(st_coupling(3e-4, 1e-3)), "nf": pin["nf"],
            "nl": draw(st.integers(0, 3)), "order": [pin["o0"], pin["o1"]], "lmu": -3 + 9 * draw(unit()),
            "decoupled": draw(st.booleans())}}

    return one()


def call_couplings(fn, a):
    from eko import beta, couplings

    name = fn.split(".")[1]
    nf, nl = int(a["nf"]), int(a["nl"])
    order = (int(a["order"][0]), int(a["order"][1]))
    ref, lmu = float(a["ref"]), float(a["lmu"])
    if lmu < 0:  # keep the evolved coupling perturbative when running downwards
        lmu = max(lmu, -0.8 / (beta.beta_qcd((2, 0), nf) * ref) * 0.6)
    b0 = beta.beta_qcd((2, 0), nf)
    b = [beta.b_qcd((2 + i, 0), nf) for i in range(4)]
    if name == "exact_lo":
        return couplings.exact_lo(ref, b0, lmu)
    if name == "expanded_nlo":
        return couplings.expanded_nlo(ref, b0, b[1], lmu)
    if name == "expanded_nnlo":
        return couplings.expanded_nnlo(ref, b0, b[1], b[2], lmu)
    if name == "expanded_n3lo":
        return couplings.expanded_n3lo(ref, b0, b[1], b[2], b[3], lmu)
    if name == "expanded_qcd":
        return couplings.expanded_qcd(ref, order[0], b0, b, lmu)
    if name == "expanded_qed":
        bq = [beta.b_qed((0, 2 + i), nf, nl) for i in range(2)]
        return couplings.expanded_qed(float(a["aem"]), max(order[1], 1), beta.beta_qed((0, 2), nf, nl), bq, lmu)
    ref2 = np.array([ref, float(a["aem"])])
    if name == "couplings_expanded_alphaem_running":
        return couplings.couplings_expanded_alphaem_running(order, ref2, nf, nl, 10.0, 10.0 * math.exp(lmu), bool(a["decoupled"]))
    return couplings.couplings_expanded_fixed_alphaem(order, ref2, nf, 10.0, 10.0 * math.exp(lmu))


# ------------------------------------------------------------------------------------------- scale variations


SV_FUNCS = (
    "expanded.non_singlet_variation", "expanded.singlet_variation", "expanded.non_singlet_variation_qed",
    "expanded.singlet_variation_qed", "expanded.valence_variation_qed", "exponentiated.gamma_variation:ns",
    "exponentiated.gamma_variation:s", "exponentiated.gamma_variation_qed:ns", "exponentiated.gamma_variation_qed:s",
    "exponentiated.gamma_variation_qed:v",
)


def combos_scale_variations(tier):
    out = []
    for nf in (3, 4, 5, 6):
        for name in SV_FUNCS:
            for o0 in (1, 2, 3, 4):
                for o1 in ((1, 2) if "qed" in name else (0,)):
                    out.append({"fn": "sv." + name, "nf": nf, "o0": o0, "o1": o1, "running": (nf + o0 + o1) % 2 == 0})
    return out


def strat_scale_variations(pin):
    st = _st()
    name = pin["fn"][3:]
    qed = "qed" in name
    o0, o1 = pin["o0"], pin["o1"]
    kind = "ns" if ("non_singlet" in name or name.endswith(":ns")) else ("v" if ("valence" in name or name.endswith(":v")) else "s")
    dim = {"ns": None, "s": 4 if qed else 2, "v": 2}[kind]

    @st.composite
    def one(draw):
        if qed:
            gamma = draw(st_gamma_grid(o0, o1, dim))
        else:
            gamma = draw(st_gamma_vec(o0) if dim is None else st_gamma_mat(o0, dim))
        return {"fn": pin["fn"], "args": {
            "order": [o0, o1], "gamma": gamma, "a_s": draw(st_coupling()), "a_em": draw(st_coupling(3e-4, 1e-3)),
            "nf": pin["nf"], "nl": draw(st.integers(2, 3)), "L": -2.8 + 5.6 * draw(unit()), "running": pin["running"],
            "dim": dim or 1}}

    return one()


def call_scale_variations(fn, a):
    from eko.scale_variations import expanded, exponentiated

    name = fn[3:]
    order = (int(a["order"][0]), int(a["order"][1]))
    gamma = carr(a["gamma"])
    nf, L, a_s, a_em = int(a["nf"]), float(a["L"]), float(a["a_s"]), float(a["a_em"])
    run = bool(a["running"])
    if name == "expanded.non_singlet_variation":
        return expanded.non_singlet_variation(gamma, a_s, order, nf, L)
    if name == "expanded.singlet_variation":
        return expanded.singlet_variation(gamma, a_s, order, nf, L, int(a["dim"]))
    if name == "expanded.non_singlet_variation_qed":
        return expanded.non_singlet_variation_qed(gamma, a_s, a_em, run, order, nf, L)
    if name == "expanded.singlet_variation_qed":
        return expanded.singlet_variation_qed(gamma, a_s, a_em, run, order, nf, L)
    if name == "expanded.valence_variation_qed":
        return expanded.valence_variation_qed(gamma, a_s, a_em, run, order, nf, L)
    if name.startswith("exponentiated.gamma_variation_qed"):
        return exponentiated.gamma_variation_qed(gamma, order, nf, int(a["nl"]), L, run)
    return exponentiated.gamma_variation(gamma, order, nf, L)


# ------------------------------------------------------------------------------------------- harmonics

CACHE_KEYS = (
    "S1", "S2", "S3", "S4", "S5", "Sm1", "Sm2", "Sm3", "Sm4", "Sm5", "S21", "S2m1", "Sm21", "Sm2m1", "S31", "Sm31", "Sm22",
    "S211", "Sm211", "S1h", "S2h", "S3h", "S1mh", "S2mh", "S3mh", "S1ph", "S2ph", "S3ph", "g3", "S1p2", "g3p2",
)


def harmonic_function_names():
    """Direct entry points of g_functions / log_functions found by introspection (name, number of S arguments)."""
    from ekore.harmonics import g_functions, log_functions

    out = []
    for mod, tag in ((g_functions, "g"), (log_functions, "lm")):
        for k, v in sorted(vars(mod).items()):
            f = getattr(v, "py_func", v)
            if inspect.isfunction(f) and f.__module__ == mod.__name__:
                out.append((f"{tag}.{k}", len(inspect.signature(f).parameters) - 1))
    return out


def cache_key_names():
    from ekore.harmonics import cache

    names = [k for k, v in vars(cache).items() if isinstance(v, int) and not isinstance(v, bool) and not k.startswith("_")
             and k != "CACHE_SIZE"]
    return sorted(set(names) | set(CACHE_KEYS))


def combos_harmonics(tier):
    out = []
    for rep in range(2):
        for key in cache_key_names():
            for singlet in (False, True):
                out.append({"fn": "cache.get:" + key, "singlet": singlet, "rep": rep})
        for name, ns in harmonic_function_names():
            out.append({"fn": name, "nS": ns, "singlet": bool(rep), "rep": rep})
        for K in range(5):
            out.append({"fn": "polygamma.cern_polygamma", "K": K, "singlet": bool(rep), "rep": rep})
        for weight in range(1, 6):
            out.append({"fn": "polygamma.recursive_harmonic_sum", "weight": weight, "singlet": bool(rep), "rep": rep})
        # the same leaf functions with N typed as a Python int / float (integer moments are how the repository's own tests and
        # the documentation's tables call the harmonic sums; numba compiles a separate int64 / float64 specialisation whose
        # integer arithmetic - powers with negative exponents, divisions - need not follow Python's promotion rules)
        for ntype in ("int", "float"):
            for K in range(5):
                out.append({"fn": "polygamma.cern_polygamma", "K": K, "singlet": bool(rep), "rep": rep, "ntype": ntype})
            for weight in range(1, 6):
                out.append({"fn": "polygamma.recursive_harmonic_sum", "weight": weight, "singlet": bool(rep), "rep": rep, "ntype": ntype})
        for ntype in ("int", "float", "complex"):
            for weight in range(1, 6):
                out.append({"fn": "direct.S", "weight": weight, "singlet": bool(rep), "rep": rep, "ntype": ntype})
        for singlet in (False, True):
            out.append({"fn": "polygamma.symmetry_factor", "singlet": singlet, "rep": rep})
            for k in range(4):
                out.append({"fn": "cache.get:sequence", "singlet": singlet, "rep": rep, "k": k})
    return out


def strat_harmonics(pin):
    st = _st()
    keys = cache_key_names()

    @st.composite
    def one(draw):
        fn = pin["fn"]
        args = {"n": draw(st_n()), "singlet": pin["singlet"]}
        if pin.get("ntype") in ("int", "float"):
            k = draw(st.integers(1, 40))
            args["n"] = [float(k) if pin["ntype"] == "int" else k + draw(unit()), 0.0]
            args["ntype"] = pin["ntype"]
        if fn == "direct.S":
            args["weight"] = pin["weight"]
        if fn == "cache.get:sequence":
            args["keys"] = draw(st.lists(st.sampled_from(keys), min_size=2, max_size=6))
        elif "nS" in pin:
            args["nS"] = pin["nS"]
        elif fn == "polygamma.cern_polygamma":
            args["K"] = pin["K"]
        elif fn == "polygamma.recursive_harmonic_sum":
            args.update({"base": draw(st_cdisc(5.0)), "iterations": draw(st.integers(0, 4)), "weight": pin["weight"]})
        return {"fn": fn, "args": args}

    return one()


def call_harmonics(fn, a):
    from ekore import harmonics as h
    from ekore.harmonics import cache, g_functions, log_functions, polygamma

    n = c(a["n"])
    if a.get("ntype") == "int":
        n = int(a["n"][0])
    elif a.get("ntype") == "float":
        n = float(a["n"][0])
    sing = bool(a["singlet"])
    if fn == "direct.S":
        return (h.S1, h.S2, h.S3, h.S4, h.S5)[int(a["weight"]) - 1](n)
    if fn == "cache.get:sequence":
        cc = cache.reset()
        return [cache.get(getattr(cache, k), cc, n, sing) for k in a["keys"]] + [cc.copy()]
    if fn.startswith("cache.get:"):
        cc = cache.reset()
        v = cache.get(getattr(cache, fn.split(":")[1]), cc, n, sing)
        return (v, cc.copy())
    if fn == "polygamma.cern_polygamma":
        return polygamma.cern_polygamma(n, int(a["K"]))
    if fn == "polygamma.recursive_harmonic_sum":
        return polygamma.recursive_harmonic_sum(c(a["base"]), n, int(a["iterations"]), int(a["weight"]))
    if fn == "polygamma.symmetry_factor":
        return polygamma.symmetry_factor(n, sing)
    tag, name = fn.split(".")
    f = getattr(g_functions if tag == "g" else log_functions, name)
    S = [h.S1(n), h.S2(n), h.S3(n), h.S4(n), h.S5(n)][: int(a["nS"])]
    return f(n, *S)


# ------------------------------------------------------------------------------------------- ekore as1/as2 by introspection

EKORE_MODULES = {
    "ad_as12": ("ekore.anomalous_dimensions.unpolarized.space_like.as1", "ekore.anomalous_dimensions.unpolarized.space_like.as2"),
    "ome_as12": ("ekore.operator_matrix_elements.unpolarized.space_like.as1", "ekore.operator_matrix_elements.unpolarized.space_like.as2"),
}
KNOWN_PARAMS = {"N", "n", "nf", "_nf", "cache", "L", "is_msbar"}


def ekore_functions(group):
    """[(qualified name, parameter names)] of every function defined in the group's modules."""
    import importlib

    out = []
    for mname in EKORE_MODULES[group]:
        mod = importlib.import_module(mname)
        for k, v in sorted(vars(mod).items()):
            f = getattr(v, "py_func", v)
            if inspect.isfunction(f) and f.__module__ == mname:
                params = list(inspect.signature(f).parameters)
                unknown = [p for p in params if p not in KNOWN_PARAMS]
                if unknown:
                    raise HarnessError(f"{mname}.{k} has parameters {unknown} the C48 generator does not know")
                out.append((f"{mname}:{k}", params))
    return out


def combos_ekore(group):
    def make(tier):
        out = []
        for rep in range(2):
            for name, params in ekore_functions(group):
                for nf in (3, 4, 5, 6):
                    out.append({"fn": name, "params": params, "nf": nf, "is_msbar": bool((nf + rep) % 2), "rep": rep})
        return out

    return make


def strat_ekore(pin):
    st = _st()
    name = pin["fn"]
    singlet_like = any(s in name for s in ("singlet", "_gg", "_qg", "_gq", "_ps", "_hg", "_hq", "_gh", "_hh"))

    @st.composite
    def one(draw):
        return {"fn": name, "args": {
            "params": pin["params"], "n": draw(st_n(singlet_like or None)), "nf": pin["nf"],
            "L": draw(st.one_of(unit().map(lambda u: -3 + 6 * u), unit().map(lambda u: -3 + 6 * u), st.just(0.0))),
            "is_msbar": pin["is_msbar"]}}

    return one()


def call_ekore(fn, a):
    import importlib

    from ekore.harmonics import cache

    mname, name = fn.split(":")
    f = getattr(importlib.import_module(mname), name)
    vals = {"N": c(a["n"]), "n": c(a["n"]), "nf": int(a["nf"]), "_nf": int(a["nf"]), "cache": cache.reset(), "L": float(a["L"]),
            "is_msbar": bool(a["is_msbar"])}
    return f(*[vals[p] for p in a["params"]])


# ------------------------------------------------------------------------------------------- thorough: quad_ker, solve

AD_LABELS_QCD = ((100, 100), (100, 21), (21, 100), (21, 21), (10200, 10200), (10101, 10101), (10201, 10201))
AD_LABELS_QED = ((21, 21), (21, 22), (22, 100), (100, 101), (101, 101), (10200, 10200), (10200, 10204), (10204, 10204),
                 (10102, 10102), (10103, 10103), (10202, 10202), (10203, 10203))
OME_LABELS = ((100, 100), (100, 21), (21, 100), (21, 21), (90, 21), (90, 100), (100, 90), (21, 90), (90, 90), (200, 200),
              (200, 91), (91, 200), (91, 91))


def _grid_args(draw, st):
    npts = draw(st.integers(3, 7))
    xmin = 10.0 ** (-1 - 4 * draw(unit()))
    xs = [math.exp(math.log(xmin) * (1 - i / (npts - 1))) for i in range(npts)]
    xs[-1] = 1.0
    j = draw(st.integers(0, npts - 1))
    # the integrand vanishes identically when x lies above the support of basis function j: mostly pick x_k <= x_j
    k = draw(st.one_of(st.integers(0, min(j, npts - 2)), st.integers(0, min(j, npts - 2)), st.integers(0, npts - 2)))
    return {"xgrid": xs, "deg": draw(st.integers(1, min(3, npts - 1))), "log": draw(st.booleans()), "j": j, "k": k}


def combos_quad_ker_ad(tier):
    """(kind, orders, label) in full; method, nf, scale-variation mode cycled so that every value meets every order."""
    out = []
    i = 0
    for kind, orders, labels in (
        ("unpol", [(o, 0) for o in (1, 2, 3, 4)], AD_LABELS_QCD), ("pol", [(o, 0) for o in (1, 2, 3)], AD_LABELS_QCD),
        ("tl", [(o, 0) for o in (1, 2, 3)], AD_LABELS_QCD), ("qed", [(o, e) for o in (1, 2, 3, 4) for e in (1, 2)], AD_LABELS_QED),
    ):
        for order in orders:
            for label in labels:
                out.append({"kind": kind, "order": list(order), "label": list(label), "method": 1 if kind == "qed" else 1 + i % 8,
                            "nf": 3 + (i // 3) % 4, "sv": 1 + i % 3, "fhmruvv": i % 5 != 0})
                i += 7  # co-prime with 8, 3, 4: decorrelates the cycled coordinates from the loop structure
    return out


def strat_quad_ker_ad(pin):
    st = _st()

    @st.composite
    def one(draw):
        steps = draw(st.integers(1, 3))
        a1, a0 = draw(st_apair())
        as_list = [a0 * (a1 / a0) ** (i / steps) for i in range(steps + 1)]
        aem = draw(st_coupling(3e-4, 1e-3))
        o0 = pin["order"][0]
        g = _grid_args(draw, st)
        g.update({
            "u": 0.5 + 0.45 * draw(unit()), "order": pin["order"], "label": pin["label"], "method": pin["method"], "as_list": as_list,
            "a_half": [[math.sqrt(as_list[i] * as_list[i + 1]), aem] for i in range(steps)], "running": draw(st.booleans()),
            "nf": pin["nf"], "L": -1.5 + 3 * draw(unit()), "steps": steps, "max_order": [o0 + draw(st.integers(0, 3)), 0],
            "sv": pin["sv"], "threshold": draw(st.booleans()), "var": [draw(st.integers(0, 2)) for _ in range(7)],
            "pol": pin["kind"] == "pol", "tl": pin["kind"] == "tl", "fhmruvv": pin["fhmruvv"],
            "mu2": [10.0, 10.0 * math.exp(3 * draw(unit()))],
        })
        return {"fn": "quad_ker.quad_ker_ad", "args": g}

    return one()


def combos_quad_ker_ome(tier):
    out = []
    i = 0
    for rep in range(2):
        for kind, orders in (("unpol", (1, 2, 3)), ("pol", (1, 2)), ("tl", (1,))):
            for o0 in orders:
                for label in OME_LABELS:
                    out.append({"kind": kind, "order": [o0, 0], "label": list(label), "nf": 3 + (i // 3) % 3, "sv": 1 + i % 3,
                                "backward": 1 + (i // 2) % 3, "msbar": bool(i % 2), "rep": rep})
                    i += 7
    return out


def strat_quad_ker_ome(pin):
    st = _st()

    @st.composite
    def one(draw):
        g = _grid_args(draw, st)
        g.update({
            "u": 0.5 + 0.45 * draw(unit()), "order": pin["order"], "label": pin["label"], "a_s": draw(st_coupling()),
            "nf": pin["nf"], "L": -1.5 + 3 * draw(unit()), "sv": pin["sv"], "Lsv": -1.0 + 2 * draw(unit()),
            "backward": pin["backward"], "msbar": pin["msbar"], "pol": pin["kind"] == "pol", "tl": pin["kind"] == "tl",
        })
        return {"fn": "quad_ker.quad_ker_ome", "args": g}

    return one()


def _mellin_factor(quad_ker, vals, logx, areas):
    """(Mellin-inversion factor at u, its peak modulus along the contour) from the QuadKerBase jitclass."""
    factor = complex(quad_ker.QuadKerBase(vals["u"], vals["is_log"], logx, vals["mode0"]).integrand(areas))
    peak = max(
        abs(complex(quad_ker.QuadKerBase(u0, vals["is_log"], logx, vals["mode0"]).integrand(areas))) for u0 in (0.5, 0.6, 0.7)
    )
    return factor, float(peak)


def call_quad_ker(fn, a):
    import importlib

    from eko import interpolation

    # `eko.evolution_operator.quad_ker` as an attribute is shadowed by the function imported in the package __init__
    quad_ker = importlib.import_module("eko.evolution_operator.quad_ker")

    disp = interpolation.InterpolatorDispatcher(interpolation.XGrid(np.array(a["xgrid"]), log=bool(a["log"])), int(a["deg"]), True)
    areas = disp[int(a["j"])].areas_representation
    logx = math.log(a["xgrid"][int(a["k"])])
    order = (int(a["order"][0]), int(a["order"][1]))
    if fn.endswith("quad_ker_ad"):
        params = list(inspect.signature(getattr(quad_ker.quad_ker_ad, "py_func", quad_ker.quad_ker_ad)).parameters)
        vals = dict(
            u=float(a["u"]), order=order, mode0=int(a["label"][0]), mode1=int(a["label"][1]), ev_method=int(a["method"]),
            is_log=bool(a["log"]), logx=logx, areas=areas, as_list=np.array(a["as_list"], dtype=float),
            mu2_from=float(a["mu2"][0]), mu2_to=float(a["mu2"][1]), a_half=np.array(a["a_half"], dtype=float),
            alphaem_running=bool(a["running"]), nf=int(a["nf"]), L=float(a["L"]), ev_op_iterations=int(a["steps"]),
            ev_op_max_order=(int(a["max_order"][0]), 0), sv_mode=int(a["sv"]), is_threshold=bool(a["threshold"]),
            n3lo_ad_variation=tuple(int(v) for v in a["var"]), is_polarized=bool(a["pol"]), is_time_like=bool(a["tl"]),
            use_fhmruvv=bool(a["fhmruvv"]),
        )
        vals["Lsv"] = vals["L"]
        factor, peak = _mellin_factor(quad_ker, vals, logx, areas)
        return (quad_ker.quad_ker_ad(*[vals[p] for p in params]), factor, peak)
    params = list(inspect.signature(getattr(quad_ker.quad_ker_ome, "py_func", quad_ker.quad_ker_ome)).parameters)
    vals = dict(
        u=float(a["u"]), order=order, mode0=int(a["label"][0]), mode1=int(a["label"][1]), is_log=bool(a["log"]), logx=logx,
        areas=areas, a_s=float(a["a_s"]), nf=int(a["nf"]), L=float(a["L"]), sv_mode=int(a["sv"]), Lsv=float(a["Lsv"]),
        backward_method=int(a["backward"]), is_msbar=bool(a["msbar"]), is_polarized=bool(a["pol"]), is_time_like=bool(a["tl"]),
    )
    factor, peak = _mellin_factor(quad_ker, vals, logx, areas)
    return (quad_ker.quad_ker_ome(*[vals[p] for p in params]), factor, peak)


def combos_solve(tier):
    return [{"order": [2, 0], "method": "iterate-exact"}, {"order": [3, 0], "method": "truncated"}]


def strat_solve(pin):
    return _st().just({"fn": "solve", "args": {"order": pin["order"], "method": pin["method"]}})


def call_solve(fn, a):
    from vf import runner_util as ru

    case = ru.full({"order": list(a["order"]), "method": a["method"]}) if hasattr(ru, "full") else None
    if case is None:
        raise HarnessError("runner_util.full is required for the end-to-end part of C48")
    ops = ru.solve(case)
    return [[list(k)[:2], op, err] for k, (op, err) in sorted(ops.items(), key=lambda kv: tuple(kv[0]))]


STRATEGIES = {
    "qcd_kernels": strat_qcd_kernels, "qed_kernels": strat_qed_kernels, "interpolation": strat_interpolation,
    "couplings": strat_couplings, "scale_variations": strat_scale_variations, "harmonics": strat_harmonics,
    "ad_as12": strat_ekore, "ome_as12": strat_ekore, "quad_ker_ad": strat_quad_ker_ad,
    "quad_ker_ome": strat_quad_ker_ome, "solve": strat_solve,
}
COMBOS = {
    "qcd_kernels": combos_qcd_kernels, "qed_kernels": combos_qed_kernels, "interpolation": combos_interpolation,
    "couplings": combos_couplings, "scale_variations": combos_scale_variations, "harmonics": combos_harmonics,
    "ad_as12": combos_ekore("ad_as12"), "ome_as12": combos_ekore("ome_as12"), "quad_ker_ad": combos_quad_ker_ad,
    "quad_ker_ome": combos_quad_ker_ome, "solve": combos_solve,
}
CALLERS = {
    "qcd_kernels": call_qcd_kernels, "qed_kernels": call_qed_kernels, "interpolation": call_interpolation,
    "couplings": call_couplings, "scale_variations": call_scale_variations, "harmonics": call_harmonics,
    "ad_as12": call_ekore, "ome_as12": call_ekore, "quad_ker_ad": call_quad_ker, "quad_ker_ome": call_quad_ker,
    "solve": call_solve,
}


# =========================================================================================== evaluation in one mode


def evaluate(case):
    """Run one case in the current process; returns {"ok": encoded} or {"exc": ...}."""
    import numba

    try:
        raw = CALLERS[case["group"]](case["fn"], case["args"])
    except HarnessError:
        raise
    except Exception as e:  # noqa: BLE001 - outcome of the code under test, compared between the two modes
        import traceback

        # Interpreted: an exception whose traceback never enters the tree under test comes from this file (argument
        # preparation) and is a harness bug -> propagate (exit 2).  Compiled code leaves no Python frames, so in JIT mode
        # every exception is an outcome; a harness bug would already have surfaced in the interpreted evaluation of the
        # same case.
        tb = traceback.extract_tb(e.__traceback__)
        in_harness_only = all("/vf/" in fr.filename for fr in tb)
        is_numba = isinstance(e, numba.core.errors.NumbaError)
        if in_harness_only and not is_numba and numba.config.DISABLE_JIT:
            raise
        return {"exc": type(e).__name__, "numba": bool(is_numba), "msg": str(e)[:1500]}
    return {"ok": encode(raw)}


def worker_main(argv):
    """`--worker cases.json out.jsonl`: evaluate the cases in this process' numba mode, one JSON line per event."""
    from vf import core

    core.setup_paths()
    core.assert_tree()
    import numba

    cases = json.loads(pathlib.Path(argv[0]).read_text())
    t0 = time.time()
    with open(argv[1], "w") as out:
        out.write(json.dumps({"hello": True, "jit_disabled": bool(numba.config.DISABLE_JIT), "cache_dir": numba.config.CACHE_DIR}) + "\n")
        out.flush()
        for i, case in enumerate(cases):
            out.write(json.dumps({"start": i}) + "\n")
            out.flush()
            t1 = time.time()
            r = evaluate(case)
            r["i"] = i
            r["dt"] = round(time.time() - t1, 3)
            out.write(json.dumps(r) + "\n")
            out.flush()
        out.write(json.dumps({"done": len(cases), "wall": round(time.time() - t0, 1)}) + "\n")


def spawn_compiled(cases, tag):
    """Start worker A (JIT on, tree-keyed cache) on the cases; returns (Popen, out path, log path)."""
    tmp = pathlib.Path(os.environ.get("TMPDIR") or (VERIF / ".work"))
    tmp.mkdir(parents=True, exist_ok=True)
    stem = f"c48-{tag}-{os.getpid()}-{int(time.time() * 1000) % 10**9}"
    cfile, ofile, lfile = tmp / f"{stem}.cases.json", tmp / f"{stem}.out.jsonl", tmp / f"{stem}.log"
    cfile.write_text(json.dumps(cases))
    env = dict(os.environ)
    env["NUMBA_DISABLE_JIT"] = "0"
    env["NUMBA_CACHE_DIR"] = str(cache_dir())
    env["VERIF_REPO"] = str(REPO)
    env["PYTHONPATH"] = os.pathsep.join([str(VERIF), str(VERIF / ".deps"), env.get("PYTHONPATH", "")]).rstrip(os.pathsep)
    env["PYTHONDONTWRITEBYTECODE"] = "1"
    env["PYTHONWARNINGS"] = "ignore"
    p = subprocess.Popen(
        [PY, "-m", "vf.props.c48_compiled_vs_interpreted", "--worker", str(cfile), str(ofile)],
        cwd=str(VERIF), env=env, stdout=open(lfile, "w"), stderr=subprocess.STDOUT,
    )
    return p, ofile, lfile


def read_worker(p, ofile, lfile, ncases, timeout):
    """Wait for worker A; returns (results by index, crashed index or None, log tail)."""
    try:
        rc = p.wait(timeout=timeout)
    except subprocess.TimeoutExpired:
        p.kill()
        p.wait()
        raise HarnessError(f"compiled worker exceeded {timeout}s (inconclusive: compile time, not a verdict)\n" + _tail(lfile))
    res, started, hello = {}, None, None
    if ofile.exists():
        for line in ofile.read_text().splitlines():
            try:
                d = json.loads(line)
            except json.JSONDecodeError:
                continue
            if "hello" in d:
                hello = d
            elif "start" in d:
                started = d["start"]
            elif "i" in d:
                res[d["i"]] = d
    if hello is None:
        raise HarnessError(f"compiled worker did not start (rc={rc})\n" + _tail(lfile))
    if hello["jit_disabled"]:
        raise HarnessError("worker A ran with the JIT disabled")
    crashed = None
    if len(res) < ncases:
        if started is not None and started not in res and rc != 0 and (rc < 0 or rc in (134, 139)):
            crashed = started  # killed by a signal while executing compiled code of this case
        else:
            raise HarnessError(f"compiled worker stopped early rc={rc} after {len(res)}/{ncases} cases\n" + _tail(lfile))
    return res, crashed, _tail(lfile)


def _tail(path, n=2500):
    try:
        return pathlib.Path(path).read_text()[-n:]
    except OSError:
        return ""


def judge(case, ra, rb):
    """CaseResult from the compiled (ra) and interpreted (rb) outcome of one case."""
    g, fn = case["group"], case["fn"]
    res = CaseResult(key=case)
    res.classes = [f"group={g}", f"fn={fn.split(':')[0] if g in ('ad_as12', 'ome_as12') else fn}"]
    what = f"{fn}({json.dumps(case['args'])[:700]})"
    if ra is None:
        res.nontrivial = False
        res.fail(f"{ID}/crash/{g}/{fn}", f"the compiled worker process died while executing {what}")
        return res
    if "exc" in ra and ra.get("numba"):
        res.nontrivial = False
        res.fail(f"{ID}/compile/{g}/{fn}/{ra['exc']}", f"numba could not compile / type {what}: {ra['exc']}: {ra['msg']}")
        return res
    if "exc" in ra or "exc" in rb:
        res.nontrivial = False
        ea, eb = ra.get("exc"), rb.get("exc")
        if ea == eb:
            res.classes.append(f"both-raise:{ea}")
            return res
        res.fail(
            f"{ID}/exception/{g}/{fn}/compiled={ea}/interpreted={eb}",
            f"{what}: compiled " + (f"raised {ea}: {ra['msg'][:300]}" if ea else "returned a value")
            + "; interpreted " + (f"raised {eb}: {rb['msg'][:300]}" if eb else "returned a value"),
        )
        return res
    if g in ("quad_ker_ad", "quad_ker_ome") and rb["ok"]["k"] == "t" and ra["ok"]["k"] == "t" and len(ra["ok"]["v"]) == 3:
        # (kernel value, Mellin-inversion factor at u, peak modulus of that factor along the contour).  The solver
        # integrates the kernel over u, so the scale that matters is the peak of the integrand (at the real-axis crossing),
        # not the local value: in the tail (u -> 0.95) both the factor and Re(factor * element) are cancellation residues
        # 1e-15 and more below the peak (observed: 4.5e-9 relative noise on a factor of 1.7e-14 whose peak is 480).
        peak = float(_num(rb["ok"]["v"][2])[1][0].real)
        diffs = compare(ra["ok"]["v"][0], rb["ok"]["v"][0], "kernel", floor=peak, tol=TOL_GROUP[g])
        diffs += compare(ra["ok"]["v"][1], rb["ok"]["v"][1], "integrand-factor", floor=peak, tol=TOL)
        diffs += compare(ra["ok"]["v"][2], rb["ok"]["v"][2], "integrand-peak", floor=0.0, tol=TOL)
    else:
        diffs = compare(ra["ok"], rb["ok"], floor=SCALE_FLOOR.get(g, 0.0), tol=TOL_GROUP.get(g, TOL))
    res.nontrivial = is_float_result(rb["ok"])
    for kind, msg in diffs[:3]:
        res.fail(f"{ID}/{kind}/{g}/{fn}", f"{what}: {msg}")
    return res


def run_group(group, cases, timeout):
    """Evaluate the cases in both modes; returns a list of CaseResult aligned with the cases."""
    import numba

    if not numba.config.DISABLE_JIT:
        raise HarnessError("the comparing process must run interpreted (NUMBA_DISABLE_JIT=1)")
    p, ofile, lfile = spawn_compiled(cases, group)
    try:
        rb = [evaluate(cs) for cs in cases]
        ra, crashed, tail = read_worker(p, ofile, lfile, len(cases), timeout)
    finally:
        if p.poll() is None:
            p.kill()
            p.wait()
    out = []
    for i, cs in enumerate(cases):
        if i in ra:
            out.append(judge(cs, ra[i], rb[i]))
        elif crashed is not None and i == crashed:
            out.append(judge(cs, None, rb[i]))
        else:
            out.append(None)  # after a crash: not evaluated
    for f in (ofile, lfile, ofile.with_name(ofile.name.replace(".out.jsonl", ".cases.json"))):
        try:
            f.unlink()
        except OSError:
            pass
    return out


def draw_cases(group, tier, reps, seed):
    """One case per discrete combination and repetition: the discrete coordinates (function, orders, method, nf, ...)
    are enumerated in full by COMBOS[group]; Hypothesis draws everything else."""
    import hypothesis
    from hypothesis import HealthCheck, Phase, given, settings
    from hypothesis import strategies as st

    combos = COMBOS[group](tier)
    out, seen = [], set()
    chunk = 8
    for c0 in range(0, len(combos), chunk):
        part = combos[c0:c0 + chunk]
        got = []

        # max_examples = reps + 1: Hypothesis always starts with the all-minimal example (same for every seed), which is
        # dropped unless nothing else was produced
        @hypothesis.seed(seed * 100003 + c0)
        @settings(max_examples=reps + 1, database=None, deadline=None, derandomize=False,
                  suppress_health_check=list(HealthCheck), phases=[Phase.generate], print_blob=False)
        @given(st.tuples(*[STRATEGIES[group](pin) for pin in part]))
        def collect(tup):
            got.append(tup)

        collect()
        for tup in (got[1:] or got):
            for cs in tup:
                cs = dict(cs)
                cs["group"] = group
                k = json.dumps(cs, sort_keys=True)
                if k not in seen:
                    seen.add(k)
                    out.append(cs)
    return out


def run_custom(tier, seed, shard, nshards, record):
    gs = groups(tier)
    mine = [g for i, g in enumerate(gs) if i % nshards == shard]
    b = budget(tier)
    for g in mine:
        cases = draw_cases(g, tier, REPS[tier].get(g, REPS[tier]["*"]), seed * 1000 + gs.index(g))
        results = run_group(g, cases, timeout=b["wall_s"] * 4)
        for cs, r in zip(cases, results):
            if r is not None:
                record(cs, r)


def check_case(case):
    """Replay of one case: compiled worker + interpreted evaluation in this process."""
    r = run_group(case["group"], [case], timeout=3600)[0]
    if r is None:
        raise HarnessError("replay produced no result")
    return r


if __name__ == "__main__":
    if len(sys.argv) >= 4 and sys.argv[1] == "--worker":
        worker_main(sys.argv[2:])
    else:
        raise SystemExit("usage: python -m vf.props.c48_compiled_vs_interpreted --worker CASES.json OUT.jsonl")
